"""C09 — rsass's own CSS output reads back as the same stylesheet (partial).

Cases
  c09rt <css|scss> <hex src>    harness: expanded output of `src`, and the expanded output of that output read back as
                                plain CSS (`SourceFile::css_bytes`); oracle: the re-read succeeds and reproduces the
                                first output up to blank lines.  (No model opinion.)
  c09id <f|r> <cp> <0|1>        harness: expanded output of plain css `a{b:[x]\\<hex>[ ]z}`; model: `Writer.Ident.normFirst/normRest`
                                (lean/RsassModel/Writer/Ident.lean) — the identifier escape normaliser, exhaustive below U+0100.
  c09str <hex utf-8 value>      harness: `CssString{value, Double}.to_string()` and whether the reader accepts it;
                                model: `Writer.Str.showQ` / `readRaw` (lean/RsassModel/Writer/CssString.lean).
"""
import re
from tools.vlib import Case, Verdict, hx, unhx

ID = "C09"
DRIVER = "drv_C09"
THEOREM_MODS = ["RsassModel.Theorems.C09"]
LEVEL = "proof"
CASE_TIMEOUT = 60


def no_blank(b):
    return b"\n".join(l for l in b.split(b"\n") if l.strip() != b"")


def oracle_rt(impl):
    parts = impl.split("|")
    if len(parts) != 2 or not parts[0].startswith("ok:"):
        return None                       # first compilation failed: nothing to read back
    if not parts[1].startswith("ok:"):
        return "the expanded output is rejected by the plain-CSS reader: " + unhx(parts[1][4:]).split("\n")[0][:80]
    a, b = bytes.fromhex(parts[0][3:]), bytes.fromhex(parts[1][3:])
    if no_blank(a) != no_blank(b):
        la, lb = no_blank(a).split(b"\n"), no_blank(b).split(b"\n")
        for x, y in zip(la, lb):
            if x != y:
                return f"re-read output differs: {x[:60]!r} became {y[:60]!r}"
        return "re-read output differs in length"
    return None


# ---- generator: the construct subset of the statement ---------------------------------------------
UNI = ["é", "ü", "日本", "ß", "Ω", "\u00a0", "\u2028", "🎉", "\ue000", "\ue000a", "\uf8ff ", "\U000f0000", "\U0010fffd0", "ａ", "\u0301"]
ASCII_ID = ["a", "b", "foo", "bar-baz", "x1", "_u", "-m"]


def ident(rng):
    s = rng.choice(ASCII_ID)
    if rng.random() < 0.35:
        s += rng.choice(["é", "ü", "日本", "ß", "Ω", "ａ", "ñ9", "Ж", "🎉", "€"])   # symbols too since bcc4ec1
    return s


def string(rng):
    parts = []
    for _ in range(rng.randint(0, 4)):
        k = rng.random()
        if k < 0.4:
            parts.append(rng.choice(["a", "b c", "x", " ", "0", "f", "1a", "-", "{", "}", ";", "/*", "*/", "url(", "#", ","]))
        elif k < 0.8:
            parts.append(rng.choice(UNI))
        elif k < 0.9:
            parts.append("'")
        else:
            parts.append('\\"')
    body = "".join(parts)
    return '"' + body + '"'


def attr_string(rng):
    """quoted attribute value: letters/Unicode/space only (a `/*` or an escaped quote inside an attribute
    selector's string is read differently by the plain-CSS selector parser — see notes/C09.md, limits)"""
    return '"' + "".join(rng.choice(["a", "b c", "x", " ", "0", "é", "日本", "\ue000", "\ue000a", "🎉", "-", ";", "{"])
                         for _ in range(rng.randint(0, 3))) + '"'


def value(rng, depth=0):
    k = rng.random()
    if k < 0.2:
        return ident(rng)
    if k < 0.4:
        return rng.choice(["0", "1", "12", "0.5", "-0.25", "1.5", "100"]) + rng.choice(["", "px", "em", "%", "s", "deg"])
    if k < 0.5:
        return rng.choice(["#abc", "#a1b2c3", "#000", "#ffffff", "#AbC"])
    if k < 0.7:
        return string(rng)
    if k < 0.78 and depth < 3:
        return "url(" + rng.choice(["a.png", "http://x/y.png", '"a b.png"', "é.png"]) + ")"
    if k < 0.9 and depth == 0:
        # simple function call: arguments are single identifiers / numbers / colours / strings
        return ident(rng) + "(" + ", ".join(value(rng, 3) for _ in range(rng.randint(1, 3))) + ")"
    if depth == 0:
        return " ".join(value(rng, 2) for _ in range(2))
    return ident(rng)


def compound(rng):
    s = rng.choice(["", "", "a", "div", "*", ident(rng)])
    for _ in range(rng.randint(0 if s else 1, 2)):
        k = rng.random()
        if k < 0.35:
            s += "." + ident(rng)
        elif k < 0.5:
            s += "#" + ident(rng)
        elif k < 0.7:
            s += "[" + ident(rng) + rng.choice(["", "=" + ident(rng), "=" + attr_string(rng), "~=" + ident(rng), "^=" + attr_string(rng)]) + "]"
        elif k < 0.9:
            s += ":" + rng.choice(["hover", "first-child", "nth-child(2n+1)", "not(.a)", ":before", ":after", "lang(en)"])
        else:
            s += "." + ident(rng)
    return s or "a"


def selector(rng):
    s = compound(rng)
    for _ in range(rng.randint(0, 2)):
        s += rng.choice([" ", " > ", " + ", " ~ "]) + compound(rng)
    return s


def rule(rng):
    sels = ", ".join(selector(rng) for _ in range(rng.randint(1, 2)))
    body = ""
    for _ in range(rng.randint(1, 4)):
        if rng.random() < 0.12:
            body += "  /* " + rng.choice(["c", "é", "multi\n     line", "*", "x { y }"]) + " */\n"
        else:
            body += "  " + rng.choice(["color", "margin", "content", "font-family", "background", "x-" + ident(rng)]) + ": " + value(rng) + ";\n"
    return sels + " {\n" + body + "}\n"


def sheet(rng):
    out = ""
    for _ in range(rng.randint(1, 4)):
        k = rng.random()
        if k < 0.5:
            out += rule(rng)
        elif k < 0.65:
            q = rng.choice(["screen", "print and (min-width: 100px)", "(max-width: 10em)", "screen, print", "not all and (color)",
                            "only screen and (orientation: landscape)"])
            out += "@media " + q + " {\n" + rule(rng) + (rule(rng) if rng.random() < 0.3 else "") + "}\n"
        elif k < 0.75:
            out += "@supports " + rng.choice(["(display: grid)", "not (display: grid)", "(a: b) and (c: d)"]) + " {\n" + rule(rng) + "}\n"
        elif k < 0.85:
            out += "@font-face {\n  font-family: " + string(rng) + ";\n  src: url(a.woff);\n}\n"
        elif k < 0.93:
            out += "@keyframes " + ident(rng) + " {\n  from { opacity: 0; }\n  50% { opacity: 0.5; }\n  to { opacity: 1; }\n}\n"
        else:
            out += "/* " + rng.choice(["top", "é", "a\n * b\n ", "!keep"]) + " */\n"
    return out


def gen(tier, rng, boost=1):
    n = (500 if tier == "quick" else 12000) * boost
    m = (400 if tier == "quick" else 8000) * boost
    fixed = ['a{b:"\ue000a"}', "a{b:\"a'\\\"\"}", 'a{b:"x"}', "@media (a: b){a{b:c}}", "a > b, c ~ d{e:f}", 'a[b="c d"]{e:f}',
             "/* x */", "", 'a{b:url("a b")}', "@charset \"UTF-8\";a{b:'é'}"]
    for src in fixed:
        yield Case("\t".join(["c09rt", "scss", hx(src)]), "fixed")
    for _ in range(n):
        yield Case("\t".join(["c09rt", "scss", hx(sheet(rng))]), "sheet")
    # identifiers with non-alphanumeric non-ASCII characters (symbols, emoji): finding C09-reader-symbol-ident (fixed by bcc4ec1)
    for sym in ["🎉", "→", "€", "\u2028", "♥"]:
        for src in ("a{b:x" + sym + "}", "a{x" + sym + ":c}", ".c" + sym + "{b:c}"):
            yield Case("\t".join(["c09rt", "scss", hx(src)]), "ident-symbol")
    # identifiers with hex escapes at every class boundary of the escape normaliser (C1 controls, NBSP, 0x7f/0x80/0xa0/0xa1,
    # other non-printables), with and without the trailing space, in values, property names, selectors and at-rule names
    cps = [0x1, 0x8, 0x1f, 0x7f, 0x80, 0x85, 0x90, 0x9f, 0xa0, 0xa1, 0xa2, 0xad, 0xb5, 0xd7, 0xff, 0x2028, 0x200b, 0xe000, 0xfeff, 0x1f389]
    for _ in range((60 if tier == "quick" else 1500) * boost):
        def esc():
            c = rng.choice(cps) if rng.random() < 0.85 else rng.randint(0x80, 0xa1)
            return "\\%x" % c + rng.choice([" ", " ", ""])
        def eid(head):
            # the escape is followed by a non-hex-digit letter so that it ends where intended also without the space
            return head + esc() + rng.choice(["x", "y", "z", "w-q", "_"]) + (esc() + "z" if rng.random() < 0.3 else "")
        k = rng.random()
        if k < 0.35:
            src = ".box { grid-area: " + eid("main") + "; font-family: " + eid("caf") + ", serif; }\n"
        elif k < 0.55:
            src = ".box { " + eid("x") + ": z; color: red; }\n"
        elif k < 0.75:
            src = "." + eid("k") + " > #" + eid("i") + " { a: b; }\n"
        elif k < 0.85:
            src = "@keyframes " + eid("k") + " { from { a: b; } to { a: c; } }\n"
        elif k < 0.93:
            src = "@font-face { font-family: " + eid("f") + "; }\n"
        else:
            src = "@" + eid("f") + " { a { b: c; } }\n"
        yield Case("\t".join(["c09rt", "scss", hx(src)]), "ident-escape")
    # the identifier escape normaliser of the plain-css reader against the model (exhaustive below U+0100)
    for c in list(range(0, 0x100)) + [0x100, 0x2028, 0xd7ff, 0xe000, 0xfffd, 0x10000, 0x10ffff] + \
            [rng.randint(0x100, 0x10ffff) for _ in range(40 if tier == "quick" else 2000)]:
        if 0xd800 <= c <= 0xdfff:
            continue
        for pos in "fr":
            yield Case("c09id\t%s\t%d\t%s" % (pos, c, rng.choice("01")), "ident-normaliser")
    # the string layer against the model: arbitrary code points
    pool = [0xE000, 0xE001, 0xF8FF, 0xF0000, 0xFFFFD, 0x100000, 0x10FFFD, 0xE000, 34, 34, 39, 32, 9, 48, 57, 97, 102, 65, 70, 103, 122,
            0xE9, 0x65E5, 0x1F389, 0xDFFF + 1, 0xF900, 0xEFFFF, 0xFFFFE, 0x7F, 0x80, 0xA0, 45, 123, 125, 59, 47, 42, 40, 41]
    for _ in range(m):
        cps = [rng.choice(pool) if rng.random() < 0.85 else rng.choice([rng.randint(33, 126), rng.randint(0xA1, 0xD7FF)])
               for _ in range(rng.randint(0, 6))]
        cps = [c for c in cps if c not in (92, 10, 13, 12)]
        yield Case("c09str\t" + hx("".join(chr(c) for c in cps)), "string")


FINDING_OF = {"escaped-quote": "C09-reader-escaped-quote"}


def kind_of(case, why):
    """names the known defect a round-trip failure belongs to, or None"""
    if why and "rejected by the plain-CSS reader" in why:
        return "rejected"
    return "differs" if why else None


def judge(case, impl, asis, spec):
    f = case.lines[0].split("\t")
    if impl.startswith(("panic:", "abort:")):
        return Verdict(True, None)
    if f[0] == "c09rt":
        return Verdict(True, oracle_rt(impl))
    if f[0] == "c09id":
        why = None if (spec is None or impl == spec) else \
            "an escaped code point of an identifier is not written as the round-trip-proved normaliser writes it"
        return Verdict(asis is None or impl == asis, why)
    # c09str: correspondence with the model; property: the text rsass writes for a string is accepted by its reader
    parts = impl.split("|")
    why = None if parts[-1] == "ok" else "the quoted string rsass writes is rejected by its plain-CSS reader"
    return Verdict(asis is None or impl == asis, why)


def explained(case, r, live):
    ids = {f["id"] for f in live}
    f = case.lines[0].split("\t")
    if f[0] == "c09id":
        return False
    if f[0] == "c09str":
        return bool(r["v"].corr_ok and live and r["asis"][0] is not None and r["asis"] != r["spec"])
    # round trip (no model): C09-reader-escaped-quote covers exactly: the first output contains `\"` inside a
    # double-quoted string (rsass escapes a quote only when the string holds both kinds of quotes)
    if "C09-reader-escaped-quote" in ids:
        first = r["impl"][0].split("|")[0]
        if first.startswith("ok:") and b'\\"' in bytes.fromhex(first[3:]):
            return True       # rejected, or read as a different (shorter) string and hence a different stylesheet
    if "C09-reader-symbol-ident" in ids and case.stratum in ("ident-symbol", "witness") and "rejected" in (r["v"].fails or ""):
        return True
    return False


def nontrivial(case, impl, spec):
    return isinstance(impl, str) and (impl.startswith("ok:") and len(impl.split("|")[0]) > 3 or "|" in impl and not impl.startswith("err"))


RULE = ("stylesheets in the statement's construct subset (type/class/id/attribute/pseudo selectors with combinators; declarations of "
        "identifiers, numbers with units, hex colours, quoted strings, url(), simple calls; @media, @supports, @font-face, @keyframes, "
        "comments) with arbitrary Unicode (BMP, astral, private-use, NBSP, combining) in strings and identifiers: compiled expanded, "
        "re-read as plain CSS, compared up to blank lines; plus quoted strings of random code points (all private-use ranges and "
        "their boundaries, both quotes, hex digits, space/tab) against the Display/reader model")
LEVEL_TEXT = ("Partial proof (Lean 4): the string layer — what `Display for CssString` writes reads back as the same code points "
              "(string_roundtrip, all strings without backslash, on an escape-token model), with partial theorems and refutations for "
              "the unterminated private-use escape (repaired) and the reader that does not decode escapes (open). The rest of the "
              "statement (identifiers, numbers, selectors, at-rules) is decided by the round-trip run on generated stylesheets.")
LEVEL_NOTE = ("Not proved: ident_roundtrip, tree_roundtrip, the hexadecimal digit layer of escapes (rendered in the driver and tied "
              "by exact text agreement with rsass).")
TECHNIQUE = "Lean 4 theorems over a Display/reader model of quoted strings + differential correspondence + output re-read idempotence"
TRUSTED = ["harness op c09rt (re-reads the output through SourceFile::css_bytes)", "driver rendering of hex digits"]
ASSUMPTIONS = ["strings contain no backslash (Display writes it unescaped; CssString values carry escapes as text)"]
