"""Selector objects for C23 / C24: one Python object is printed twice — as selector text for
rsass and as a token term for the Lean drivers (lean/RsassModel/Sel/SuperTerm.lean) — so
that both sides are given the same selector by construction.

The classes mirror /repo/rsass/src/css/selectors/*.rs (and Sel/Syntax.lean) field for field.
Text is printed in the order `elem % . # [attr] :pseudo`, which the rsass parser maps back to
the same fields (lists keep their order; a compound has at most one id and one element type).
"""
import copy


def hx(s):
    return s.encode("utf-8").hex() if s else "-"


class Attr:
    def __init__(self, name, op="", val="", quotes="n", mod=None):
        self.name, self.op, self.val, self.quotes, self.mod = name, op, val, quotes, mod

    def text(self):
        q = {"n": "", "d": '"', "s": "'"}[self.quotes]
        return "[" + self.name + self.op + q + self.val + q + ((" " + self.mod) if self.mod else "") + "]"

    def term(self):
        return " ".join(["a", hx(self.name), hx(self.op), hx(self.val), self.quotes, hx(self.mod or "")])


class Pseudo:
    """arg: None | ("o", text) | ("s", [Sel, ...])"""

    def __init__(self, name, arg=None, element=False):
        self.name, self.arg, self.element = name, arg, element

    def text(self):
        s = ("::" if self.element else ":") + self.name
        if self.arg is None:
            return s
        if self.arg[0] == "o":
            return s + "(" + self.arg[1] + ")"
        return s + "(" + set_text(self.arg[1]) + ")"

    def term(self):
        head = ": " + hx(self.name) + (" 1 " if self.element else " 0 ")
        if self.arg is None:
            return head + "n"
        if self.arg[0] == "o":
            return head + "o " + hx(self.arg[1])
        return head + "s " + set_term(self.arg[1])

    def is_element(self):
        return self.element or self.name in PSEUDO_ELEMENT_NAMES


PSEUDO_ELEMENT_NAMES = ["after", "before", "file-selector-button", "first-letter", "first-line",
                        "grammar-error", "marker", "placeholder", "selection", "spelling-error", "target-text"]


class Comp:
    def __init__(self, elem=None, classes=(), id=None, attrs=(), pseudos=(), placeholders=(), backref=False):
        self.backref, self.elem, self.placeholders = backref, elem, list(placeholders)
        self.classes, self.id, self.attrs, self.pseudos = list(classes), id, list(attrs), list(pseudos)

    def is_empty(self):
        return not (self.backref or self.elem or self.placeholders or self.classes or self.id
                    or self.attrs or self.pseudos)

    def text(self):
        return (("&" if self.backref else "") + (self.elem or "") + "".join("%" + p for p in self.placeholders)
                + "".join("." + c for c in self.classes) + ("#" + self.id if self.id else "")
                + "".join(a.text() for a in self.attrs) + "".join(p.text() for p in self.pseudos))

    def term(self):
        items = []
        if self.backref:
            items.append("&")
        if self.elem:
            items.append("e " + hx(self.elem))
        items += ["% " + hx(p) for p in self.placeholders]
        items += [". " + hx(c) for c in self.classes]
        if self.id:
            items.append("# " + hx(self.id))
        items += [a.term() for a in self.attrs]
        items += [p.term() for p in self.pseudos]
        return "{ " + "".join(i + " " for i in items) + "}"

    def has_pseudo_element(self):
        return any(p.is_element() for p in self.pseudos)


REL_TEXT = {"d": " ", ">": " > ", "~": " ~ ", "+": " + "}


class Sel:
    """comps[0] is the leftmost compound; rels[i] joins comps[i] and comps[i+1]"""

    def __init__(self, comps, rels=()):
        self.comps, self.rels = list(comps), list(rels)
        assert len(self.rels) == len(self.comps) - 1

    def text(self):
        s = self.comps[0].text()
        for k, (r, c) in enumerate(zip(self.rels, self.comps[1:])):
            if k == 0 and self.comps[0].is_empty():
                # relative selector `> a`: rsass's AST is rel_of = (kind, empty selector)
                s = REL_TEXT[r].lstrip() + c.text()
            else:
                s += REL_TEXT[r] + c.text()
        return s

    def is_relative(self):
        return len(self.comps) > 1 and self.comps[0].is_empty()

    def term(self):
        s = "( " + self.comps[0].term()
        for r, c in zip(self.rels, self.comps[1:]):
            s += " " + r + " " + c.term()
        return s + " )"

    def copy(self):
        return copy.deepcopy(self)


def set_text(sels):
    return ", ".join(s.text() for s in sels)


def set_term(sels):
    return "[ " + "".join(s.term() + " " for s in sels) + "]"


def scss_str(text):
    """an SCSS string literal whose value is `text` (no escapes are needed for what the
    generators emit: at most one quote kind per selector list, no `#{`)."""
    if '"' not in text:
        return '"' + text + '"'
    assert "'" not in text, text
    return "'" + text + "'"


# ---------------------------------------------------------------------------------------------
# random generation (every choice from `rng`)

ELEMS = ["a", "b", "div", "a", "b", "*", "ns|a", "*|a", "*|*", "|a", "ns|*"]
CLASSES = ["c", "d", "e", "f"]
IDS = ["i", "j"]
PLACEHOLDERS = ["p", "q"]
PLAIN_PSEUDO = ["hover", "focus", "first-child", "root", "host"]
ELEM_PSEUDO = [("before", True), ("after", True), ("before", False), ("first-line", False), ("marker", True)]
SEL_PSEUDO = ["not", "is", "where", "matches", "has", "has", "has", "any", "-moz-any", "-webkit-not", "host", "host-context",
              "current", "slotted", "nth-child", "foo"]
OTHER_ARGS = ["a=b", "$x", "a/b", "1/2"]


def gen_attr(rng, quote_kind):
    k = rng.random()
    name = rng.choice(["x", "y", "ns|x"])
    if k < 0.3:
        return Attr(name)
    op = rng.choice(["=", "=", "^=", "$=", "*=", "~=", "|="])
    val = rng.choice(["v", "w", "v"])
    quotes = rng.choice(["n", quote_kind])
    mod = rng.choice([None, None, None, "i", "s"])
    return Attr(name, op, val, quotes, mod)


def gen_pseudo(rng, depth, quote_kind, allow_element=True):
    k = rng.random()
    if k < 0.35:
        return Pseudo(rng.choice(PLAIN_PSEUDO))
    if k < 0.5 and allow_element:
        n, e = rng.choice(ELEM_PSEUDO)
        return Pseudo(n, None, e)
    if k < 0.6:
        return Pseudo(rng.choice(["nth-child", "lang", "foo"]), ("o", rng.choice(OTHER_ARGS)))
    if depth <= 0:
        return Pseudo(rng.choice(PLAIN_PSEUDO))
    name = rng.choice(SEL_PSEUDO)
    if name == "slotted" and not allow_element:
        name = "is"
    if name == "nth-child":
        # `:nth-child(2n+1)` is read by rsass as the selector `2n + 1`
        a = rng.choice(["2n", "n", "-n"])
        comps, rels = [Comp(elem=a), Comp(elem=rng.choice(["1", "2"]))], ["+"]
        if rng.random() < 0.3:
            # `2n+1 of .c` is read as the complex selector `2n + 1 of .c`
            comps += [Comp(elem="of"), Comp(classes=[rng.choice(CLASSES)])]
            rels += ["d", "d"]
        return Pseudo(name, ("s", [Sel(comps, rels)]))
    element = name == "slotted"
    n = rng.choice([1, 1, 2, 3])
    # `:current` compares its argument with `==` (CssString equality is not modelled for it)
    args = [gen_sel(rng, depth - 1, quote_kind, max_len=2, attrs=(name != "current"),
                    lead=(0.45 if name == "has" else 0.2)) for _ in range(n)]
    return Pseudo(name, ("s", args), element)


def gen_comp(rng, depth, quote_kind, attrs=True):
    c = Comp()
    k = rng.random()
    if k < 0.55:
        c.elem = rng.choice(ELEMS)
    for _ in range(rng.choice([0, 0, 1, 1, 2])):
        x = rng.choice(CLASSES)
        c.classes.append(x)
    if rng.random() < 0.15:
        c.id = rng.choice(IDS)
    if rng.random() < 0.08:
        c.placeholders.append(rng.choice(PLACEHOLDERS))
    if attrs and rng.random() < 0.2:
        c.attrs.append(gen_attr(rng, quote_kind))
        if rng.random() < 0.2:
            c.attrs.append(gen_attr(rng, quote_kind))
    r = rng.random()
    if r < 0.3:
        c.pseudos.append(gen_pseudo(rng, depth, quote_kind))
        if rng.random() < 0.3:
            c.pseudos.append(gen_pseudo(rng, depth, quote_kind))
    if c.is_empty():
        c.classes.append(rng.choice(CLASSES))
    return c


def gen_sel(rng, depth=2, quote_kind="d", max_len=4, attrs=True, lead=0.0):
    n = rng.choice([1, 1, 1, 2, 2, 3, 4][: 3 + max_len])
    n = min(n, max_len)
    comps = [gen_comp(rng, depth, quote_kind, attrs) for _ in range(n)]
    rels = [rng.choice(["d", "d", "d", ">", ">", "~", "+"]) for _ in range(n - 1)]
    if rng.random() < lead:
        # relative selector (`> a`, `+ a b`): a leading combinator hangs on an empty compound
        comps.insert(0, Comp())
        rels.insert(0, rng.choice([">", "+", "~"]))
    return Sel(comps, rels)


def gen_set(rng, depth=2, max_n=3, quote_kind=None, lead=0.04):
    quote_kind = quote_kind or rng.choice(["d", "s"])
    n = rng.choice([1, 1, 2, 3][: 1 + max_n])
    return [gen_sel(rng, depth, quote_kind, lead=lead) for _ in range(n)]


# --- derivations that keep `orig ⊒ derived` according to property C23 -------------------------

def add_simple(rng, sel, quote_kind="d"):
    """add one simple selector (type when none, class, id when none, attribute, pseudo-class —
    not a pseudo-element) to one compound of a copy of `sel`"""
    s = sel.copy()
    c = rng.choice(s.comps)
    k = rng.random()
    if k < 0.2 and c.elem is None:
        c.elem = rng.choice(["a", "b", "div", "ns|a"])
    elif k < 0.55:
        c.classes.append(rng.choice(CLASSES + ["g", "h"]))
    elif k < 0.65 and c.id is None:
        c.id = rng.choice(IDS)
    elif k < 0.8:
        c.attrs.append(gen_attr(rng, quote_kind))
    else:
        c.pseudos.append(gen_pseudo(rng, 1, quote_kind, allow_element=False))
    return s


def add_ancestor(rng, sel, quote_kind="d"):
    """prefix an ancestor (`p sel`) or a parent (`p > sel`); or, at a descendant combinator,
    put a further ancestor in between (`s c` -> `s x c` / `s > x c`)"""
    if sel.is_relative():
        # nothing can stand in front of a leading combinator
        return add_simple(rng, sel, quote_kind)
    s = sel.copy()
    p = gen_comp(rng, 1, quote_kind)
    mids = [i for i, r in enumerate(s.rels) if r == "d"]
    if mids and rng.random() < 0.5:
        i = rng.choice(mids)            # link between comps[i] and comps[i+1]
        s.comps.insert(i + 1, p)
        s.rels[i] = rng.choice(["d", ">"])
        s.rels.insert(i + 1, "d")
        return s
    s.comps.insert(0, p)
    s.rels.insert(0, rng.choice(["d", ">"]))
    return s


def specialise(rng, sels, quote_kind="d"):
    """a selector list that the property says `sels` is a superselector of: a non-empty
    sub-multiset of its members, each possibly with simple selectors / ancestors added"""
    out = []
    for s in sels:
        if rng.random() < 0.75 or not out:
            t = s
            for _ in range(rng.choice([0, 1, 1, 2])):
                t = add_simple(rng, t, quote_kind) if rng.random() < 0.6 else add_ancestor(rng, t, quote_kind)
            out.append(t.copy())
    rng.shuffle(out)
    return out
