"""C15 — Operators follow Sass precedence and associativity."""
import itertools
import re
from tools.vlib import Case, Verdict, hx, unhx

ID = "C15"
DRIVER = "drv_C15"
THEOREM_MODS = ["RsassModel.Theorems.C15"]
LEVEL = "proof"
EXHAUSTIVE = {"quick": True, "thorough": True}
RULE = ("expression trees over the 12 binary operators (or and == != < <= > >= + - * %), unary -/not and the "
        "operands {2,3,7,true,false}, printed with minimal parentheses and a space around every binary operator; "
        "quick: ALL trees with <=2 binary operators (36 305) + all unary decorations of the 1-operator trees + "
        "sampled trees with 3..6 operators; thorough: ALL trees with <=3 binary operators over {2,7,true,false} "
        "(2.2 M) + 50 000 sampled trees with <=4 operators + larger random trees; the expected value is computed "
        "on the TREE by a Python evaluator (no parser involved); non-trivial = >=2 binary operators and the tree's "
        "value is a number or boolean (not an error, not outside the modelled value fragment)")
TRUSTED = ["the rendering of a token list as text (space around binary operators, unary minus glued) and the "
           "driver's lexer inverting it",
           "python reference evaluator for numbers/booleans (tree semantics)"]
ASSUMPTIONS = ["trees whose value is a string (made by +/- on a non-number) are not judged by the oracle; cases on which the "
               "as-is model has no opinion (string == string, NaN from % 0, -true reached under the code's own parse) are "
               "skipped entirely",
               "Sass raises `Undefined operation` for relational and multiplicative operators on non-numbers; the oracle "
               "demands an error for trees whose evaluation reaches such an operation",
               "white-space sensitive forms (`a -b`, `a/b`, `5%`) are outside the token model"]

OPS = ["or", "and", "==", "!=", "<", "<=", ">", ">=", "+", "-", "*", "%"]
LVL = {"or": 0, "and": 1, "==": 2, "!=": 2, "<": 3, "<=": 3, ">": 3, ">=": 3, "+": 4, "-": 4, "*": 5, "%": 5}
LEAVES5 = [("n", 2), ("n", 3), ("n", 7), ("b", True), ("b", False)]
LEAVES4 = [("n", 2), ("n", 7), ("b", True), ("b", False)]

# ---- trees: ("n", k) | ("b", bool) | ("neg", e) | ("not", e) | (op, a, b) ----


def prec(e):
    return LVL[e[0]] if len(e) == 3 else 6


def render(e):
    """minimal parentheses for the Sass table, all levels left-associative"""
    k = e[0]
    if k == "n":
        return str(e[1])
    if k == "b":
        return "true" if e[1] else "false"
    if k in ("neg", "not"):
        s = render(e[1])
        if prec(e[1]) < 6:
            s = "(" + s + ")"
        return ("-" if k == "neg" else "not ") + s
    a, b = render(e[1]), render(e[2])
    if prec(e[1]) < LVL[k]:
        a = "(" + a + ")"
    if prec(e[2]) < LVL[k] + 1:
        b = "(" + b + ")"
    return a + " " + k + " " + b


ERR, UNK, OPQ = "err", "unk", "opq"


def truthy(v):
    return v is not False


def isnum(v):
    return isinstance(v, int) and not isinstance(v, bool)


def ev(e):
    """reference evaluator on the tree (Sass semantics): int | bool | OPQ (a string: truthy, different
    from every number/boolean) | ERR (Sass raises) | UNK (no opinion: string == string, NaN, -true)"""
    k = e[0]
    if k in ("n", "b"):
        return e[1]
    if k == "neg":
        v = ev(e[1])
        if v in (ERR, UNK, OPQ):
            return v
        return UNK if isinstance(v, bool) else -v
    if k == "not":
        v = ev(e[1])
        if v in (ERR, UNK):
            return v
        return not truthy(v)
    if k == "and":
        a = ev(e[1])
        if a in (ERR, UNK):
            return a
        return ev(e[2]) if truthy(a) else a
    if k == "or":
        a = ev(e[1])
        if a in (ERR, UNK):
            return a
        return a if truthy(a) else ev(e[2])
    a, b = ev(e[1]), ev(e[2])
    if a == ERR or b == ERR:
        return ERR
    if a == UNK or b == UNK:
        return UNK
    if k in ("==", "!="):
        if a == OPQ and b == OPQ:
            return UNK
        same = (type(a) is type(b)) and a == b and a != OPQ
        return same if k == "==" else not same
    if not (isnum(a) and isnum(b)):
        return OPQ if k in ("+", "-") else ERR
    if k == "<":
        return a < b
    if k == "<=":
        return a <= b
    if k == ">":
        return a > b
    if k == ">=":
        return a >= b
    if k == "+":
        return a + b
    if k == "-":
        return a - b
    if k == "*":
        return a * b
    if b == 0:
        return UNK
    return a % b  # python: floored, sign of the divisor — as Sass


def vtext(v):
    if v in (ERR, UNK, OPQ):
        return v
    if isinstance(v, bool):
        return "ok:" + ("true" if v else "false")
    return "ok:" + str(v)


def nops(e):
    if len(e) == 3:
        return 1 + nops(e[1]) + nops(e[2])
    if e[0] in ("neg", "not"):
        return nops(e[1])
    return 0


def mk(e, stratum):
    return Case("expr\te\t10\t" + hx(render(e)), stratum, {"want": vtext(ev(e)), "ops": nops(e)})


def trees(n, leaves):
    """all binary trees with exactly n operators"""
    if n == 0:
        yield from leaves
        return
    for k in range(n):
        ls = list(trees(k, leaves))
        rs = list(trees(n - 1 - k, leaves))
        for op in OPS:
            for a in ls:
                for b in rs:
                    yield (op, a, b)


def decorate(e):
    """all ways to put -/not on a node (never `-` directly on a unary or a boolean: `--2`, `-not`,
    `-true` are identifiers/strings lexically)"""
    yield e
    yield ("not", e)
    if e[0] == "n" or len(e) == 3:
        yield ("neg", e)


def rand_tree(rng, n, leaves, punary):
    if n == 0:
        e = rng.choice(leaves)
    else:
        k = rng.randrange(n)
        # operator strata: favour neighbouring levels so that precedence decides the value
        op = rng.choice(OPS)
        e = (op, rand_tree(rng, k, leaves, punary), rand_tree(rng, n - 1 - k, leaves, punary))
    if rng.random() < punary:
        c = list(decorate(e))
        e = rng.choice(c[1:])
    return e


def typed_tree(rng, n, want_bool):
    """well-typed tree (arithmetic on numbers, logic on booleans): no error, no `unk`"""
    if n == 0:
        return ("b", rng.random() < 0.5) if want_bool else ("n", rng.choice([2, 3, 7]))
    k = rng.randrange(n)
    if want_bool:
        kind = rng.choice(["logic", "logic", "eq", "rel"])
        if kind == "logic":
            return (rng.choice(["and", "or"]), typed_tree(rng, k, True), typed_tree(rng, n - 1 - k, True))
        if kind == "eq":
            t = rng.random() < 0.5
            return (rng.choice(["==", "!="]), typed_tree(rng, k, t), typed_tree(rng, n - 1 - k, t))
        return (rng.choice(["<", "<=", ">", ">="]), typed_tree(rng, k, False), typed_tree(rng, n - 1 - k, False))
    return (rng.choice(["+", "-", "*", "%", "-", "*"]), typed_tree(rng, k, False), typed_tree(rng, n - 1 - k, False))


def gen(tier, rng, boost=1):
    # exhaustive strata
    for n in (0, 1, 2):
        for e in trees(n, LEAVES5):
            yield mk(e, f"all-{n}op")
    for e in trees(1, LEAVES4):
        for a in decorate(e[1]):
            for b in decorate(e[2]):
                for r in decorate((e[0], a, b)):
                    if r != e:
                        yield mk(r, "unary-1op")
    if tier == "thorough":
        for e in trees(3, LEAVES4):
            yield mk(e, "all-3op")
    # sampled strata
    if tier == "quick":
        plan = [("typed", 3, 6, 2500), ("rand", 3, 6, 2500), ("rand-unary", 2, 5, 1500)]
    else:
        plan = [("rand", 4, 4, 50000), ("typed", 3, 8, 30000), ("rand", 5, 8, 10000), ("rand-unary", 2, 6, 20000)]
    for kind, lo, hi, count in plan:
        for _ in range(count * boost):
            n = rng.randint(lo, hi)
            if kind == "typed":
                e = typed_tree(rng, n, rng.random() < 0.6)
            elif kind == "rand":
                e = rand_tree(rng, n, LEAVES5, 0.0)
            else:
                e = rand_tree(rng, n, LEAVES5, 0.2)
            yield mk(e, f"{kind}-{lo}..{hi}op")


VALUE = re.compile(r"ok:(-?\d+|true|false)")
OTHER = "other"   # printed text that is neither an integer nor a boolean


def canon(impl):
    """implementation result -> `ok:<int|true|false>` | err | other"""
    if impl.startswith(("panic:", "abort:")):
        return impl
    if impl.startswith("ok:"):
        t = "ok:" + unhx(impl[3:])
        return t if VALUE.fullmatch(t) else OTHER
    return ERR


def canon_model(m):
    """model result -> `ok:<int|true|false>` | err | opq | unk"""
    if m is None:
        return None
    return "ok:" + unhx(m[3:]) if m.startswith("ok:") else m


def agrees(got, m):
    """does the implementation's canonical result match a model/reference result?  None = no opinion"""
    if m in (None, UNK):
        return None
    if m == OPQ:            # an opaque value is printed as some text, or rejected when written
        return got in (ERR, OTHER)
    return got == m


def judge(case, impl, asis, spec):
    got = canon(impl)
    a, s = canon_model(asis), canon_model(spec)
    if got.startswith(("panic:", "abort:")):
        return Verdict(False, "crash: " + got[:60])
    want = case.note.get("want")
    if want is None:
        want = s          # witness / replay lines: the Lean spec pipeline is the reference
    elif s is not None and s != want:
        raise RuntimeError(f"checker inconsistency: python tree value {want!r} != lean parseSass/eval {s!r} "
                           f"on {unhx(case.lines[0].split(chr(9))[3])!r}")
    if a == UNK:
        # the as-is model has no opinion (string == string, NaN, -true reached under rsass's own parse):
        # the case is outside the modelled fragment and is not judged at all
        return Verdict(True, None)
    corr_ok = agrees(got, a) is not False
    # property: a tree that denotes a number/boolean must print exactly it; a tree on which Sass raises
    # "Undefined operation" must be an error; string-valued trees are not judged
    fails = None
    if want not in (None, UNK, OPQ) and got != want:
        fails = f"result {got!r} differs from the value of the tree under the Sass grammar {want!r}"
    return Verdict(corr_ok, fails)


def explained(case, r, live):
    """a failure is explained only when the as-is model (live flags) differs from the specification,
    has an opinion and reproduces the implementation"""
    a, s = canon_model(r["asis"][0]), canon_model(r["spec"][0])
    return bool(live and a != s and agrees(canon(r["impl"][0]), a) is True)


def nontrivial(case, impl, spec):
    w = case.note.get("want")
    return bool(w and w.startswith("ok:") and case.note.get("ops", 0) >= 2)


def extra_coverage(ctx, res):
    ops = {}
    kinds = {"value": 0, "err": 0, "unk(skipped)": 0}
    for r in res:
        n = r["case"].note.get("ops")
        if n is not None:
            ops[str(n)] = ops.get(str(n), 0) + 1
        w = r["case"].note.get("want") or ""
        kinds["value" if w.startswith("ok:") else ("err" if w == ERR else "unk(skipped)")] += 1
    skipped = sum(1 for r in res if canon_model(r["asis"][0]) == UNK)
    return {"binary_operators_per_tree": ops, "tree_value_kinds": kinds,
            "skipped_as_is_model_has_no_opinion": skipped}


LEVEL_TEXT = ("Proof (Lean 4): token-level model of rsass's layered nom expression parsers and of the Sass grammar "
              "(six-level precedence climbing); theorem parseSass (printMin e) = some e for ALL trees by induction, "
              "the repaired layered parser agrees, refutations for the two deviations of the code; tied to the code by "
              "value correspondence on all trees with <=2 (quick) / <=3 (thorough) binary operators plus samples, the "
              "expected value being computed on the tree itself.")
LEVEL_NOTE = ("Trusted: Lean kernel; rendering/lexing of tokens; the evaluator fragment (integers, booleans); white-space "
              "sensitive lexical forms are outside the model.")
TECHNIQUE = "Lean 4 theorems over a token-level parser model + differential value correspondence on enumerated trees"
