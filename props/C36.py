"""C36 — Comments are preserved as Sass specifies."""
import re
from tools.vlib import Case, Verdict, unhx
from props import _dest as D

ID = "C36"
DRIVER = "drv_C36"
THEOREM_MODS = ["RsassModel.Theorems.C36"]
LEVEL = "proof"
# flags of the sibling properties' findings (same model); each is on only while the implementation
# still shows it on its probe program.  C36's own repaired deviations (compressedDropsBang,
# commentInterpExpandedOnly, fixed by dcd9ee6) are deliberately NOT here: a regression must be reported.
ALWAYS_QUIRKS = D.LiveFlags(DRIVER, ["closeSwallows", "mediaInMediaNested", "atRootKeepsRule",
                                     "vendorKeyframesPrefixed"])
RULE = ("programs with uniquely numbered loud (`/* */`), preserved (`/*!`) and silent (`//`) comments in every statement "
        "position: top level, style rules, nested-property blocks, @media/@supports/unknown at-rules, @at-root, "
        "keyframes, @if/@each bodies, mixin bodies, @content blocks, function bodies, imported and used files; "
        "stratum `modules`: root -> @use -> (@use | @forward [as p-* | show | hide]) chains, @import and "
        "meta.load-css files, with comments of all kinds in every file and inside the mixin/function the root "
        "includes from the innermost module; pragma-like texts (`# sourceMappingURL=`, `sourceURL=` in other "
        "positions, via #{}); with "
        "interpolation (literal, function call, undefined variable), multi-line bodies and `/*#` comments; both output "
        "styles. non-trivial = at least one loud comment is reached and the implementation produced CSS")
TRUSTED = ["props/_dest.py: program rendering, CSS tree builder, reference evaluation (which comments are reached, "
           "evaluated text)", "comment text is compared after removing indentation that follows a line break "
           "(re-indentation by Comment::write is not part of the statement)"]
ASSUMPTIONS = ["a comment is `preserved` when its source text starts with `/*!`",
               "comments inside function bodies are never part of the output (Sass semantics)"]

STRATA = [
    ("positions", dict(comment=0.5, silent=0.3, ns=0.4, control=0.4, mixin=0.5, func=0.3, load=0.4, interp=0.3,
                       media_in_media=0.0, atroot=0.3, keyframes=0.2)),
    ("in-at-rules", dict(comment=0.6, silent=0.2, ns=0.2, media_in_media=0.0, atroot=0.2, interp=0.2)),
    ("interp", dict(comment=0.5, interp=0.9, undef=0.15, func=0.6, silent=0.1, media_in_media=0.0)),
    ("multiline-hash", dict(comment=0.5, multiline=0.5, hash=0.25, silent=0.2, media_in_media=0.0, bang=0.2)),
    ("pragma-texts", dict(comment=0.5, pragma=0.6, interp=0.2, silent=0.1, ns=0.3, control=0.3, mixin=0.4, load=0.4,
                          media_in_media=0.0)),
]
MODULE_W = dict(comment=0.5, interp=0.3, pragma=0.25, bang=0.35, hash=0.05)


def d(k):
    return ('D', "p%d" % k, ('l', "v%d" % k))


def c(k, bang=False, extra=None):
    parts = [('t', ("!" if bang else "") + " c%d " % k)]
    if extra:
        parts += extra
    return ('C', bang, parts)


def fixed():
    progs = [
        [c(1), ('R', 'a', [c(2), d(3), c(4, True), ('S', " s5")]), c(6, True), ('S', " s7")],
        [('R', 'a', [('M', 'x', [('R', 'b', [c(1), d(2)]), c(3)])])],
        [('R', 'a', [('A', 'foo', 't', [c(1), ('R', 'b', [d(2)]), c(3), d(4)])])],
        [('R', 'a', [('C', False, [('t', "# c1 ")]), d(2)])],
        [('R', 'a', [('C', True, [('t', "! c1 ")]), d(2)])],
        [('R', 'a', [c(1, False, [('i', ('u',))]), d(2)])],
        [('R', 'a', [c(1, False, [('i', ('l', 'i2')), ('t', " e ")]), d(3)])],
        [('F', 1, [c(1), ('T', ('l', 'r2'))]), ('R', 'a', [('D', 'p3', ('c', 1)), c(4, False, [('i', ('c', 1))])])],
        [('R', 'a', [('N', 'font', None, [c(1), d(2), ('S', " s3")]), c(4)])],
        [('X', 1, [c(1), ('R', 'm', [c(2), ('K',)])]), ('R', 'a', [('Y', 1, [c(3), d(4)])])],
        [('M', 'q', [c(1), ('R', 'a', [d(2)]), c(3, True)])],
        [('R', 'a', [('C', False, [('t', " c1\n      * l2\n   ")]), d(3), ('R', 'b', [('C', False, [('t', " c4\n * l5\n ")]), d(6)])])],
    ]
    # pragma-like comment texts: only the exact prefixes `# sourceMappingURL=` / `# sourceURL=` may be left out
    texts = ["# sourceMappingURL=x", "# sourceURL=y", " sourceMappingURL=x ", "see sourceURL=y", "#sourceMappingURL",
             "#sourceMappingURL=x", "! sourceMappingURL=x", "@ sourceMappingURL=x", " c # sourceURL=z "]
    for t in texts:
        bang = t.startswith("!")
        cut = t.find("source")
        progs.append([('C', bang, [('t', t)]), ('R', 'a', [('C', bang, [('t', t)]), d(1)])])
        progs.append([('R', 'a', [('C', bang, [('t', t[:cut]), ('i', ('q', t[cut:].rstrip())), ('t', " ")]), d(1)])])
    for p in progs:
        for st in "ec":
            yield Case(D.case_line(p, st), "fixed")


def gen(tier, rng, boost=1):
    yield from fixed()
    n = (230 if tier == "quick" else 6000) * boost
    for _ in range(n):
        g = D.Gen(rng, **MODULE_W)
        yield Case(D.case_line(g.module_program(), rng.choice("ec")), "modules")
    for name, w in STRATA:
        for _ in range(n):
            g = D.Gen(rng, **w)
            yield Case(D.case_line(g.program(), rng.choice("eecc")), name)


def silent_markers(line):
    src, files = D.source_of(line)
    out = []
    for t in [src] + list(files.values()):
        out += re.findall(r"//( s\d+)", t)
    return out


def oracle(case, prog, compressed, it, impl):
    if it[0] == 'crash':
        return "crash: " + it[1]
    ref = D.reference(prog, compressed)
    if ref[0] == 'err':
        return None if it[0] == 'err' else "compiled although evaluating a comment's interpolation fails: " + ref[1]
    if it[0] == 'err':
        return None
    css = unhx(impl[3:])
    for m in silent_markers(case.lines[0]):
        if re.search(re.escape(m) + r"(?!\d)", css):
            return "silent comment `//" + m + "` appears in the output"
    want = [e[3] for e in ref[1].entries if e[0] == 'C']
    got = [e[3] for e in D.flatten(it[1]) if e[0] == 'C']
    if want == got:
        return None
    if sorted(want) == sorted(got):
        return "comments emitted in a different order: " + repr(got[:4]) + " expected " + repr(want[:4])
    missing = [w for w in want if w not in got]
    extra = [g for g in got if g not in want]
    style = "compressed" if compressed else "expanded"
    if missing:
        return f"{style}: comment /*{missing[0]}*/ is missing from the output"
    return f"{style}: comment /*{extra[0]}*/ must not be in the output"


def judge(case, impl, asis, spec):
    prog, compressed = D.prog_of(case.lines[0])
    it = D.impl_tree(impl)
    corr = asis is None or it == D.model_tree(asis)
    return Verdict(corr, oracle(case, prog, compressed, it, impl))


def nontrivial(case, impl, spec):
    prog, compressed = D.prog_of(case.lines[0])
    ref = D.reference(prog, False)
    return impl.startswith("ok:") and ref[0] == 'ok' and any(e[0] == 'C' for e in ref[1].entries)


def shrink(case, still_fails):
    return D.shrink_case(case, still_fails)


LEVEL_TEXT = ("Proof (Lean 4) over the model of `Item::Comment` (transform.rs), the frame-stack model of cssdest.rs "
              "(push_comment of every destination) and the `//` lexer rule: which comments are kept per style, that "
              "their interpolation is evaluated, that silent comments never become items, and where a kept comment "
              "lands; tied to the code by agreement of canonical output trees, plus an order oracle on the "
              "implementation's own CSS.")
LEVEL_NOTE = ("Trusted: Lean kernel; props/_dest.py. Two defects were repaired by dcd9ee6 (compressed style dropped "
              "`/*!` comments; interpolation evaluated in expanded style only) — their flags stay in the model with "
              "refutation theorems, witnesses run from corpus/C36. Open findings: comments collected by an at-rule "
              "frame are emitted before earlier nested rules (order), `/*#…*/` comments print nothing.")
TECHNIQUE = "Lean 4 theorems over evaluator + frame-stack models, differential correspondence on canonical output trees"
