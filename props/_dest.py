"""Shared machinery of C20, C21 and C36 (destination / bubbling / comments).

A program is a Python tree (lists of tuples, see the constructors below).  From one tree we
derive (1) the SCSS text the real compiler gets, (2) the prefix-notation term the Lean driver
gets (lean/RsassModel/Dest/Handle.lean), (3) the property oracles, evaluated on the CSS the
implementation printed by a small CSS tokenizer/tree builder — independent of the Lean model.

Statement constructors (tuples):
  ('D', name, val)            declaration            val = ('l', text) | ('c', f) | ('u',)
  ('C', bang, parts)          loud comment           part = ('t', text) | ('i', val)
  ('S', text)                 silent `//` comment
  ('R', sel, body)            style rule
  ('N', name, val|None, body) nested-property block
  ('M', args, body)           @media
  ('A', name, args, body)     at-rule with body      ('a', name, args)  body-less at-rule
  ('O', sel|None, body)       @at-root
  ('E',)                      @error
  ('I', cond, then, else)     @if
  ('L', n, body)              @each with n items
  ('X', m, body)              @mixin m<m>            ('Y', m, block|None)  @include    ('K',) @content
  ('F', f, body)              @function f<f>()       ('T', val) @return
  ('P', k, body)              @import "imp<k>"       ('U', id, body) @use "mod<id>"
"""
import re
from tools.vlib import hx, unhx

# ----------------------------------------------------------------------------- rendering


def val_scss(v):
    if v[0] == 'l':
        return v[1]
    if v[0] == 'q':
        return '"' + v[1] + '"'
    if v[0] == 'cm':      # function f<n> of module <m> reached as <prefix>
        return f"{v[2]}f{v[1]}()"
    if v[0] == 'c':
        return f"f{v[1]}()"
    return "$undefined-variable"


def val_term(v):
    if v[0] in 'lq':
        return ["l", "h" + hx(v[1])]
    if v[0] == 'cm':
        return ["c", str(v[1])]
    if v[0] == 'c':
        return ["c", str(v[1])]
    return ["u"]


class Render:
    """SCSS text of a program; collects the files of @import/@use."""

    def __init__(self):
        self.files = {}
        self.mixin_home = {}   # mixin number -> module id it was defined in (None = plain)

    def body(self, stmts, ind, module=None):
        return "".join(self.stmt(s, ind, module) for s in stmts)

    def block(self, head, stmts, ind, module):
        pad = "  " * ind
        return f"{pad}{head} {{\n{self.body(stmts, ind + 1, module)}{pad}}}\n"

    def stmt(self, s, ind, module):
        pad = "  " * ind
        k = s[0]
        if k == 'D':
            return f"{pad}{s[1]}: {val_scss(s[2])};\n"
        if k == 'C':
            txt = "".join(p[1] if p[0] == 't' else "#{" + val_scss(p[1]) + "}" for p in s[2])
            return f"{pad}/*{txt}*/\n"
        if k == 'S':
            return f"{pad}//{s[1]}\n"
        if k == 'R':
            return self.block(s[1], s[2], ind, module)
        if k == 'N':
            head = f"{s[1]}:" + ("" if s[2] is None else " " + val_scss(s[2]))
            return self.block(head, s[3], ind, module)
        if k == 'M':
            return self.block("@media " + s[1], s[2], ind, module)
        if k == 'A':
            return self.block(f"@{s[1]} {s[2]}".rstrip(), s[3], ind, module)
        if k == 'a':
            return f"{pad}@{s[1]} {s[2]};\n"
        if k == 'O':
            return self.block("@at-root" + ("" if s[1] is None else " " + s[1]), s[2], ind, module)
        if k == 'E':
            return f'{pad}@error "boom";\n'
        if k == 'I':
            out = self.block("@if " + ("1 == 1" if s[1] else "1 == 2"), s[2], ind, module)
            if s[3]:
                out = out.rstrip("\n") + " " + self.block("@else", s[3], ind, module).lstrip()
            return out
        if k == 'L':
            items = ", ".join("i%d" % i for i in range(s[1])) if s[1] else "()"
            return self.block(f"@each $i in {items}", s[2], ind, module)
        if k == 'X':
            self.mixin_home[s[1]] = module
            return self.block(f"@mixin m{s[1]}", s[2], ind, module)
        if k == 'Y':
            home = self.mixin_home.get(s[1])
            if len(s) > 3:                      # explicit qualified prefix, e.g. "mod1.p-"
                name = f"{s[3]}m{s[1]}"
            else:
                name = f"m{s[1]}" if home is None or home == module else f"mod{home}.m{s[1]}"
            if s[2] is None:
                return f"{pad}@include {name};\n"
            return self.block(f"@include {name}", s[2], ind, module)
        if k == 'K':
            return f"{pad}@content;\n"
        if k == 'F':
            return self.block(f"@function f{s[1]}()", s[2], ind, module)
        if k == 'T':
            return f"{pad}@return {val_scss(s[1])};\n"
        if k == 'P':
            self.files[f"imp{s[1]}.scss"] = self.body(s[2], 0, module)
            if len(s) > 3 and s[3] == 'load-css':
                return f'{pad}@include meta.load-css("imp{s[1]}");\n'
            return f'{pad}@import "imp{s[1]}";\n'
        if k == 'U':
            if f"mod{s[1]}.scss" not in self.files:
                self.files[f"mod{s[1]}.scss"] = self.body(s[2], 0, s[1])
            how = s[3] if len(s) > 3 else 'use'
            if how == 'sass-meta':
                return f'{pad}@use "sass:meta";\n'
            if how.startswith('forward'):
                return f'{pad}@forward "mod{s[1]}"{how[7:]};\n'
            return f'{pad}@use "mod{s[1]}";\n'
        raise ValueError(s)


def term(stmts):
    out = ["["]
    for s in stmts:
        k = s[0]
        if k == 'D':
            out += ["D", "h" + hx(s[1])] + val_term(s[2])
        elif k == 'C':
            out += ["C", "1" if s[1] else "0", "["]
            for p in s[2]:
                out += ["t", "h" + hx(p[1])] if p[0] == 't' else ["i"] + val_term(p[1])
            out += ["]"]
        elif k == 'S':
            out += ["S"]
        elif k == 'R':
            out += ["R", "h" + hx(s[1])] + term(s[2])
        elif k == 'N':
            out += ["N", "h" + hx(s[1])] + (["-"] if s[2] is None else val_term(s[2])) + term(s[3])
        elif k == 'M':
            out += ["M", "h" + hx(s[1])] + term(s[2])
        elif k == 'A':
            out += ["A", "h" + hx(s[1]), "h" + hx(s[2])] + term(s[3])
        elif k == 'a':
            out += ["a", "h" + hx(s[1]), "h" + hx(s[2])]
        elif k == 'O':
            out += ["O"] + (["-"] if s[1] is None else ["h" + hx(s[1])]) + term(s[2])
        elif k == 'E':
            out += ["E"]
        elif k == 'I':
            out += ["I", "1" if s[1] else "0"] + term(s[2]) + term(s[3])
        elif k == 'L':
            out += ["L", str(s[1])] + term(s[2])
        elif k == 'X':
            out += ["X", str(s[1])] + term(s[2])
        elif k == 'Y':
            out += ["Y", str(s[1]), "0" if s[2] is None else "1"] + term(s[2] or [])
        elif k == 'K':
            out += ["K"]
        elif k == 'F':
            out += ["F", str(s[1])] + term(s[2])
        elif k == 'T':
            out += ["T"] + val_term(s[1])
        elif k == 'P':
            out += ["P"] + term(s[2])
        elif k == 'U':
            if len(s) > 3 and s[3] == 'sass-meta':
                continue
            out += ["U", str(s[1])] + term(s[2])
        else:
            raise ValueError(s)
    return out + ["]"]


def unterm(toks):
    """inverse of term(): token list -> program (file numbers of @import are lost: 0)"""
    pos = 0

    def string():
        nonlocal pos
        t = toks[pos]
        pos += 1
        return unhx(t[1:])

    def val():
        nonlocal pos
        t = toks[pos]
        pos += 1
        if t == "l":
            return ('l', string())
        if t == "c":
            pos += 1
            return ('c', int(toks[pos - 1]))
        return ('u',)

    def block():
        nonlocal pos
        assert toks[pos] == "["
        pos += 1
        out = []
        while toks[pos] != "]":
            out.append(stmt())
        pos += 1
        return out

    def num():
        nonlocal pos
        pos += 1
        return int(toks[pos - 1])

    def stmt():
        nonlocal pos
        k = toks[pos]
        pos += 1
        if k == 'D':
            return ('D', string(), val())
        if k == 'C':
            bang = num() == 1
            pos += 1
            parts = []
            while toks[pos] != "]":
                t = toks[pos]
                pos += 1
                parts.append(('t', string()) if t == "t" else ('i', val()))
            pos += 1
            return ('C', bang, parts)
        if k == 'S':
            return ('S', " s")
        if k == 'R':
            return ('R', string(), block())
        if k == 'N':
            n = string()
            if toks[pos] == "-":
                pos += 1
                return ('N', n, None, block())
            return ('N', n, val(), block())
        if k == 'M':
            return ('M', string(), block())
        if k == 'A':
            return ('A', string(), string(), block())
        if k == 'a':
            return ('a', string(), string())
        if k == 'O':
            if toks[pos] == "-":
                pos += 1
                return ('O', None, block())
            return ('O', string(), block())
        if k == 'E':
            return ('E',)
        if k == 'I':
            return ('I', num() == 1, block(), block())
        if k == 'L':
            return ('L', num(), block())
        if k == 'X':
            return ('X', num(), block())
        if k == 'Y':
            m = num()
            has = num() == 1
            b = block()
            return ('Y', m, b if has else None)
        if k == 'K':
            return ('K',)
        if k == 'F':
            return ('F', num(), block())
        if k == 'T':
            return ('T', val())
        if k == 'P':
            return ('P', 0, block())
        if k == 'U':
            return ('U', num(), block())
        raise ValueError(k)
    return block()


def prog_of(line):
    f = line.split("\t")
    return unterm(f[8].split(" ")), f[2] in ("c", "compressed")


def case_line(prog, style):
    """protocol line for the generic `compile` op + the model term as 8th argument"""
    r = Render()
    src = r.body(prog, 0)
    files = ",".join(f"{n}:{hx(t)}" for n, t in sorted(r.files.items()))
    return "\t".join(["compile", "scss", style, "10", "in.scss", hx(src), files, "", " ".join(term(prog))])


def source_of(line):
    f = line.split("\t")
    files = {p.split(":")[0]: unhx(p.split(":")[1]) for p in f[6].split(",") if p}
    return unhx(f[5]), files


# ----------------------------------------------------------------------------- CSS tree

def norm_ws(s):
    return re.sub(r"\s+", " ", s.strip())


def norm_sel(s):
    return ", ".join(re.sub(r"\s*([>+~])\s*", r"\1", norm_ws(p)) for p in s.split(","))


def norm_args(s):
    return re.sub(r"\s+", "", s)


def norm_comment(s):
    # line breaks/indentation inside a comment are re-flowed by Comment::write (and removed in
    # compressed style); the statement is about presence, order and evaluated text
    return re.sub(r"\s+", " ", s).strip()


class CssError(Exception):
    pass


def parse_css(text):
    """CSS text -> tree: list of nodes
    ('C', text) | ('D', name, value) | ('R', sel, children) | ('M', args, children) |
    ('A', name, args, children) | ('a', name, args)"""
    pos = 0
    n = len(text)

    def block(top):
        nonlocal pos
        out = []
        while True:
            while pos < n and text[pos] in " \t\r\n;":
                pos += 1
            if pos >= n:
                if not top:
                    raise CssError("unterminated block")
                return out
            if text[pos] == "}":
                if top:
                    raise CssError("stray }")
                pos += 1
                return out
            if text.startswith("/*", pos):
                e = text.find("*/", pos + 2)
                if e < 0:
                    raise CssError("unterminated comment")
                out.append(('C', norm_comment(text[pos + 2:e])))
                pos = e + 2
                continue
            # read a prelude up to { ; or }
            st = pos
            while pos < n and text[pos] not in "{;}":
                if text[pos] in "\"'":
                    qch = text[pos]
                    pos += 1
                    while pos < n and text[pos] != qch:
                        pos += 2 if text[pos] == "\\" else 1
                pos += 1
            pre = text[st:pos].strip()
            if pos < n and text[pos] == "{":
                pos += 1
                kids = block(False)
                if pre.startswith("@"):
                    m = re.match(r"@([^\s{(]+)\s*(.*)$", pre, re.S)
                    name, args = m.group(1), m.group(2)
                    if name == "media":
                        out.append(('M', norm_args(args), kids))
                    else:
                        out.append(('A', name, norm_args(args), kids))
                else:
                    out.append(('R', norm_sel(pre), kids))
            else:
                if pre.startswith("@"):
                    m = re.match(r"@([^\s{(]+)\s*(.*)$", pre, re.S)
                    out.append(('a', m.group(1), norm_args(m.group(2))))
                elif pre:
                    if ":" not in pre:
                        raise CssError("declaration without colon: " + pre[:30])
                    a, b = pre.split(":", 1)
                    out.append(('D', a.strip(), norm_ws(b)))
                # ';' is skipped at the loop head, '}' handled there too
    return block(True)


def parse_canon(s):
    """canonical string of the Lean driver (Dest/Text.lean canonItems) -> same tree type"""
    pos = 0

    def hexstr(stops):
        nonlocal pos
        st = pos
        while pos < len(s) and s[pos] not in stops:
            pos += 1
        return unhx(s[st:pos])

    def items():
        nonlocal pos
        out = []
        while pos < len(s) and s[pos] != "}":
            k = s[pos]
            pos += 1
            if k == "C":
                out.append(('C', norm_comment(hexstr(";"))))
                pos += 1
            elif k == "D":
                a = hexstr(":")
                pos += 1
                b = hexstr(";")
                pos += 1
                out.append(('D', a.strip(), norm_ws(b)))
            elif k == "a":
                a = hexstr("|")
                pos += 1
                b = hexstr(";")
                pos += 1
                out.append(('a', a, norm_args(b)))
            elif k == "R":
                sel = hexstr("{")
                pos += 1
                kids = items()
                pos += 1
                out.append(('R', norm_sel(sel), kids))
            elif k == "M":
                a = hexstr("{")
                pos += 1
                kids = items()
                pos += 1
                out.append(('M', norm_args(a), kids))
            elif k == "A":
                a = hexstr("|")
                pos += 1
                b = hexstr("{")
                pos += 1
                kids = items()
                pos += 1
                out.append(('A', a, norm_args(b), kids))
            else:
                raise CssError("bad canon " + s[pos - 1:pos + 20])
        return out
    return items()


def prune(tree):
    """drop what prints as nothing on either side: rules without children"""
    out = []
    for nd in tree:
        if nd[0] == 'R':
            if nd[2]:
                out.append(nd)
        elif nd[0] == 'M':
            out.append(('M', nd[1], prune(nd[2])))
        elif nd[0] == 'A':
            out.append(('A', nd[1], nd[2], prune(nd[3])))
        else:
            out.append(nd)
    return out


def impl_tree(impl):
    """harness answer -> ('ok', tree) | ('err',) | ('crash', text)"""
    if impl.startswith("ok:"):
        try:
            return ('ok', prune(parse_css(unhx(impl[3:]))))
        except CssError as e:
            return ('crash', "unparsable css: " + str(e))
    if impl.startswith("err:"):
        return ('err',)
    return ('crash', impl[:60])


def model_tree(m):
    if m is None:
        return None
    if m.startswith("ok:"):
        return ('ok', prune(parse_canon(m[3:])))
    if m == "err":
        return ('err',)
    return ('crash', m)


def flatten(tree, path=(), sel=None):
    """document-order list of entries ('D', path, sel, name, value) / ('C', path, sel, text) /
    ('a', path, sel, name, args)"""
    out = []
    for nd in tree:
        k = nd[0]
        if k == 'D':
            out.append(('D', path, sel, nd[1], nd[2]))
        elif k == 'C':
            out.append(('C', path, sel, nd[1]))
        elif k == 'a':
            out.append(('a', path, sel, nd[1], nd[2]))
        elif k == 'R':
            out += flatten(nd[2], path, nd[1])
        elif k == 'M':
            out += flatten(nd[2], path + (('M', nd[1]),), None)
        elif k == 'A':
            out += flatten(nd[3], path + (('A', nd[1], nd[2]),), None)
    return out


def at_nodes(tree):
    out = []
    for nd in tree:
        if nd[0] == 'M':
            out.append(('M', nd[1]))
            out += at_nodes(nd[2])
        elif nd[0] == 'A':
            out.append(('A', nd[1], nd[2]))
            out += at_nodes(nd[3])
        elif nd[0] == 'a':
            out.append(('a', nd[1], nd[2]))
        elif nd[0] == 'R':
            out += at_nodes(nd[2])
    return out


# ----------------------------------------------------------------------------- the statement, in Python

class Reject(Exception):
    """the property's reference semantics says: this program is an error"""


def py_nest(sel, backref, inner):
    """selector nesting for the shapes the generators use; sel/backref = list or None (root)"""
    parts = [norm_ws(p) for p in inner.split(",")]
    cols = []
    for p in parts:
        if "&" in p:
            cols.append([p.replace("&", o) for o in (sel if sel is not None else (backref or []))])
        elif sel is not None:
            cols.append([o + " " + p for o in sel])
        else:
            cols.append([p])
    out = []
    i = 0
    while any(i < len(c) for c in cols):
        out += [c[i] for c in cols if i < len(c)]
        i += 1
    return out


def is_keyframes(name):
    """`@keyframes`, also with a vendor prefix"""
    return name == "keyframes" or re.fullmatch(r"-[a-z]+-keyframes", name) is not None


class Ref:
    """Reference evaluation of a program according to the property statements (C20, C21,
    C36): which declarations / comments / at-rules are reached, with which at-rule path and
    selector they have to come out.  Raises Reject when an @error (or another error the
    statements name) is reached."""

    def __init__(self, compressed=False):
        self.compressed = compressed
        self.entries = []      # like flatten()
        self.reached_at = []   # at-rules with a body that is not empty, and body-less ones
        self.mixins = {}
        self.funcs = {}
        self.used = set()
        self.silent = []
        self.steps = 0

    def val(self, v):
        if v[0] in 'lq':
            return v[1]
        if v[0] == 'u':
            raise Reject("undefined variable")
        if v[1] not in self.funcs:
            raise Reject("undefined function")
        return self.fn(self.funcs[v[1]])

    def fn(self, body):
        for s in body:
            k = s[0]
            if k == 'T':
                return self.val(s[1])
            if k == 'E':
                raise Reject("@error in function")
            if k == 'I':
                r = self.fn(s[2] if s[1] else s[3])
                if r is not None:
                    return r
            elif k == 'L':
                for _ in range(s[1]):
                    r = self.fn(s[2])
                    if r is not None:
                        return r
        return None

    def run(self, stmts, path=(), sel=None, backref=None, excluded=False, ns="", content=None):
        """sel: list of selectors or None; returns nothing, appends to self.entries"""
        for s in stmts:
            self.steps += 1
            k = s[0]
            if k == 'D':
                v = self.val(s[2])
                if v is None:
                    continue
                if excluded:
                    raise Reject("declaration directly in @at-root (style rule excluded)")
                self.entries.append(('D', path, None if sel is None else norm_sel(", ".join(sel)), ns + s[1], norm_ws(v)))
            elif k == 'C':
                txt = "".join(p[1] if p[0] == 't' else (self.val(p[1]) or "") for p in s[2])
                if txt.startswith("# sourceMappingURL=") or txt.startswith("# sourceURL="):
                    pass     # the only comments that may be left out (source-map pragmas)
                elif not self.compressed or s[1]:
                    self.entries.append(('C', path, None if sel is None else norm_sel(", ".join(sel)), norm_comment(txt)))
            elif k == 'S':
                self.silent.append(s[1])
            elif k == 'R':
                inner = py_nest(sel, backref, s[1])
                self.run(s[2], path, inner, None, False, "", content)
            elif k == 'N':
                if s[2] is not None:
                    v = self.val(s[2])
                    if v is not None:
                        self.entries.append(('D', path, None if sel is None else norm_sel(", ".join(sel)), ns + s[1], norm_ws(v)))
                self.run(s[3], path, sel, backref, excluded, ns + s[1] + "-", content)
            elif k in 'MAa' and ns:
                raise Reject("only declarations are allowed in a nested-property block")
            elif k == 'M':
                q = norm_args(s[1])
                if path and path[-1][0] == 'M':
                    # media directly inside media (through style rules only): one merged rule
                    npath = path[:-1] + (('M', path[-1][1] + "and" + q),)
                else:
                    npath = path + (('M', q),)
                before = len(self.entries)
                # a bare declaration directly in an at-rule is kept there (as at the top level)
                self.run(s[2], npath, sel, backref, False, ns, content)
                if len(self.entries) > before:
                    self.reached_at.append(('M', q))
            elif k == 'A':
                npath = path + (('A', s[1], norm_args(s[2])),)
                before = len(self.entries)
                if is_keyframes(s[1]):
                    self.run(s[3], npath, None, None, False, ns, content)
                elif s[1] == "font-face":
                    # descriptors of @font-face are not wrapped in the enclosing selector
                    self.run(s[3], npath, None, sel if sel is not None else backref, False, ns, content)
                else:
                    # bare declarations are fine inside a generic at-rule, not inside @supports
                    self.run(s[3], npath, sel, backref, False, ns, content)
                if len(self.entries) > before:
                    self.reached_at.append(('A', s[1], norm_args(s[2])))
            elif k == 'a':
                self.entries.append(('a', path, None if sel is None else norm_sel(", ".join(sel)), s[1], norm_args(s[2])))
                self.reached_at.append(('a', s[1], norm_args(s[2])))
            elif k == 'O':
                br = sel if sel is not None else backref
                if s[1] is None:
                    self.run(s[2], path, None, br, True, ns, content)
                else:
                    parts = [norm_ws(p) for p in s[1].split(",")]
                    cols = [[p.replace("&", o) for o in (br or [])] if "&" in p else [p] for p in parts]
                    out, i = [], 0
                    while any(i < len(c) for c in cols):
                        out += [c[i] for c in cols if i < len(c)]
                        i += 1
                    self.run(s[2], path, out, br, False, ns, content)
            elif k == 'E':
                raise Reject("@error reached")
            elif k == 'I':
                self.run(s[2] if s[1] else s[3], path, sel, backref, excluded, ns, content)
            elif k == 'L':
                for _ in range(s[1]):
                    self.run(s[2], path, sel, backref, excluded, ns, content)
            elif k == 'X':
                self.mixins[s[1]] = s[2]
            elif k == 'F':
                self.funcs[s[1]] = s[2]
            elif k == 'Y':
                blk = None if s[2] is None else (s[2], content)
                if s[1] not in self.mixins:
                    raise Reject("undefined mixin")
                self.run(self.mixins[s[1]], path, sel, backref, excluded, ns, blk)
            elif k == 'K':
                if content is not None:
                    self.run(content[0], path, sel, backref, excluded, ns, content[1])
            elif k == 'T':
                raise Reject("@return outside function")
            elif k == 'P':
                self.run(s[2], path, sel, backref, excluded, ns, None)
            elif k == 'U':
                if s[1] not in self.used:
                    self.used.add(s[1])
                    self.run(s[2], (), None, None, False, "", None)


def reference(prog, compressed=False):
    """-> ('ok', Ref) | ('err', reason)"""
    r = Ref(compressed)
    try:
        r.run(prog)
    except Reject as e:
        return ('err', str(e))
    return ('ok', r)


def multiset(xs):
    d = {}
    for x in xs:
        d[x] = d.get(x, 0) + 1
    return d


def same_tree(a, b):
    return a == b


# ----------------------------------------------------------------------------- generator

ALL_FLAGS = ["closeSwallows", "mediaInMediaNested", "atRuleHoists", "atRootKeepsRule",
             "compressedDropsBang", "commentInterpExpandedOnly", "hashCommentDropped",
             "vendorKeyframesPrefixed", "compressedMultilineGarbled"]


class Gen:
    """Random programs inside the modelled fragment.  `w` = weights of optional features."""

    def __init__(self, rng, **w):
        self.rng = rng
        self.k = 0
        self.w = dict(comment=0.0, silent=0.0, ns=0.15, nsat=0.0, atroot=0.3, atroot_decl=0.0,
                      keyframes=0.2, vendor=0.0, control=0.0, error=0.0, mixin=0.0, func=0.0,
                      load=0.0, media_in_media=0.3, bang=0.3, interp=0.2, undef=0.0, hash=0.0,
                      multiline=0.0, arule=0.15, maxdepth=4, pragma=0.0)
        self.w.update(w)
        self.mixins = []      # numbers defined so far (usable)
        self.funcs = []
        self.nmods = 0
        self.nimps = 0

    def nxt(self):
        self.k += 1
        return self.k

    def p(self, name):
        return self.rng.random() < self.w[name]

    # --- leaves
    def value(self):
        r = self.rng
        if self.funcs and r.random() < self.w['func']:
            return ('c', r.choice(self.funcs))
        return ('l', "v%d" % self.nxt())

    def decl(self):
        return ('D', "p%d" % self.nxt(), self.value())

    def comment(self):
        r = self.rng
        k = self.nxt()
        bang = self.p('bang')
        parts = []
        head = ("!" if bang else "") + (" c%d " % k)
        if not bang and self.p('hash'):
            head = "# c%d " % k
        if self.p('pragma'):
            pool = ["# sourceMappingURL=x%d " % k, "# sourceURL=y%d " % k, " sourceMappingURL=x%d " % k,
                    " see sourceURL=y%d " % k, "#sourceMappingURL c%d " % k, "#sourceMappingURL=x%d " % k,
                    "! sourceMappingURL=x%d " % k, "@ sourceMappingURL=x%d " % k, " c%d # sourceURL=z " % k]
            head = r.choice(pool)
            bang = head.startswith("!")
            if r.random() < 0.4:
                # the same words arriving through interpolation
                cut = head.find("source")
                parts.append(('t', head[:cut]))
                parts.append(('i', ('q', head[cut:].rstrip())))
                parts.append(('t', " "))
                return ('C', bang, parts)
        parts.append(('t', head))
        if self.p('interp'):
            if self.p('undef'):
                parts.append(('i', ('u',)))
            elif self.funcs and r.random() < 0.5:
                parts.append(('i', ('c', r.choice(self.funcs))))
            else:
                parts.append(('i', ('l', "i%d" % self.nxt())))
            parts.append(('t', " e "))
        if self.p('multiline'):
            parts.append(('t', "\n" + " " * r.randint(0, 6) + "* l%d\n" % self.nxt() + " " * r.randint(0, 6)))
        return ('C', bang, parts)

    def silent(self):
        return ('S', " s%d" % self.nxt())

    def media_args(self):
        k = self.nxt()
        return self.rng.choice(["q%d" % k, "q%d" % k, "(min-width: %dpx)" % k])

    def selector(self, has_parent):
        r = self.rng
        plain = ["a", "b", ".c", "d e", "f > g", "#h", "i.j"]
        if has_parent and r.random() < 0.25:
            k = self.nxt()
            return r.choice(["&-s", "j &", "& k", "&-t%d" % k])
        if r.random() < 0.08:
            return r.choice(["m, n", "o, .p q"])
        return r.choice(plain)

    # --- bodies.  cx: dict(has_rule, has_parent, media_above, inner_media, depth, in_mixin, in_ctl)
    def body(self, cx, n=None):
        r = self.rng
        n = r.randint(1, 4) if n is None else n
        out = []
        for _ in range(n):
            out += self.stmt(cx)
        return out

    def sub(self, cx, **kw):
        c = dict(cx)
        c['depth'] = cx['depth'] + 1
        c['direct_ctl'] = False
        c.update(kw)
        return c

    def stmt(self, cx):
        """one or more statements valid at this position"""
        r = self.rng
        deep = cx['depth'] >= self.w['maxdepth']
        out = []
        if self.p('comment'):
            out.append(self.comment())
        if self.p('silent'):
            out.append(self.silent())
        if self.p('error') and r.random() < 0.15:
            out.append(('E',))
        choices = []
        if cx['has_rule'] or cx.get('in_flat_at'):
            choices += ['decl'] * 4
        if cx['has_rule'] and not deep:
            choices += ['ns'] * (2 if self.p('ns') else 0)
        if not deep and not cx.get('in_keyframes'):
            choices += ['rule'] * 3
            if not cx['media_above'] or cx['inner_media']:
                if cx['inner_media']:
                    choices += ['media'] * (2 if self.p('media_in_media') else 0)
                else:
                    choices += ['media'] * 2
            choices += ['supports', 'unknown']
            if self.p('keyframes'):
                choices += ['keyframes']
            if self.p('atroot'):
                choices += ['atroot', 'atroot_sel']
            if self.p('arule') and not cx.get('direct_ctl'):
                choices += ['arule']
            if self.p('control'):
                choices += ['if', 'loop']
            if self.mixins and self.p('mixin'):
                choices += ['include'] * 2
        if cx.get('in_mixin') and self.p('mixin'):
            choices += ['content']
        if not choices:
            choices = ['decl'] if (cx['has_rule'] or cx.get('in_flat_at')) else ['rule_leaf']
        c = r.choice(choices)
        if c == 'decl':
            out.append(self.decl())
        elif c == 'rule_leaf':
            out.append(('R', self.selector(False), [self.decl()]))
        elif c == 'ns':
            out.append(self.nsblock(cx))
        elif c == 'rule':
            sel = self.selector(cx['has_parent'])
            out.append(('R', sel, self.body(self.sub(cx, has_rule=True, has_parent=True, in_flat_at=False))))
        elif c == 'media':
            out.append(('M', self.media_args(), self.body(self.sub(cx, media_above=True, inner_media=True, in_flat_at=False))))
        elif c == 'supports':
            out.append(('A', 'supports', "(d%d: v)" % self.nxt(),
                        self.body(self.sub(cx, inner_media=False, in_flat_at=False))))
        elif c == 'unknown':
            # check_body: unknown names are rejected directly inside control flow
            name = "layer" if cx.get('direct_ctl') else r.choice(["foo", "x-bar", "layer"])
            args = "t%d" % self.nxt()
            out.append(('A', name, args, self.body(self.sub(cx, inner_media=False, in_flat_at=not cx['has_rule']))))
        elif c == 'keyframes':
            name = "-webkit-keyframes" if self.p('vendor') else "keyframes"
            frames = [('R', s, [self.decl() for _ in range(r.randint(1, 2))])
                      for s in r.sample(["from", "to", "50%"], r.randint(1, 3))]
            out.append(('A', name, "k%d" % self.nxt(), frames))
        elif c == 'arule':
            out.append(('a', r.choice(["foo", "x-bar"]), "t%d" % self.nxt()))
        elif c == 'atroot':
            if self.p('atroot_decl'):
                b = self.body(self.sub(cx, has_rule=True, has_parent=cx['has_parent']), r.randint(1, 2))
            else:
                b = self.body(self.sub(cx, has_rule=False, in_flat_at=False), r.randint(1, 2))
            out.append(('O', None, b))
        elif c == 'atroot_sel':
            sel = self.selector(cx['has_parent'])
            out.append(('O', sel, self.body(self.sub(cx, has_rule=True, has_parent=True, in_flat_at=False))))
        elif c == 'if':
            cond = r.random() < 0.6
            t = self.body(self.sub(cx, direct_ctl=True), r.randint(1, 2))
            e = self.body(self.sub(cx, direct_ctl=True), r.randint(0, 2))
            out.append(('I', cond, t, e))
        elif c == 'loop':
            out.append(('L', r.choice([0, 1, 2, 2, 3]), self.body(self.sub(cx, direct_ctl=True), r.randint(1, 2))))
        elif c == 'include':
            m = r.choice(self.mixins)
            blk = None
            if r.random() < 0.6:
                blk = self.body(self.sub(cx, in_mixin=cx.get('in_mixin')), r.randint(1, 2))
            out.append(('Y', m, blk))
        elif c == 'content':
            out.append(('K',))
        return out

    def nsblock(self, cx):
        r = self.rng
        name = r.choice(["font", "margin", "border"])
        val = self.value() if r.random() < 0.3 else None
        inner = []
        for _ in range(r.randint(1, 3)):
            x = r.random()
            if self.p('comment'):
                inner.append(self.comment())
            if self.p('silent'):
                inner.append(self.silent())
            if x < 0.15 and cx['depth'] + 1 < self.w['maxdepth']:
                inner.append(self.nsblock(self.sub(cx)))
            elif 0.15 <= x < 0.15 + self.w['nsat']:
                kind = r.choice(['media', 'supports'])
                b = [self.decl() for _ in range(r.randint(1, 2))]
                inner.append(('M', self.media_args(), b) if kind == 'media' else ('A', 'supports', "(d%d: v)" % self.nxt(), b))
            elif self.p('control') and x < 0.5:
                inner.append(('L', r.choice([1, 2]), [self.decl()]) if r.random() < 0.5 else ('I', True, [self.decl()], []))
            else:
                inner.append(self.decl())
        return ('N', name, val, inner)

    def top_cx(self):
        return dict(has_rule=False, has_parent=False, media_above=False, inner_media=False, depth=0)

    def function(self):
        f = len(self.funcs) + 1
        r = self.rng
        body = []
        if self.p('silent'):
            body.append(self.silent())
        if self.p('error') and r.random() < 0.3:
            body.append(('E',))
        x = r.random()
        if x < 0.3:
            body.append(('I', r.random() < 0.5, [('T', ('l', "r%d" % self.nxt()))], []))
        elif x < 0.5:
            body.append(('L', r.randint(0, 2), [('T', ('l', "r%d" % self.nxt()))]))
        body.append(('T', ('l', "r%d" % self.nxt())))
        self.funcs.append(f)
        return ('F', f, body)

    def mixin(self):
        m = len(self.mixins) + 100 * self.nmods + 1
        cx = self.top_cx()
        cx.update(has_rule=True, has_parent=True, in_mixin=True, depth=1)
        # the body may be used inside a rule or at top level: keep it valid in both by
        # wrapping declarations in rules when `flat` is off
        if self.rng.random() < 0.5:
            cx.update(has_rule=False, has_parent=False)
        body = self.body(cx, self.rng.randint(1, 3))
        # check_body(Mixin): unknown at-rules are not allowed as direct children
        body = [s for s in body if not (s[0] in 'Aa' and s[1] in ("foo", "x-bar"))] or [('K',)]
        self.mixins.append(m)
        return ('X', m, body), cx['has_rule']

    def program(self):
        r = self.rng
        prog = []
        self.mixin_needs_rule = {}
        if self.p('load') and r.random() < 0.5:
            self.nmods += 1
            g = Gen(r, **{**self.w, 'load': 0.0, 'mixin': 0.0, 'func': 0.0})
            g.k = self.k + 1000
            body = [s for _ in range(r.randint(1, 2)) for s in g.stmt(g.top_cx())]
            prog.append(('U', self.nmods, body))
            if r.random() < 0.3:
                prog.append(('U', self.nmods, body))
        for _ in range(r.randint(0, 2) if self.w['func'] else 0):
            prog.append(self.function())
        for _ in range(r.randint(0, 2) if self.w['mixin'] else 0):
            mx, needs_rule = self.mixin()
            self.mixin_needs_rule[mx[1]] = needs_rule
            prog.append(mx)
        for _ in range(r.randint(1, 3)):
            if self.p('load') and r.random() < 0.3:
                self.nimps += 1
                g = Gen(r, **{**self.w, 'load': 0.0, 'mixin': 0.0})
                g.k = self.k + 2000 * self.nimps
                g.funcs = list(self.funcs)
                prog.append(('P', self.nimps, [s for _ in range(r.randint(1, 2)) for s in g.stmt(g.top_cx())]))
            else:
                prog += self.stmt(self.top_cx())
        return self.fix_includes(prog, False)

    def comments(self, n=None):
        out = []
        for _ in range(self.rng.randint(1, 3) if n is None else n):
            out.append(self.silent() if self.rng.random() < 0.25 else self.comment())
        return out

    def module_program(self):
        """root -> @use mod1 -> (@use | @forward [as p-* | show | hide]) mod2; mod2 declares a mixin and a
        function (with comments inside) that the root reaches through mod1; plus @import and meta.load-css
        of files with comments; comments of all kinds everywhere"""
        r = self.rng
        how = r.choice(['forward', 'forward', 'forward as p-*', 'forward show m7, f7', 'forward hide nope', 'use'])
        prefix = "mod1.p-" if how == 'forward as p-*' else "mod1."
        mix = ('X', 7, self.comments() + [('R', 'mx', self.comments(1) + [self.decl(), ('K',)]), self.decl()] + self.comments(1))
        fun = ('F', 7, self.comments(1) + [('T', ('l', "r%d" % self.nxt()))])
        mod2 = self.comments() + [mix, fun, ('R', 'lib', self.comments(1) + [self.decl()])] + self.comments(1)
        mod1 = self.comments(1) + [('U', 2, mod2, how)] + self.comments(1) + [('R', 'api', self.comments(1) + [self.decl()])]
        root = [('U', 1, mod1), ('U', 0, [], 'sass-meta')]
        root += self.comments()
        use_lib = how != 'use'
        body = self.comments(1) + [self.decl()]
        if use_lib:
            body += [('Y', 7, self.comments(1) + [self.decl()] if r.random() < 0.6 else None, prefix),
                     ('D', "p%d" % self.nxt(), ('cm', 7, prefix))]
        body += self.comments(1)
        root.append(('R', 'x', body))
        imp = self.comments() + [('R', 'imp', self.comments(1) + [self.decl()])]
        self.nimps += 1
        root.append(('P', self.nimps, imp) if r.random() < 0.5 else ('P', self.nimps, imp, 'load-css'))
        if r.random() < 0.5:
            self.nimps += 1
            root.append(('P', self.nimps, self.comments() + [('R', 'lc', [self.decl()])], 'load-css'))
        root += self.comments(1)
        return root

    def fix_includes(self, stmts, has_rule):
        """a mixin whose body has bare declarations may only be included inside a rule"""
        out = []
        for s in stmts:
            k = s[0]
            if k == 'Y' and self.mixin_needs_rule.get(s[1]) and not has_rule:
                out.append(('R', 'z', [('Y', s[1], None if s[2] is None else self.fix_includes(s[2], True))]))
            elif k == 'Y':
                out.append(('Y', s[1], None if s[2] is None else self.fix_includes(s[2], has_rule)))
            elif k == 'R':
                out.append(('R', s[1], self.fix_includes(s[2], True)))
            elif k == 'O':
                out.append(('O', s[1], self.fix_includes(s[2], s[1] is not None)))
            elif k in 'MLPUXF':
                out.append((k, s[1], self.fix_includes(s[2], has_rule)))
            elif k == 'A':
                out.append(('A', s[1], s[2], self.fix_includes(s[3], has_rule)))
            elif k == 'N':
                out.append(('N', s[1], s[2], self.fix_includes(s[3], has_rule)))
            elif k == 'I':
                out.append(('I', s[1], self.fix_includes(s[2], has_rule), self.fix_includes(s[3], has_rule)))
            else:
                out.append(s)
        return out


# ----------------------------------------------------------------------------- shrinking

def _variants(stmts):
    """smaller programs: drop one statement, or replace a container by its body"""
    for i, s in enumerate(stmts):
        yield stmts[:i] + stmts[i + 1:]
    for i, s in enumerate(stmts):
        k = s[0]
        subs = []
        if k in 'RMLXPUO':
            subs = [(2, s[2])]
        elif k in 'AN':
            subs = [(3, s[3])]
        elif k == 'I':
            subs = [(2, s[2]), (3, s[3])]
        elif k == 'Y' and s[2]:
            subs = [(2, s[2])]
        for idx, b in subs:
            for v in _variants(b):
                t = list(s)
                t[idx] = v
                yield stmts[:i] + [tuple(t)] + stmts[i + 1:]


def shrink_case(case, still_fails, budget=60):
    from tools.vlib import Case
    prog, compressed = prog_of(case.lines[0])
    style = "c" if compressed else "e"
    try:
        roundtrip = case_line(prog, style).split("\t")[5:7] == case.lines[0].split("\t")[5:7]
    except Exception:
        roundtrip = False
    if not roundtrip:
        # the term does not carry how a file is loaded (@forward, load-css, qualified names):
        # re-rendering would change the program, so such a case is reported as it is
        return case
    best = prog
    progress = True
    while progress and budget > 0:
        progress = False
        for v in _variants(best):
            budget -= 1
            if budget <= 0:
                break
            try:
                c2 = Case(case_line(v, style), case.stratum, case.note)
            except Exception:
                continue
            if still_fails(c2):
                best = v
                progress = True
                break
    return Case(case_line(best, style), case.stratum, case.note)


# ----------------------------------------------------------------------------- live sibling flags

def _d(k):
    return ('D', "p%d" % k, ('l', "v%d" % k))


PROBES = {
    "atRuleHoists": ([('R', 'a', [('M', 'x', [('R', 'b', [_d(1)]), _d(2)])])], "e"),
    "closeSwallows": ([('R', 'a', [('N', 'font', None, [('M', 'x', [_d(1)])])])], "e"),
    "mediaInMediaNested": ([('M', 'qa', [('R', 'x', [('M', 'qb', [_d(1)])])])], "e"),
    "atRootKeepsRule": ([('R', 'a', [('O', None, [_d(1)])])], "e"),
    "vendorKeyframesPrefixed": ([('R', 'a', [('A', '-webkit-keyframes', 'k', [('R', 'from', [_d(2)])])])], "e"),
    "hashCommentDropped": ([('R', 'a', [('C', False, [('t', "# c1 ")]), _d(1)])], "e"),
    "compressedDropsBang": ([('R', 'a', [('C', True, [('t', "! c1 ")]), _d(1)])], "c"),
    "compressedMultilineGarbled": ([('R', 'a', [('C', True, [('t', "! c1 \n      * l2\n      ")]), _d(3)])], "c"),
    "commentInterpExpandedOnly": ([('R', 'a', [('C', False, [('t', " c1 "), ('i', ('u',))]), _d(1)])], "c"),
}


class LiveFlags:
    """Deviation flags that belong to findings of the SIBLING properties (C20/C21/C36 share one
    model).  A flag is on iff the implementation still shows that deviation on its probe program
    (implementation == model with the flag, != specification) — decided when first iterated,
    i.e. after the harness has been built."""

    def __init__(self, driver, flags):
        self.driver, self.flags, self.live = driver, list(flags), None

    def __iter__(self):
        if self.live is None:
            from tools import vlib
            lines = [case_line(*PROBES[f]) for f in self.flags]
            impl = vlib.run_impl(lines)
            self.live = []
            for f, l, i in zip(self.flags, lines, impl):
                a, s = vlib.split_model(vlib.run_model(self.driver, [l], [f])[0])
                it = impl_tree(i)
                if it == model_tree(a) and it != model_tree(s):
                    self.live.append(f)
        return iter(self.live)
