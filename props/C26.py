"""C26 — String functions follow the Unicode code-point model."""
import re
from tools.vlib import Case, Verdict, hx, unhx

ID = "C26"
DRIVER = "drv_C26"
THEOREM_MODS = ["RsassModel.Theorems.C26"]
LEVEL = "proof"
EXHAUSTIVE = {"quick": False, "thorough": False}
RULE = ("strings of 0..12 code points mixing ASCII letters/digits, 2-, 3- and 4-byte characters (é ß Ω ж 中 😀 𝒜), "
        "combining marks (U+0301, U+0308), case-special characters (K KELVIN SIGN, ǆ, İ), quoted and unquoted; "
        "for every generated string: length, to-upper-case, to-lower-case; str-insert with EVERY index in "
        "[-len-2, len+2]; str-slice with EVERY (start, end) pair in [-len-2, len+2]^2 plus the one-argument form; "
        "str-index with substrings that occur (at several places), do not occur, are empty, or longer than the string; "
        "non-trivial = the result is a non-empty string or a number")
TRUSTED = ["harness op `strfn` writes the arguments as SCSS literals and compiles `a{b:<call>}`; the value text is read "
           "back from the emitted declaration (characters that would need escaping are not generated)",
           "python reference implementation of the Sass string-function specification on code-point lists"]
ASSUMPTIONS = ["indices are integers within ±(len+2); i64 extremes are outside the generator",
               "characters needing escapes (quotes, backslash, control, private use) belong to C27 and are not generated here"]

ASCII_L = "abcdefghijklmnopqrstuvwxyz"
ASCII_U = "ABCDEFGHIJKLMNOPQRSTUVWXYZ"
DIGITS = "0123456789"
MULTI = ["é", "ß", "Ω", "ж", "中", "ü", "ñ", "Ж", "É"]
ASTRAL = ["😀", "𝒜", "𝔘", "🎉"]
COMBINING = ["́", "̈"]
CASESPECIAL = ["K", "ǆ", "İ", "ſ"]  # KELVIN, dz-caron digraph, dotted I, long s
QUOTED_ONLY = [" ", ".", "!", ",", "-", "_"]


def ident_safe(s):
    """can `s` be written as a bare (unquoted) SCSS identifier-like string?"""
    if not s:
        return False
    if s[0] in DIGITS or s[0] == "-" or s[0] in COMBINING:
        return False
    for c in s:
        if c in QUOTED_ONLY and c not in "-_":
            return False
    if s[-1] == "-":
        return False
    if re.fullmatch(r"[A-Za-z]+", s) and not re.search(r"[xjXJ]", s):
        return False   # could be a colour name or a keyword (none of them contains x or j)
    if re.match(r"[uU]$", s) or re.fullmatch(r"[eE]\d*", s):
        return False
    return True


def rand_string(rng, n, quoted):
    pools = [ASCII_L, ASCII_L, ASCII_U, DIGITS, MULTI, ASTRAL, COMBINING, CASESPECIAL]
    if quoted:
        pools = pools + [QUOTED_ONLY]
    for _ in range(200):
        kind = rng.random()
        if kind < 0.25:
            s = "".join(rng.choice(ASCII_L + ASCII_U) for _ in range(n))
        else:
            s = "".join(rng.choice(rng.choice(pools)) for _ in range(n))
        if quoted or ident_safe(s):
            return s
    return "x" * max(n, 1)


# ---- reference implementation of the Sass specification (code points = python str) ----

def ref_slice(s, i, j):
    n = len(s)
    if j == 0:
        return ""
    def cp(idx, allow_neg=False):
        if idx == 0:
            return 0
        if idx > 0:
            return min(idx - 1, n)
        r = n + idx
        return r if (r >= 0 or allow_neg) else 0
    a = cp(i)
    b = cp(j, True)
    if b == n:
        b -= 1
    if b < a:
        return ""
    return s[a:b + 1]


def ref_insert(s, x, i):
    n = len(s)
    if i < 0:
        i = max(n + i + 2, 0)
    k = 0 if i == 0 else min(i - 1, n)
    return s[:k] + x + s[k:]


def ref_index(s, sub):
    k = s.find(sub)
    return None if k < 0 else k + 1


def ref_upper(s):
    return "".join(chr(ord(c) - 32) if "a" <= c <= "z" else c for c in s)


def ref_lower(s):
    return "".join(chr(ord(c) + 32) if "A" <= c <= "Z" else c for c in s)


def fl(q):
    return "q" if q else "u"


def sres(q, s):
    return ("q:" if q else "u:") + s


def gen(tier, rng, boost=1):
    nstr = (26 if tier == "quick" else 150) * boost
    strings = [(True, ""), (True, "abc"), (False, "abx"), (True, "é😀ß"), (False, "ü😀x中"),
               (True, "aXbXc"), (True, "😀😀😀"), (False, "xKKk")]
    for k in range(nstr):
        n = rng.randint(0, 12) if k % 3 else rng.randint(0, 4)
        q = rng.random() < 0.55 or n == 0
        strings.append((q, rand_string(rng, n, q)))
    for q, s in strings:
        n = len(s)
        base = f"strfn\t%s\t{fl(q)}\t{hx(s)}"
        yield Case(base % "length", "length", {"want": f"n:{n}"})
        yield Case(base % "upper", "case", {"want": sres(q, ref_upper(s))})
        yield Case(base % "lower", "case", {"want": sres(q, ref_lower(s))})
        # insert: every index
        xs = [(True, "Z"), (True, ""), (True, "é😀")]
        if rng.random() < 0.5:
            xs.append((False, "xq"))
        for xq, x in xs:
            for i in range(-n - 2, n + 3):
                yield Case(base % "insert" + f"\t{fl(xq)}\t{hx(x)}\t{i}", "insert",
                           {"want": sres(q, ref_insert(s, x, i))})
        # slice: every pair of indices (thinned for long strings in the quick tier)
        rngidx = list(range(-n - 2, n + 3))
        for i in rngidx:
            yield Case(base % "slice" + f"\t{i}", "slice-1arg", {"want": sres(q, ref_slice(s, i, -1))})
            for j in rngidx:
                if tier == "quick" and n > 6 and rng.random() < 0.6:
                    continue
                yield Case(base % "slice" + f"\t{i}\t{j}", "slice", {"want": sres(q, ref_slice(s, i, j))})
        # index: occurring / non-occurring / empty / too long substrings
        subs = {"", "zz", s, s + "a"}
        for _ in range(6):
            if n:
                a = rng.randrange(n)
                b = rng.randint(a + 1, min(n, a + 3))
                subs.add(s[a:b])
        if n >= 2:
            subs.add(s[-1])
            subs.add(s[1:])
            subs.add(s[0] + "́")
        for sub in sorted(subs):
            w = ref_index(s, sub)
            yield Case(base % "index" + f"\tq\t{hx(sub)}", "index",
                       {"want": "null" if w is None else f"n:{w}"})


def canon(case, impl):
    """implementation text -> n:<k> | null | q:<text> | u:<text> | err"""
    if impl.startswith(("panic:", "abort:")):
        return impl
    if not impl.startswith("ok:"):
        return "err"
    t = unhx(impl[3:])
    fn = case.lines[0].split("\t")[1]
    if t == "\x00none":   # declaration dropped: null, or an empty unquoted string
        return "null" if fn == "index" else "u:"
    if fn in ("length", "index"):
        return "n:" + t
    if len(t) >= 2 and t[0] == '"' and t[-1] == '"':
        return "q:" + t[1:-1]
    return "u:" + t


def canon_model(m):
    if m is None:
        return None
    if m[:2] in ("q:", "u:"):
        return m[:2] + unhx(m[2:])
    return m


def judge(case, impl, asis, spec):
    got = canon(case, impl)
    if got.startswith(("panic:", "abort:")):
        return Verdict(False, "crash: " + got[:60])
    a, s = canon_model(asis), canon_model(spec)
    want = case.note.get("want", s)
    if s is not None and s != want:
        raise RuntimeError(f"checker inconsistency: python reference {want!r} != lean spec model {s!r} on {case.lines[0]!r}")
    fails = None if got == want else f"result {got!r}, the Sass specification gives {want!r}"
    return Verdict(a is None or got == a, fails)


def nontrivial(case, impl, spec):
    w = case.note.get("want", "")
    return w.startswith("n:") or (w[:2] in ("q:", "u:") and len(w) > 2)


LEVEL_TEXT = ("Proof (Lean 4) over a model of sass/functions/string.rs on code-point lists: slice/insert position "
              "characterisations with clamping, first-occurrence theorem for index, ASCII-only case mapping, quotedness "
              "preserved; tied to the code by exact agreement on every index in [-len-2, len+2] for generated strings and "
              "judged by an independent Python implementation of the Sass specification.")
LEVEL_NOTE = "Trusted: Lean kernel; literal writing/reading of unescaped characters; Python reference implementation."
TECHNIQUE = "Lean 4 theorems over list models + exhaustive-index differential correspondence"
