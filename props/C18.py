"""C18 — Functions, mixins and content blocks bind arguments correctly."""
from tools.vlib import Case, Verdict
from props._coregen import *  # noqa: F401,F403

ID = "C18"
DRIVER = "drv_C18"
THEOREM_MODS = ["RsassModel.Theorems.C18"]
LEVEL = "proof"
CASE_TIMEOUT = 20

RULE = ("programs = one or two callables (function or mixin) with 0..4 parameters drawn from {a, b, c-d, e_f, v}, "
        "defaults that are literals / refer to earlier parameters / to a global, optional rest parameter, observed "
        "through emitted declarations (each parameter, inspect($rest), inspect(keywords($rest))), called with every "
        "mix of positional, named (with -/_ spelling swapped), unknown-named, duplicated (position + name), list-splat, "
        "map-splat, arglist pass-through arguments; plus first-@return (returns inside @if/@each/@for/@while), "
        "argument values include null, \"\", false and () in every passing form (positional, named, list splat, map splat, "
        "arglist forwarding, @content arguments) against defaulted, required and rest parameters; "
        "closures over shadowed names (global vs include/call-site local vs parameter), @content with `using` "
        "parameters, nested @include/@content, @content without a block. Quick: all signatures x calls of a small "
        "grid + random; non-trivial = the spec model gives a definite non-error result with at least one declaration.")
TRUSTED = ["props/_coregen.py prints the same program object as SCSS and as the model's term",
           "regex extraction of `pN: value;` lines from rsass's expanded output"]
ASSUMPTIONS = ["error presence is compared, not error text",
               "programs whose result depends on the C16 scoping deviations are answered `skip` by the driver and not judged here",
               "argument values are integers/identifiers and flat lists/maps of them"]

PNAMES = ["a", "b", "c-d", "e_f"]


def swap(n):
    return n.replace("-", "~").replace("_", "-").replace("~", "_")


class Gen:
    def __init__(self, rng):
        self.rng = rng
        self.n = 0

    def p(self):
        self.n += 1
        return f"p{self.n}"

    def atom(self, flat=True):
        """an argument value; blank values (null, "", false, and — where a list may stand — ()) are
        deliberately frequent: a passed blank value is a passed value, never "not given" """
        r = self.rng
        k = r.random()
        if k < 0.50:
            return num(r.randint(0, 9))
        if k < 0.68:
            return ident(r.choice(["x", "y", "z"]))
        if k < 0.84:
            return NULL
        if k < 0.90:
            return FALSE
        if k < 0.95 or flat:
            return qstr("")
        return lst([])

    def arg(self):
        return self.atom(flat=False)

    def signature(self, nparams=None, rest=None):
        r = self.rng
        k = r.randint(0, 4) if nparams is None else nparams
        names = PNAMES[:k]
        if k and r.random() < 0.25:
            names = names[:-1] + ["v"]          # shadows the global $v
        ps = []
        for i, n in enumerate(names):
            d = None
            if r.random() < (0.55 if i >= k // 2 else 0.15):
                q = r.random()
                if q < 0.4 or i == 0:
                    d = self.atom()
                elif q < 0.8:
                    d = add(var(names[r.randrange(i)]), num(r.randint(1, 5)))   # earlier parameter
                else:
                    d = var("g")                                                # a global
            ps.append((n, d))
        has_rest = (r.random() < 0.4) if rest is None else rest
        return Params(ps, "r" if has_rest else None)

    def call_args(self, sig, force=None):
        """argument list; strata: ok-ish / too-many / unknown / duplicate / missing / splats"""
        r = self.rng
        names = [n for n, _ in sig.ps]
        k = len(names)
        kind = force or r.choice(["plain", "plain", "named", "named", "toomany", "unknown", "dup", "missing",
                                  "listsplat", "mapsplat", "bothsplat", "restnamed", "onlynamed"])
        args = []
        if kind == "plain":
            npos = r.randint(0, k + (2 if sig.rest else 0))
            args = [("p", self.arg()) for _ in range(npos)]
            for n in names[npos:]:
                if r.random() < 0.5:
                    args.append(("n", swap(n) if r.random() < 0.5 else n, self.arg()))
        elif kind == "named":
            npos = r.randint(0, max(0, k - 1))
            args = [("p", self.arg()) for _ in range(npos)]
            rest_names = names[npos:]
            r.shuffle(rest_names)
            for n in rest_names:
                if r.random() < 0.75:
                    args.append(("n", swap(n) if r.random() < 0.5 else n, self.arg()))
        elif kind == "toomany":
            args = [("p", self.atom()) for _ in range(k + r.randint(1, 2))]
        elif kind == "unknown":
            npos = r.randint(0, k)
            args = [("p", self.arg()) for _ in range(npos)]
            args.append(("n", r.choice(["zz", "q-q"]), self.atom()))
        elif kind == "dup":
            npos = r.randint(1, max(1, k))
            args = [("p", self.arg()) for _ in range(npos)]
            if names:
                n = names[r.randrange(min(npos, k))]
                args.append(("n", swap(n) if r.random() < 0.5 else n, self.arg()))
            else:
                args.append(("n", "zz", self.atom()))
        elif kind == "missing":
            npos = r.randint(0, max(0, k - 1))
            args = [("p", self.arg()) for _ in range(npos)]
        elif kind == "listsplat":
            npos = r.randint(0, 1)
            args = [("p", self.arg()) for _ in range(npos)]
            items = [self.atom() for _ in range(r.randint(0, k + 1))]
            args.append(("s", lst(items, comma=(r.random() < 0.6 or len(items) == 1))))
        elif kind == "mapsplat":
            npos = r.randint(0, max(0, k - 1))
            args = [("p", self.arg()) for _ in range(npos)]
            keys = [n for n in names[npos:] if r.random() < 0.7]
            if r.random() < 0.2:
                keys.append("zz")
            if r.random() < 0.15 and npos and names:
                keys.append(names[0])       # duplicate through the map
            kv = [((swap(n) if r.random() < 0.4 else n), self.atom()) for n in dict.fromkeys(keys)]
            args.append(("s", mp(kv)))
        elif kind == "bothsplat":
            items = [self.atom() for _ in range(r.randint(0, max(1, k - 1)))]
            args.append(("s", lst(items, comma=True)))
            keys = [n for n in names[len(items):] if r.random() < 0.7]
            args.append(("s", mp([(n, self.atom()) for n in keys])))
        elif kind == "restnamed":
            args = [("p", self.atom()) for _ in range(r.randint(0, k + 1))]
            for n in r.sample(["zz", "q-q", "w_w"], r.randint(1, 2)):
                args.append(("n", n, self.atom()))
        elif kind == "onlynamed":
            args = [("n", "r", lst([self.atom(), self.atom()], comma=False) if r.random() < 0.5 else self.atom())]
            if r.random() < 0.3:
                args.insert(0, ("p", self.atom()))
        return args, kind

    def observe_mixin(self, sig):
        body = [emit(self.p(), inspect(var(n))) for n, _ in sig.ps]
        if sig.rest:
            body.append(emit(self.p(), inspect(var("r"))))
            body.append(emit(self.p(), inspect(keywords(var("r")))))
        return body

    def observe_fn(self, sig):
        r = self.rng
        names = [n for n, _ in sig.ps]
        opts = []
        if names:
            opts.append(inspect(lst([var(n) for n in names], comma=True)) if len(names) > 1 else inspect(var(names[0])))
        else:
            opts.append(num(0))
        if sig.rest:
            opts += [inspect(var("r")), inspect(keywords(var("r")))]
        return [ret(r.choice(opts))]

    def binding_program(self, sig=None, force=None):
        r = self.rng
        sig = sig or self.signature()
        prog = [decl("g", num(7)), decl("v", ident("gv"))]
        is_fn = r.random() < 0.5
        if is_fn:
            prog.append(func("f", sig, self.observe_fn(sig)))
        else:
            prog.append(mixin("m", sig, self.observe_mixin(sig)))
        through_args = r.random() < 0.15
        if through_args:
            # arglist pass-through: wrapper($args...) forwards to the callable
            if is_fn:
                prog.append(func("w", Params([], "args"), [ret(call("f", [("s", var("args"))]))]))
            else:
                prog.append(mixin("w", Params([], "args"), [incl("m", [("s", var("args"))])]))
        kinds = []
        for _ in range(r.randint(1, 2)):
            args, kind = self.call_args(sig, force)
            kinds.append(kind)
            target = ("w" if through_args else ("f" if is_fn else "m"))
            if is_fn:
                prog.append(emit(self.p(), call(target, args)))
            else:
                prog.append(incl(target, args))
        return prog, "bind-" + kinds[0]

    def return_program(self):
        r = self.rng
        x = r.randint(0, 4)
        body = []
        n = r.randint(1, 4)
        for i in range(n):
            k = r.random()
            v = num(10 + i)
            if k < 0.3:
                body.append(ret(v))
            elif k < 0.55:
                body.append(if_(lt(var("a"), num(r.randint(0, 5))), [ret(v)], [ret(num(20 + i))] if r.random() < 0.3 else []))
            elif k < 0.7:
                body.append(each("i", lst([num(1), num(2), num(3)]), [if_(eq(var("i"), num(r.randint(1, 4))), [ret(add(var("i"), num(30)))])]))
            elif k < 0.85:
                body.append(for_("i", num(1), num(3), True, [if_(lt(var("a"), var("i")), [ret(add(var("i"), num(40)))])]))
            else:
                body.append(decl("k", num(0)))
                body.append(while_(lt(var("k"), num(3)), [decl("k", add(var("k"), num(1))),
                                                          if_(lt(var("a"), var("k")), [ret(add(var("k"), num(50)))])]))
        if r.random() < 0.7:
            body.append(ret(num(99)))
        prog = [func("f", Params([("a", None)]), body), emit(self.p(), inspect(call("f", [("p", num(x))])))]
        return prog, "return"

    def closure_program(self):
        r = self.rng
        prog = [decl("v", ident("g1"))]
        prog.append(func("rd", Params(), [ret(var("v"))]))
        prog.append(mixin("mrd", Params(), [emit(self.p(), var("v"))]))
        if r.random() < 0.5:
            prog.append(decl("v", ident("g2")))                 # later write to the global is seen
        use = [emit(self.p(), call("rd", [])), incl("mrd")]
        shape = r.choice(["rule", "mixin-param", "fn-param", "content", "media"])
        if shape == "rule":
            prog.append(rule([decl("v", ident("loc"))] + use + [emit(self.p(), var("v"))]))
        elif shape == "media":
            prog.append(media([decl("v", ident("loc"))] + use + [emit(self.p(), var("v"))]))
        elif shape == "mixin-param":
            prog.append(mixin("outer", Params([("v", None)]), use + [emit(self.p(), var("v"))]))
            prog.append(incl("outer", [("p", ident("arg"))]))
        elif shape == "fn-param":
            prog.append(func("outer", Params([("v", None)]), [ret(lst([call("rd", []), var("v")], comma=False))]))
            prog.append(emit(self.p(), inspect(call("outer", [("p", ident("arg"))]))))
        else:
            prog.append(mixin("w", Params(), [decl("v", ident("inw")), content()]))
            prog.append(rule([decl("v", ident("site")), incl("w", [], use + [emit(self.p(), var("v"))])]))
        prog.append(emit(self.p(), var("v")))
        return prog, "closure-" + shape

    def content_program(self):
        r = self.rng
        prog = [decl("v", ident("gv"))]
        using = Params()
        cargs = []
        shape = r.choice(["plain", "using", "using-default", "using-rest", "noblock", "nested", "mixin-local", "too-many"])
        body_reads = [emit(self.p(), var("v"))]
        if shape in ("using", "using-default", "using-rest", "too-many"):
            if shape == "using":
                using = Params([("x", None), ("y", None)])
                cargs = [("p", var("q")), ("n", "y", self.atom())] if r.random() < 0.5 else [("p", var("q")), ("p", self.atom())]
                body_reads += [emit(self.p(), var("x")), emit(self.p(), var("y"))]
            elif shape == "using-default":
                using = Params([("x", None), ("y", add(var("x"), num(1)))])
                cargs = [("p", num(r.randint(1, 5)))]
                body_reads += [emit(self.p(), var("x")), emit(self.p(), var("y"))]
            elif shape == "using-rest":
                using = Params([("x", None)], "r")
                cargs = [("p", self.atom()), ("p", self.atom()), ("n", "k", self.atom())]
                body_reads += [emit(self.p(), var("x")), emit(self.p(), inspect(var("r"))), emit(self.p(), inspect(keywords(var("r"))))]
            else:
                using = Params([("x", None)])
                cargs = [("p", self.atom()), ("p", self.atom())]
                body_reads += [emit(self.p(), var("x"))]
        mbody = [decl("loc", ident("in-m")), emit(self.p(), var("q")), content(cargs)]
        if r.random() < 0.4:
            mbody.append(rule([content(cargs)]))
        prog.append(mixin("m", Params([("q", None)]), mbody))
        if shape == "noblock":
            prog.append(rule([incl("m", [("p", self.atom())])]))
        elif shape == "nested":
            prog.append(mixin("inner", Params(), [emit(self.p(), ident("inner")), content()]))
            blk = body_reads + [incl("inner", [], [emit(self.p(), var("v"))])]
            prog.append(rule([decl("v", ident("site")), incl("m", [("p", self.atom())], blk)]))
        elif shape == "mixin-local":
            # the block must not see the mixin's own locals / parameters
            blk = body_reads + [emit(self.p(), var(r.choice(["loc", "q"])))]
            prog.append(rule([decl("v", ident("site")), incl("m", [("p", self.atom())], blk)]))
        else:
            site = [decl("v", ident("site"))] if r.random() < 0.7 else []
            prog.append(rule(site + [incl("m", [("p", self.atom())], body_reads, using)]))
        return prog, "content-" + shape


def grid():
    """small exhaustive grid: every signature shape x every call shape (fixed values)"""
    import random
    for k in range(0, 4):
        for ndef in range(0, k + 1):
            for rest in (False, True):
                names = PNAMES[:k]
                ps = [(n, (None if i < k - ndef else (num(50 + i) if i == 0 else add(var(names[i - 1]), num(1)))))
                      for i, n in enumerate(names)]
                sig = Params(ps, "r" if rest else None)
                for npos in range(0, k + 2):
                    for named_mask in range(0, 1 << max(0, k)):
                        named = [names[i] for i in range(k) if named_mask >> i & 1]
                        if len(named) > 2:
                            continue
                        for extra in (None, "zz"):
                            g = Gen(random.Random(0))
                            args = [("p", num(i + 1)) for i in range(npos)]
                            args += [("n", swap(n), num(20 + i)) for i, n in enumerate(named)]
                            if extra:
                                args.append(("n", extra, num(30)))
                            prog = [mixin("m", sig, g.observe_mixin(sig)), incl("m", args)]
                            yield Case(program_line(prog), "grid")


def fixed():
    g = Gen(__import__("random").Random(0))
    f3 = Params([("a", None), ("b", add(var("a"), num(1)))], "r")
    obs = lambda: g.observe_mixin(f3)
    shapes = {
        "dup-with-rest": [mixin("m", f3, obs()), incl("m", [("p", num(1)), ("n", "a", num(2))])],
        "only-named-rest": [mixin("m", Params([], "r"), [emit("p1", inspect(var("r"))), emit("p2", inspect(keywords(var("r"))))]),
                            incl("m", [("n", "r", num(6))])],
        "dup-no-rest": [mixin("m", Params([("a", None), ("b", num(0))]), [emit("p1", var("a"))]), incl("m", [("p", num(1)), ("n", "a", num(2))])],
        "order": [mixin("m", f3, obs()), incl("m", [("p", num(1)), ("p", num(2)), ("p", num(3)), ("n", "k-k", num(4))])],
        "dash": [mixin("m", Params([("c-d", None), ("e_f", num(2))]), [emit("p1", var("c_d")), emit("p2", var("e-f"))]),
                 incl("m", [("n", "c_d", num(1)), ("n", "e-f", num(5))])],
        "default-sees-earlier": [mixin("m", f3, obs()), incl("m", [("p", num(4))])],
    }
    fd = Params([("a", None), ("b", ident("dflt-b")), ("c-d", var("b"))], "r")
    def obsd(): return g.observe_mixin(fd)
    req = Params([("a", None), ("b", None)])
    for bn, bv in (("null", NULL), ("empty-string", qstr("")), ("false", FALSE)):
        shapes.update({
            f"blank-{bn}-map-splat": [mixin("m", fd, obsd()), incl("m", [("p", num(1)), ("s", mp([("b", bv), ("k", bv)]))])],
            f"blank-{bn}-named": [mixin("m", fd, obsd()), incl("m", [("p", num(1)), ("n", "b", bv), ("n", "k", bv)])],
            f"blank-{bn}-positional": [mixin("m", fd, obsd()), incl("m", [("p", num(1)), ("p", bv), ("p", num(3)), ("p", bv)])],
            f"blank-{bn}-list-splat": [mixin("m", fd, obsd()), incl("m", [("s", lst([num(1), bv, num(3), bv]))])],
            f"blank-{bn}-required-map-splat": [mixin("m", req, [emit("p1", inspect(var("a"))), emit("p2", inspect(var("b")))]),
                                               incl("m", [("p", num(1)), ("s", mp([("b", bv)]))])],
            f"blank-{bn}-fn-map-splat": [func("f", fd, [ret(inspect(lst([var("a"), var("b"), var("c-d")], comma=True)))]),
                                         func("kw", fd, [ret(inspect(keywords(var("r"))))]),
                                         emit("p1", call("f", [("p", num(1)), ("s", mp([("b", bv), ("k", bv)]))])),
                                         emit("p2", call("kw", [("p", num(1)), ("s", mp([("b", bv), ("k", bv)]))]))],
            f"blank-{bn}-content-map-splat": [mixin("m", Params(), [content([("s", mp([("w", bv)]))])]),
                                              incl("m", [], [emit("p1", inspect(var("w")))], Params([("w", num(1))]))],
            f"blank-{bn}-content-named": [mixin("m", Params(), [content([("n", "w", bv)])]),
                                          incl("m", [], [emit("p1", inspect(var("w")))], Params([("w", num(1))]))],
            f"blank-{bn}-content-positional": [mixin("m", Params(), [content([("p", bv), ("p", bv)])]),
                                               incl("m", [], [emit("p1", inspect(var("w"))), emit("p2", inspect(var("r")))], Params([("w", num(1))], "r"))],
            f"blank-{bn}-forwarded": [mixin("m", fd, obsd()), mixin("w", Params([], "args"), [incl("m", [("s", var("args"))])]),
                                      incl("w", [("p", num(1)), ("n", "b", bv), ("n", "k", bv)])],
        })
    for name, prog in shapes.items():
        yield Case(program_line(prog), "fixed", {"shape": name})


def gen(tier, rng, boost=1):
    yield from fixed()
    if boost == 1:
        yield from grid()
    n = (1200 if tier == "quick" else 15000) * boost
    for i in range(n):
        g = Gen(rng)
        k = rng.random()
        if k < 0.6:
            prog, s = g.binding_program()
        elif k < 0.72:
            prog, s = g.return_program()
        elif k < 0.86:
            prog, s = g.closure_program()
        else:
            prog, s = g.content_program()
        yield Case(program_line(prog), s)


def judge(case, impl, asis, spec):
    ic = canon_impl(impl)
    if asis is None or asis == "skip":
        return Verdict(True, None)
    if asis == "fuel" or spec == "fuel":
        return Verdict(False, None)
    corr = True if asis == "unmodelled" else (ic == asis)
    if not corr and spec.startswith("unspec:") and ic is not None and (
            ic == "err" or (ic.startswith("ok:") and ic[3:].startswith(spec[len("unspec:"):]))):
        # past the point where the run becomes unspecified the as-is model (which mirrors the
        # scope *structure* of today's code) need not be reproduced by a repaired implementation
        corr = True
    if ic is None or not (ic.startswith("ok:") or ic == "err"):
        return Verdict(corr, "crash: " + str(impl)[:60])
    fails = None
    if spec == "unmodelled":
        pass
    elif spec.startswith("unspec:"):
        prefix = spec[len("unspec:"):]
        if ic.startswith("ok:") and not ic[3:].startswith(prefix):
            fails = "emitted declarations differ from the specified ones"
    elif ic != spec:
        fails = f"binding differs from the specification: got {ic} expected {spec}"
    return Verdict(corr, fails)


def nontrivial(case, impl, spec):
    return bool(spec) and spec.startswith("ok:") and len(spec) > 3


ALLQ = ["restSwallowsDup", "onlyNamedRest"]

LEVEL_TEXT = ("Proof (Lean 4): model of FormalArgs::eval / CallArgs::evaluate / Closure::eval_value / MixinDecl::get / "
              "define_content+get_content inside the heap-of-scopes evaluator; theorems: binding order, the error decision "
              "logic stated outright, first @return wins, closures run below their definition scope, @content runs below the "
              "include-site scope, no block emits nothing; tied to the code by differential execution of generated programs.")
LEVEL_NOTE = ("Trusted: Lean kernel; the SCSS/term double printing of the generator; extraction of declarations from the CSS "
              "text. Error text is not compared. Programs sensitive to the C16 scoping deviations are skipped here.")
TECHNIQUE = "Lean 4 theorems over the executable argument-binding model and evaluator + differential correspondence"
