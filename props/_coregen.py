"""Shared by C16 / C18: one AST, printed as SCSS text (for rsass) and as the prefix term
read by lean/RsassModel/Core/Term.lean (for the model), plus the canonical form of a
compiled stylesheet (sequence of emitted `pN: value` declarations)."""
import re
from tools.vlib import hx, unhx


# ---------------------------------------------------------------- expressions
class E:
    def __init__(self, kind, *a):
        self.kind, self.a = kind, a

    def scss(self):
        k, a = self.kind, self.a
        if k == "null":
            return "null"
        if k == "bool":
            return "true" if a[0] else "false"
        if k == "num":
            return str(a[0]) if a[0] >= 0 else f"({a[0]})"
        if k == "var":
            return "$" + a[0]
        if k == "ident":
            return a[0] if a[0] else 'unquote("")'
        if k == "qstr":
            return '"' + a[0] + '"'
        if k == "blist":
            xs, comma = a
            if len(xs) == 1 and comma:
                return f"[{xs[0].scss()},]"
            return "[" + (", " if comma else " ").join(x.scss() for x in xs) + "]"
        if k in ("+", "<", "=="):
            return f"({a[0].scss()} {k} {a[1].scss()})"
        if k == "list":
            xs, comma = a
            if not xs:
                return "()"
            if len(xs) == 1:
                return f"({xs[0].scss()},)" if comma else xs[0].scss()
            return "(" + (", " if comma else " ").join(x.scss() for x in xs) + ")"
        if k == "map":
            return "(" + ", ".join(f"{key}: {v.scss()}" for key, v in a[0]) + ")"
        if k == "call":
            return f"{a[0]}({args_scss(a[1])})"
        if k in ("inspect", "keywords"):
            return f"{k}({a[0].scss()})"
        raise ValueError(k)

    def term(self):
        k, a = self.kind, self.a
        if k == "null":
            return "null"
        if k == "bool":
            return "true" if a[0] else "false"
        if k == "num":
            return str(a[0])
        if k == "var":
            return "$" + a[0]
        if k == "ident":
            return "'" + a[0]
        if k == "qstr":
            return '"' + a[0]
        if k == "blist":
            xs, comma = a
            return "(blist " + ("c" if comma else "s") + "".join(" " + x.term() for x in xs) + ")"
        if k in ("+", "<", "=="):
            return f"({k} {a[0].term()} {a[1].term()})"
        if k == "list":
            xs, comma = a
            return "(list " + ("c" if comma else "s") + "".join(" " + x.term() for x in xs) + ")"
        if k == "map":
            return "(map" + "".join(f" ({key} {v.term()})" for key, v in a[0]) + ")"
        if k == "call":
            return f"(call {a[0]}{args_term(a[1])})"
        if k in ("inspect", "keywords"):
            return f"({k} {a[0].term()})"
        raise ValueError(k)


def num(n): return E("num", n)
def var(x): return E("var", x)
def ident(s): return E("ident", s)
def add(a, b): return E("+", a, b)
def lt(a, b): return E("<", a, b)
def eq(a, b): return E("==", a, b)
def lst(xs, comma=True): return E("list", list(xs), comma)
def blst(xs, comma=True): return E("blist", list(xs), comma)
def qstr(s): return E("qstr", s)
def mp(kv): return E("map", list(kv))
def call(f, args): return E("call", f, list(args))
def inspect(e): return E("inspect", e)
def keywords(e): return E("keywords", e)
NULL, TRUE, FALSE = E("null"), E("bool", True), E("bool", False)


# arguments: ("p", e) | ("n", name, e) | ("s", e)
def args_scss(args):
    out = []
    for a in args:
        if a[0] == "p":
            out.append(a[1].scss())
        elif a[0] == "n":
            out.append(f"${a[1]}: {a[2].scss()}")
        else:
            out.append(a[1].scss() + "...")
    return ", ".join(out)


def args_term(args):
    out = ""
    for a in args:
        if a[0] == "p":
            out += f" (p {a[1].term()})"
        elif a[0] == "n":
            out += f" (n {a[1]} {a[2].term()})"
        else:
            out += f" (s {a[1].term()})"
    return out


class Params:
    """ps: list of (name, default E or None); rest: name or None"""

    def __init__(self, ps=(), rest=None):
        self.ps, self.rest = list(ps), rest

    def scss(self):
        out = [f"${n}" + (f": {d.scss()}" if d is not None else "") for n, d in self.ps]
        if self.rest:
            out.append(f"${self.rest}...")
        return ", ".join(out)

    def term(self):
        out = "(params"
        for n, d in self.ps:
            out += f" (p {n} {d.term()})" if d is not None else f" (p {n})"
        if self.rest:
            out += f" (rest {self.rest})"
        return out + ")"


# ---------------------------------------------------------------- statements
class S:
    def __init__(self, kind, *a):
        self.kind, self.a = kind, a

    def scss(self):
        k, a = self.kind, self.a
        if k == "decl":
            x, e, d, g = a
            return f"${x}: {e.scss()}" + (" !default" if d else "") + (" !global" if g else "") + ";"
        if k == "emit":
            return f"r{{{a[0]}: {a[1].scss()}}}"
        if k == "rule":
            return "a{" + body_scss(a[0]) + "}"
        if k == "media":
            return "@media screen{" + body_scss(a[0]) + "}"
        if k == "atrule":
            return "@supports (a: b){" + body_scss(a[0]) + "}"
        if k == "if":
            s = f"@if {a[0].scss()} {{" + body_scss(a[1]) + "}"
            if a[2]:
                s += " @else {" + body_scss(a[2]) + "}"
            return s
        if k == "each":
            return f"@each ${a[0]} in {a[1].scss()} {{" + body_scss(a[2]) + "}"
        if k == "for":
            x, lo, hi, incl, b = a
            return f"@for ${x} from {lo.scss()} {'through' if incl else 'to'} {hi.scss()} {{" + body_scss(b) + "}"
        if k == "while":
            return f"@while {a[0].scss()} {{" + body_scss(a[1]) + "}"
        if k == "mixin":
            return f"@mixin {a[0]}({a[1].scss()}) {{" + body_scss(a[2]) + "}"
        if k == "func":
            return f"@function {a[0]}({a[1].scss()}) {{" + body_scss(a[2]) + "}"
        if k == "ret":
            return f"@return {a[0].scss()};"
        if k == "incl":
            m, args, has_block, using, block = a
            s = f"@include {m}({args_scss(args)})"
            if has_block:
                if using.ps or using.rest:
                    s += f" using ({using.scss()})"
                return s + " {" + body_scss(block) + "}"
            return s + ";"
        if k == "content":
            return f"@content({args_scss(a[0])});" if a[0] else "@content;"
        raise ValueError(k)

    def term(self):
        k, a = self.kind, self.a
        if k == "decl":
            x, e, d, g = a
            return f"(decl {x} {e.term()} {int(bool(d))} {int(bool(g))})"
        if k == "emit":
            return f"(emit {a[0]} {a[1].term()})"
        if k in ("rule", "media", "atrule"):
            return f"({k}{body_term(a[0])})"
        if k == "if":
            return f"(if {a[0].term()} (then{body_term(a[1])}) (else{body_term(a[2])}))"
        if k == "each":
            return f"(each {a[0]} {a[1].term()}{body_term(a[2])})"
        if k == "for":
            x, lo, hi, incl, b = a
            return f"(for {x} {lo.term()} {hi.term()} {int(bool(incl))}{body_term(b)})"
        if k == "while":
            return f"(while {a[0].term()}{body_term(a[1])})"
        if k in ("mixin", "func"):
            return f"({k} {a[0]} {a[1].term()}{body_term(a[2])})"
        if k == "ret":
            return f"(ret {a[0].term()})"
        if k == "incl":
            m, args, has_block, using, block = a
            return f"(incl {m} (args{args_term(args)}) {int(bool(has_block))} {using.term()}{body_term(block)})"
        if k == "content":
            return f"(content{args_term(a[0])})"
        raise ValueError(k)


def body_scss(b):
    return " ".join(s.scss() for s in b)


def body_term(b):
    return "".join(" " + s.term() for s in b)


def decl(x, e, dflt=False, glob=False): return S("decl", x, e, dflt, glob)
def emit(p, e): return S("emit", p, e)
def rule(b): return S("rule", list(b))
def media(b): return S("media", list(b))
def atrule(b): return S("atrule", list(b))
def if_(c, t, e=()): return S("if", c, list(t), list(e))
def each(x, e, b): return S("each", x, e, list(b))
def for_(x, lo, hi, incl, b): return S("for", x, lo, hi, incl, list(b))
def while_(c, b): return S("while", c, list(b))
def mixin(m, ps, b): return S("mixin", m, ps, list(b))
def func(f, ps, b): return S("func", f, ps, list(b))
def ret(e): return S("ret", e)
def incl(m, args=(), block=None, using=None): return S("incl", m, list(args), block is not None, using or Params(), list(block or []))
def content(args=()): return S("content", list(args))


def program_line(prog, style="e"):
    """one protocol line for the generic `compile` op; field 8 carries the term for the model"""
    src = "\n".join(s.scss() for s in prog) + "\n"
    term = "(prog" + body_term(prog) + ")"
    return "\t".join(["compile", "scss", style, "10", "in.scss", hx(src), "", "", term])


DECL = re.compile(r"^\s*(p\d+): (.*);$")


def canon_impl(impl):
    """harness answer -> `ok:p1=..;p2=..;` | `err` | the crash marker"""
    if impl is None:
        return None
    if impl.startswith("ok:"):
        css = unhx(impl[3:])
        out = ""
        for line in css.split("\n"):
            m = DECL.match(line)
            if m:
                out += f"{m.group(1)}={m.group(2)};"
        return "ok:" + out
    if impl.startswith("err:"):
        return "err"
    return impl


def source_of(line):
    return unhx(line.split("\t")[5])
