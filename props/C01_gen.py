"""Case generation for C01: grammar-based SCSS/CSS programs, nesting towers, numeric extremes through
every built-in function, mutations of the sass-spec inputs, noise, and the guard-logic ops.
Every random choice comes from the `rng` passed in."""
import os
import re

from tools import vlib
from tools.vlib import Case

MAX_BYTES = 64 * 1024
MAX_DEPTH = 64

# --------------------------------------------------------------------------------------
# bounds of the property


def raw_depth(src):
    """upper bound of the combined nesting depth: bracket depth over the raw bytes"""
    d = m = 0
    for c in src:
        if c in b"{([":
            d += 1
            if d > m:
                m = d
        elif c in b"})]":
            if d > 0:
                d -= 1
    return m


def in_bounds(src):
    return len(src) <= MAX_BYTES and raw_depth(src) <= MAX_DEPTH


_LOOP = re.compile(rb"@while|\d{5,}|e\+?\d{2,}|@for[^{;]*\$|math\.pow|\bpow\(|\*\s*\d{3,}", re.I)


def may_run_long(src):
    """inputs whose loops are not obviously small are not explored (hang / memory, outside the statement)"""
    if b"@while" in src:
        return True
    for m in re.finditer(rb"@for\b([^{]*)\{", src):
        hdr = m.group(1)
        nums = re.findall(rb"-?\d+(?:\.\d+)?(?:e[+-]?\d+)?", hdr, re.I)
        if b"$" in hdr.split(b"from", 1)[-1] or b"(" in hdr or b"#{" in hdr:
            return True
        try:
            vals = [float(n) for n in nums]
        except ValueError:
            return True
        if len(vals) < 2:
            return True
        lo, hi = min(vals), max(vals)
        if hi - lo > 3000:
            return True
    return False


_IDENT = rb"[A-Za-z_][-A-Za-z0-9_]*"


def has_user_recursion(src):
    """static over-approximation: some user-defined function/mixin can reach itself.
    (call graph over @function / @mixin bodies by name; dynamic calls count as 'calls anything')"""
    defs = {}
    for m in re.finditer(rb"@(function|mixin)\s+(" + _IDENT + rb")", src):
        kind, name = m.group(1), m.group(2).replace(b"_", b"-")
        # body = up to the matching brace
        i = src.find(b"{", m.end())
        if i < 0:
            continue
        depth, j = 0, i
        while j < len(src):
            if src[j:j + 1] == b"{":
                depth += 1
            elif src[j:j + 1] == b"}":
                depth -= 1
                if depth == 0:
                    break
            j += 1
        defs.setdefault((kind, name), b"")
        defs[(kind, name)] += src[i:j + 1]
    if not defs:
        return False
    dynamic = re.compile(rb"\bcall\s*\(|get-function|get-mixin|\bapply\s*\(")
    edges = {}
    for key, body in defs.items():
        out = set()
        for (k2, n2) in defs:
            pat = (rb"(?<![-\w])" + re.escape(n2).replace(rb"\-", rb"[-_]") + rb"\s*\(") if k2 == b"function" else \
                  (rb"@include\s+(?:" + _IDENT + rb"\.)?" + re.escape(n2).replace(rb"\-", rb"[-_]") + rb"(?![-\w])")
            if re.search(pat, body):
                out.add((k2, n2))
        if dynamic.search(body):
            out |= set(defs)
        edges[key] = out
    # cycle detection
    state = {}

    def visit(u):
        state[u] = 1
        for v in edges.get(u, ()):
            if state.get(v) == 1 or (v not in state and visit(v)):
                return True
        state[u] = 2
        return False

    return any(visit(u) for u in list(defs) if u not in state)


# --------------------------------------------------------------------------------------
# inputs embedded in rsass/tests/spec/**/*.rs

_ESC = {"n": "\n", "r": "\r", "t": "\t", "\\": "\\", '"': '"', "'": "'", "0": "\0"}


def _rust_str(text, i):
    """parse a Rust string literal starting at text[i] == '"'; returns (value, end)"""
    out = []
    i += 1
    n = len(text)
    while i < n:
        c = text[i]
        if c == '"':
            return "".join(out), i + 1
        if c == "\\":
            d = text[i + 1]
            if d == "\n":
                i += 2
                while i < n and text[i] in " \t\n\r":
                    i += 1
                continue
            if d == "x":
                out.append(chr(int(text[i + 2:i + 4], 16)))
                i += 4
                continue
            if d == "u":
                j = text.index("}", i)
                out.append(chr(int(text[i + 3:j].replace("_", ""), 16)))
                i = j + 1
                continue
            out.append(_ESC.get(d, d))
            i += 2
            continue
        out.append(c)
        i += 1
    return "".join(out), n


_SPEC_CACHE = {}


def spec_inputs():
    root = os.path.join(vlib.REPO, "rsass", "tests", "spec")
    if root in _SPEC_CACHE:
        return _SPEC_CACHE[root]
    res = []
    seen = set()
    pat = re.compile(r'\.(?:ok|err)\(\s*(r#*)?"')
    for d, dirs, files in sorted(os.walk(root)):
        dirs.sort()
        for fn in sorted(files):
            if not fn.endswith(".rs"):
                continue
            try:
                text = open(os.path.join(d, fn), encoding="utf-8").read()
            except (OSError, UnicodeDecodeError):
                continue
            for m in pat.finditer(text):
                if m.group(1):
                    hashes = m.group(1)[1:]
                    end = text.find('"' + hashes, m.end())
                    s = text[m.end():end]
                else:
                    try:
                        s, _ = _rust_str(text, m.end() - 1)
                    except (ValueError, IndexError):
                        continue
                b = s.encode("utf-8", "surrogatepass") if s else b""
                if b and b not in seen and len(b) <= MAX_BYTES:
                    seen.add(b)
                    res.append(b)
    _SPEC_CACHE[root] = res
    return res


# --------------------------------------------------------------------------------------
# built-in functions (names and parameter names from the source)

_FN_CACHE = {}


def builtin_functions():
    root = os.path.join(vlib.REPO, "rsass", "src", "sass", "functions")
    if root in _FN_CACHE:
        return _FN_CACHE[root]
    fns = []
    for d, dirs, files in sorted(os.walk(root)):
        dirs.sort()
        for fn in sorted(files):
            if not fn.endswith(".rs"):
                continue
            rel = os.path.relpath(os.path.join(d, fn), root)
            mod = rel.split(os.sep)[0].replace(".rs", "")
            if mod not in ("color", "list", "map", "math", "meta", "selector", "string"):
                continue
            src = open(os.path.join(d, fn), encoding="utf-8").read()
            for m in re.finditer(r"def(_va)?!\(\s*(\w+),\s*([a-z_0-9]+)\(([^)]*)\)", src):
                va, target, name, args = m.groups()
                params = [a.split("=")[0].strip() for a in args.split(",") if a.strip()]
                fns.append((mod if target != "global" else "", name.replace("_", "-"), params, bool(va)))
    if not fns:
        fns = [("math", "abs", ["number"], False)]
    _FN_CACHE[root] = fns
    return fns


GLOBAL_FNS = """rgb rgba hsl hsla hwb red green blue hue saturation lightness alpha opacity mix lighten darken saturate
desaturate adjust-hue complement invert grayscale opacify fade-in transparentize fade-out adjust-color scale-color
change-color ie-hex-str unquote quote str-length str-insert str-index str-slice to-upper-case to-lower-case percentage
round ceil floor abs min max random unit unitless comparable length nth set-nth join append zip index list-separator
is-bracketed map-get map-merge map-remove map-keys map-values map-has-key keywords feature-exists variable-exists
global-variable-exists function-exists mixin-exists inspect type-of call get-function content-exists if unique-id
selector-nest selector-append selector-extend selector-replace selector-unify is-superselector simple-selectors
selector-parse calc clamp sin cos tan asin acos atan atan2 sqrt pow log exp sign mod rem hypot url var env
element expression translate lab lch oklab oklch color color-mix""".split()

NUMS = ["0", "1", "-1", "2", "3", "10", "0.5", "-0.5", "1.5", "100", "255", "256", "360", "-360", "1e3", "1e-3", "1e15",
        "1e16", "1e18", "1e19", "1e20", "1e308", "1e309", "1e-320", "-1e308", "9223372036854775807", "-9223372036854775808",
        "9223372036854775808", "9223372036854774784", "4503599627370495.5", "4503599627370496", "9007199254740993",
        "0.1", "0.30000000000000004", "0.9999999999999999", "1.0000000000000002", "99.99999999999999", "2147483647",
        "2147483648", "-2147483649", "4294967296", "18446744073709551615", "18446744073709551616", ".5", "5.", "1e", "00", "-0"]
UNITS = ["", "", "", "px", "%", "em", "deg", "rad", "turn", "s", "ms", "in", "cm", "mm", "pt", "pc", "q", "dpi", "dppx", "hz",
         "khz", "fr", "x", "grad", "vw", "rem", "foo", "px*px", "e1", "_"]
NAN = ["math.div(0,0)", "math.div(1,0)", "math.div(-1,0)", "calc(NaN)", "calc(infinity)", "calc(-infinity)",
       "math.sqrt(-1)", "math.log(0)", "math.acos(2)", "(0/0)", "math.$max-number", "math.$min-number",
       "math.$max-safe-integer", "math.$epsilon", "math.$pi", "math.div(0,0)*1%", "math.div(0,0)*1px", "math.div(0,0)*1deg"]
IDENTS = ["a", "b", "c", "d", "x", "y", "foo", "bar", "baz", "red", "blue", "transparent", "none", "auto", "inherit", "-a",
          "--x", "_b", "a-b", "a_b", "not", "and", "or", "from", "through", "to", "in", "null", "true", "false", "if",
          "calc", "url", "min", "max", "infinity", "NaN", "pi", "e", "é", "\\61", "\\0", "a\\ b", "\\31 0", "U+0-7F", "U+4??",
          "progid", "expression", "element", "important", "default", "global", "optional", "else", "each", "root"]
COLORS = ["#000", "#fff", "#abc", "#abcd", "#aabbcc", "#aabbccdd", "#ab", "#abcde", "#xyz", "red", "blue", "transparent",
          "rebeccapurple", "hsl(0, 50%, 50%)", "hsl(120deg 10% 20% / .5)", "hwb(90 10% 20%)", "rgb(1 2 3 / 4%)", "rgba(#000, .5)",
          "hsl(math.div(0,0), 50%, 50%)", "hsl(0, math.div(0,0)*1%, 50%)", "hsl(0, 50%, math.div(0,0)*1%)",
          "hwb(math.div(0,0) 10% 20%)", "hwb(0 math.div(0,0)*1% 20%)", "rgb(math.div(0,0), 0, 0)", "rgba(0, 0, 0, math.div(0,0))",
          "hsla(0, 0%, 0%, math.div(0,0))", "hsl(1e308, 1e308%, 1e308%)", "rgb(1e308, -1e308, 0)", "lab(50% 1 2)", "color(srgb 1 0 0)"]
STRINGS = ['""', '"a"', "'a'", '"a b"', '"\\""', "'\\''", '"#{1}"', '"\\61"', '"\\a"', '"\\10ffff"', '"\\110000"', '"\\0"', '"\\d800"',
           '"\\ "', '"a\\\nb"', '"é"', '"\U0001F600"', '"\\1F600 x"', '"/*"', '"//"', '"}"', '"{"', '"#{"', '"%"', '"&"', '"a,b"',
           '"*"', '".a"', '"a b > c"', '":not(a)"', '"&b"', '"a, b"', '"@media"', '"100"', '"1px"', '"-"', '"--"', '" "', '"\t"']
SELECTORS = ["a", "b", ".a", "#a", "*", "a b", "a > b", "a + b", "a ~ b", "a, b", "&", "& b", "&-x", "&.a", "&:hover", "&b", "& + &",
             "a&", ":not(a)", ":not(&)", ":is(a, b)", ":where(.a)", ":has(> a)", ":nth-child(2n+1)", ":nth-child(2n + 1 of .a)",
             "::before", "a::after", ":host(a)", ":host-context(a b)", "[a]", "[a=b]", '[a="b" i]', "[a|b~=c]", "*|a", "a|*", "|a",
             "%p", "%p a", "a %p", "> a", "a >", "+ a", "~ a", "a > > b", "@a", "1", "10%", "from", "to", "50.5%", "a:b", "a :b",
             ":a(", ":not(", "a[", "#{a}", "a#{b}", "#{&}", "#{&}-x", ".#{a}", ":not(#{a})", "&#{&}", "a\\:b", ".\\31", "é", "a,,b",
             ",a", "a,", "*.a", "*#a", "*:a", "*[a]", "a[b]", "a:not(b)", ":is(a)", "a:nth-child(1)", "::slotted(a)", "a::b(c)"]
CLEAN_SELECTORS = ["a", "b", ".a", "#a", "*", "a b", "a > b", "a + b", "a ~ b", "a, b", "&", "& b", "&-x", "&.a", "&:hover", "& + &",
                   ":not(a)", ":not(&)", ":is(a, b)", ":where(.a)", ":has(> a)", ":nth-child(2n+1)", "::before", "a::after", ":host(a)", "[a]",
                   "[a=b]", '[a="b" i]', "*|a", "%p", "%p a", "> a", "+ a", "#{a}", "a#{b}", "#{&}-x", ".#{a}", "*.a", "a[b]", "a:not(b)",
                   "&b", "a&", ".a.b", "a:hover", "&__e", "&--m", "a[b]", ":not(.a)", "a:nth-child(2)"]
ATRULES = ["@a", "@a b", "@media x", "@media screen and (min-width: 1px)", "@media (a: b) and (c: d)", "@media not x", "@media x, y",
           "@media (1px < width <= 2px)", "@media #{a}", "@media (a: #{1 + 1})", "@supports (a: b)", "@supports not (a: b)",
           "@supports (a: b) or (c: d)", "@supports a(b)", "@at-root", "@at-root (with: media)", "@at-root (without: all)",
           "@at-root (without: rule)", "@at-root a", "@keyframes k", "@-webkit-keyframes k", "@font-face", "@page :first",
           "@document url(x)", "@layer a", "@container (a > 1px)", "@scope (a) to (b)", "@starting-style", "@property --x",
           "@namespace a url(b)", "@counter-style x", "@viewport", "@-moz-document url-prefix()", "@#{a}", "@a #{b}", "@unknown (x) y [z]"]
DICT = [b"{", b"}", b"(", b")", b"[", b"]", b"#{", b"}", b";", b":", b",", b"&", b"*", b"@", b"$", b"%", b"!", b"\\", b"\"", b"'", b"/*", b"*/",
        b"//", b"\n", b" ", b"...", b"@if ", b"@else ", b"@each $x in ", b"@for $i from 1 through 3", b"@function f()", b"@return ",
        b"@mixin m", b"@include m", b"@content", b"@media ", b"@supports ", b"@at-root ", b"@extend ", b"@use \"sass:math\";",
        b"@import ", b"@forward ", b"@debug ", b"@warn ", b"@error ", b"@charset ", b"!important", b"!default", b"!global", b"!optional",
        b"calc(", b"url(", b"var(", b"min(", b"max(", b"clamp(", b"if(", b"not ", b" and ", b" or ", b"==", b"!=", b"<=", b">=", b"+", b"-",
        b"/", b"%", b"1e308", b"9223372036854775807", b"-9223372036854775808", b"NaN", b"infinity", b"math.div(0,0)", b"null",
        b"&b", b"*{", b"#{&}", b"\xff", b"\x00", b"\xc3", b"\xef\xbb\xbf", b"\xe2\x80\xa8", b"\r\n", b"\t", b"\x0c", b"U+", b"--x:",
        b":not(", b"::", b"%p", b"@extend %p;", b"progid:", b"expression(", b"\\", b"\\\n", b"\\0 ", b"\\110000 "]


class Gen:
    def __init__(self, rng):
        self.r = rng
        self.fns = builtin_functions()
        self.noisy = False   # False: only constructs that parse; True: also broken tokens
        self._was_decl = False

    def alt(self, clean, noisy):
        """pick from `clean`, or (in noisy mode) from clean + noisy"""
        return self.pick(clean + noisy) if self.noisy else self.pick(clean)

    def pick(self, xs):
        return xs[self.r.randrange(len(xs))]

    # ---- expressions ------------------------------------------------------------
    def number(self):
        r = self.r
        k = r.random()
        if k < 0.5:
            n = self.pick(NUMS)
        elif k < 0.75:
            n = str(r.randint(-20, 300))
        elif k < 0.9:
            n = f"{r.uniform(-1000, 1000):.{r.randint(0, 17)}f}"
        else:
            n = str(r.randint(-10 ** r.randint(1, 40), 10 ** r.randint(1, 40)))
        return n + self.pick(UNITS)

    def atom(self):
        r = self.r
        k = r.random()
        if k < 0.30:
            return self.number()
        if k < 0.42:
            return self.alt(["a", "b", "c", "d", "x", "foo", "bar", "red", "blue", "transparent", "none", "auto", "inherit", "-a", "--x", "_b", "a-b",
                             "a_b", "é", "\\61", "a\\ b", "infinity", "NaN", "pi", "e"], IDENTS)
        if k < 0.52:
            return self.pick(STRINGS)
        if k < 0.62:
            return self.pick(COLORS)
        if k < 0.70:
            return self.pick(NAN)
        if k < 0.80:
            return "$" + self.alt(["a", "b", "c", "x", "a", "b"], ["undefined", "a-b", "a_b", "args", "m.a", "math.pi"])
        if k < 0.84:
            return self.alt(["&", "null", "true", "false", "()", "[]", "U+26"], ["(,)", "[,]", "!important", "*", "/", "%", "#", ".."])
        if k < 0.90:
            return self.pick(['"' + self.pick(SELECTORS).replace('"', "'") + '"'])
        return self.alt(["url(a)", "url(\"a\")", "url(a#{b})", "var(--x)", "env(a)", "progid:a.b(c=d)",
                         "expression(a+b)", "element(#a)", "translate(1px)", "-webkit-calc(1 + 2)", "unknown(1, $a: 2)"], ["url(", "var(--x,)"])

    def call(self, d):
        r = self.r
        if r.random() < 0.75:
            mod, name, params, va = self.pick(self.fns)
            full = (mod + "." if mod and r.random() < 0.8 else "") + name
            if not mod or "." not in full:
                if r.random() < 0.5:
                    full = self.pick(GLOBAL_FNS)
        else:
            full, params, va = self.pick(GLOBAL_FNS), ["a", "b"], True
        n = len(params)
        k = r.random()
        if k < 0.7:
            cnt = n
        elif k < 0.85:
            cnt = r.randint(0, n + 2)
        else:
            cnt = r.randint(0, 5)
        args = []
        for i in range(cnt):
            a = self.expr(d - 1, small=True)
            if i < n and r.random() < 0.15:
                a = "$" + params[i].replace("_", "-") + ": " + a
            args.append(a)
        if r.random() < 0.05:
            args.append(self.expr(d - 1, small=True) + "...")
        return full + "(" + ", ".join(args) + ")"

    def expr(self, d, small=False):
        """d = nesting levels this expression may still open"""
        r = self.r
        if d <= 0:
            return self.atom()
        k = r.random()
        if k < (0.45 if small else 0.3):
            return self.atom()
        if k < 0.55:
            op = self.alt([" + ", " - ", " * ", " / ", " % ", " == ", " != ", " < ", " > ", " <= ", " >= ", " and ", " or ", "+", "-", "/", "*",
                           " ", ", "], [" , ", "- ", " -", "=", " = "])
            return self.expr(d, True) + op + self.expr(d, True)
        if k < 0.60:
            return self.alt(["not ", "-", "+", "- "], ["/", "not", "+ "]) + self.expr(d, True)
        if k < 0.68:
            return "(" + self.expr(d - 1) + ")"
        if k < 0.72:
            return "[" + self.expr(d - 1) + "]"
        if k < 0.78:
            n = r.randint(0, 3)
            return "(" + ", ".join(self.expr(d - 1, True) + ": " + self.expr(d - 1, True) for _ in range(n)) + ")"
        if k < 0.86:
            return self.call(d)
        if k < 0.91:
            pre, post = self.alt([("", ""), ("a", ""), ("-", ""), ("a-", "b"), ("", "px"), ("", "-c"), ('"', '"'), ("url(", ")"), ('"a', 'b"')],
                                 [("#", ""), ('"', ""), ("calc(", ""), ("", ")")])
            return pre + "#{" + self.expr(d - 1) + "}" + post
        if k < 0.95:
            return self.pick(["calc", "min", "max", "clamp", "calc", "math.abs", "round", "sin", "hypot", "mod", "rem", "atan2", "pow", "log"]) + \
                "(" + self.alt(["", "1px + ", "2 * ", "1% - ", "10 / ", "var(--a) + "], ["1 +", "- "]) + self.expr(d - 1, True) + \
                self.pick(["", "", ", 1", ", 1, 2", " + 1px", " * 2", " - 1%", " / 0"]) + ")"
        return "if(" + self.expr(d - 1, True) + ", " + self.expr(d - 1, True) + ", " + self.expr(d - 1, True) + ")"

    # ---- selectors ----------------------------------------------------------------
    def selector(self, d):
        r = self.r
        n = 1 if r.random() < 0.7 else r.randint(2, 4)
        parts = []
        for _ in range(n):
            s = self.pick(SELECTORS) if self.noisy else self.pick(CLEAN_SELECTORS)
            if d > 1 and r.random() < 0.15:
                s = self.pick([":not(", ":is(", ":where(", ":has(", ":host(", ":nth-child(2n of ", "::slotted(", ":foo("]) + self.selector(d - 1) + ")"
            if d > 1 and r.random() < 0.1:
                s += "#{" + self.expr(d - 1, True) + "}"
            parts.append(s)
        return self.alt([", ", " ", " > ", ",", " + "], [""]).join(parts)

    # ---- statements ----------------------------------------------------------------
    def comment(self):
        r = self.r
        k = r.random()
        if k < 0.3:
            return "// " + self.pick(IDENTS) + "\n"
        body = self.pick(["a", "!a", "", "*", " a ", "#{1+1}", "#{$a}", "a\n", "/"])
        lines = r.randint(0, 3)
        for _ in range(lines):
            body += "\n" + " " * self.pick([0, 1, 2, 3, 4, 8, 40, 79, 80, 81, 82, 83, 84, 85, 100, 161, 200, 1000]) + self.pick(["* b", "b", "*", "", " ", "*/"[:1]])
        return "/*" + body + self.alt(["*/", " */", "*/\n", "**/"], [""])

    def decl(self, d):
        r = self.r
        k = r.random()
        name = self.alt(["b", "c", "color", "width", "font", "margin", "--x", "--y-z", "a-b", "#{a}", "a#{b}-c", "-#{a}", "filter", "src", "grid-area"], ["*zoom", "_a"])
        if name.startswith("--") and k < 0.6:
            return name + ":" + self.alt([" a", "a", " { a: b }", " #{1 + 1}", " (1 + 1)", " [a]", " \"x\"", " a\n b", " url(x)"], ["", " ;", " {", " }"]) + ";"
        if k < 0.12 and d > 1:
            return name + ":" + self.pick(["", " ", " 1px "]) + "{" + self.body(d - 1, decls_only=True) + "}"
        return name + (self.pick([":", ": ", " : ", ":  "]) if self.noisy or not name.startswith("--") else ": ") + self.expr(min(d, 6)) + self.alt(["", "", "", " !important"], [" !default", " !global", " !foo"]) + self.alt([";", ";", ";", ";;"], [""])

    def stmt(self, d, decls_only=False, top=False):
        r = self.r
        if top and not self.noisy:
            # declarations are not allowed at the top level: wrap them
            s = self.stmt(d, decls_only)
            if self._was_decl:
                s = self.selector(2) + "{" + s + "}"
            return s
        self._was_decl = False
        if d <= 0:
            self._was_decl = True
            return self.decl(0)
        k = r.random()
        if decls_only or k < 0.22:
            self._was_decl = True
            return self.decl(d)
        if k < 0.27:
            return "$" + self.alt(["a", "b", "c", "x", "a-b"], ["math.pi", "m.a"]) + ": " + self.expr(min(d, 6)) + self.pick(["", "", " !default", " !global", " !default !global"]) + ";"
        if k < 0.45:
            return self.selector(min(d, 5)) + self.pick(["{", " {", " {\n"]) + self.body(d - 1) + "}"
        if k < 0.57:
            name = self.pick(ATRULES)
            if r.random() < 0.2:
                return name + self.pick([";", " " + self.expr(min(d, 3), True) + ";"])
            return name + self.pick(["{", " {"]) + self.body(d - 1) + "}"
        if k < 0.63:
            s = "@if " + self.expr(min(d, 4), True) + "{" + self.body(d - 1) + "}"
            while r.random() < 0.3:
                s += self.alt(["@else if ", " @else if ", "@else  if "], ["@elseif "]) + self.expr(min(d, 4), True) + "{" + self.body(d - 1) + "}"
            if r.random() < 0.4:
                s += self.pick(["@else", " @else ", "\n@else"]) + "{" + self.body(d - 1) + "}"
            return s
        if k < 0.68:
            vars_ = self.pick(["$x", "$x, $y", "$a", "$k, $v", "$x,$y,$z"])
            return "@each " + vars_ + " in " + self.pick(["a b c", "(a: 1, b: 2)", "1, 2", "()", "a", "$a", "(a b) (c d)", "[a, b]", self.expr(min(d, 3), True)]) + "{" + self.body(d - 1) + "}"
        if k < 0.73:
            lo = self.pick(["1", "0", "-2", "3", "1.0", "1px", "9223372036854775806", "9223372036854774784", "-9223372036854775808", "9223372036854775807", "1e19", "1.5", "a", "$a", "1em"])
            if lo in ("1", "0", "-2", "3", "1.0", "1px", "1.5", "a", "$a", "1em"):
                hi = self.pick(["3", "1", "0", "-1", "2px", "2em", "4.0", "2.5", "b", "null"])
            else:
                hi = self.pick(["9223372036854775807", "-9223372036854775808", "9223372036854775808", lo, "1e19"])
            return "@for $i from " + lo + self.pick([" through ", " to "]) + hi + "{" + self.body(d - 1) + "}"
        if k < 0.76:
            return "@function " + self.alt(["f", "g", "a-b", "f1", "f2"], ["calc", "url", "if", "not"]) + "(" + self.params(d) + "){" + \
                (self.body(d - 1) if self.noisy else "$r: " + self.expr(min(d, 3), True) + ";") + "@return " + self.expr(min(d, 4), True) + ";}"
        if k < 0.80:
            return "@mixin " + self.pick(["m", "n", "a-b", "m1"]) + self.pick(["", "(" + self.params(d) + ")"]) + "{" + self.body(d - 1) + self.pick(["", "@content;", "@content(1);"]) + "}"
        if k < 0.86:
            s = "@include " + self.alt(["m", "m", "m"], ["n", "a-b", "undefined", "m1", "meta.load-css(\"x\")", "math.x"])
            if r.random() < 0.5:
                s += "(" + ", ".join(self.expr(min(d, 3), True) for _ in range(r.randint(0, 3))) + ")"
            if r.random() < 0.3:
                s += self.pick(["", " using ($x)", " using ()"]) + "{" + self.body(d - 1) + "}"
            else:
                s += ";"
            return s
        if k < 0.89 and self.noisy:
            return "@extend " + self.pick(["a", ".a", "%p", "%q !optional", "a b", "a, .b", "&", "#{a}", "*", ":not(a)"]) + ";"
        if k < 0.92:
            return self.comment()
        if k < 0.94:
            return self.alt(["@debug ", "@warn "], ["@error "]) + self.expr(min(d, 3), True) + ";"
        if not self.noisy:
            self._was_decl = True
            return self.decl(d)
        if k < 0.96:
            return self.pick(['@use "sass:math";', '@use "sass:math" as m;', '@use "sass:color" as *;', '@use "sass:list";', '@use "sass:map";',
                              '@use "sass:meta";', '@use "sass:selector";', '@use "sass:string";', '@use "sass:math" with ($a: 1);',
                              '@use "x";', '@forward "sass:math";', '@forward "sass:math" as m-*;', '@forward "sass:math" show abs;',
                              '@import "a";', '@import "a.css";', '@import url(a);', '@import "a", "b" screen;', '@import "sass:math";',
                              '@charset "UTF-8";', "@import 'a' supports(a: b);", '@use "sass:nope";', '@use "sass:math" as math2; a{b:math2.$pi}'])
        if k < 0.98:
            return "@return " + self.expr(min(d, 3), True) + ";" if r.random() < 0.5 else "@content;"
        return self.pick(["@else{}", "}", "{", ";", "@", "@@a;", "a", "a:", "&", "$", "$a", "$a:", "#{", "@if", "@each $x", "@for $i", "@function", "@mixin",
                          "@include", "@media", "@media{", "@at-root{a{b:c}}", "@keyframes k{from{a:b}50%{a:c}to{a:d}}", "@font-face{a:b}"])

    def params(self, d):
        n = self.r.randint(0, 3)
        ps = []
        for i in range(n):
            p = "$" + self.pick(["a", "b", "c", "x", "args"])
            if self.r.random() < 0.3:
                p += ": " + self.expr(min(d, 2), True)
            ps.append(p)
        if self.r.random() < 0.15:
            ps.append("$rest...")
        return ", ".join(ps)

    def body(self, d, decls_only=False):
        r = self.r
        n = self.pick([0, 1, 1, 1, 2, 2, 3, 4]) if d > 0 else 1
        return self.pick(["", " ", "\n"]).join(self.stmt(d, decls_only) for _ in range(n))

    def program(self, d, n):
        head = ""
        if not self.noisy or self.r.random() < 0.8:
            head = '@use "sass:math";@use "sass:string";@use "sass:list";@use "sass:map";@use "sass:color";@use "sass:meta";@use "sass:selector";\n'
        if not self.noisy:
            head += ("$a: 1;$b: b;$c: red;$x: 2;$a: " + self.expr(2, True) + ";$b: " + self.atom() + ";$c: " + self.pick(COLORS) + ";$x: " + self.number() + ";"
                     "@mixin m($x: 1, $y...){" + self.body(1, decls_only=True) + "@content;}"
                     "@function f($x: 1, $y...){@return " + self.expr(2, True) + "}"
                     "@function g($x: 1){@return $x}@function f1($a: 0){@return $a}@function f2($a: 0){@return $a + 1}%p{a:b}\n")
        elif self.r.random() < 0.5:
            head += "$a: " + self.expr(2, True) + ";$b: " + self.atom() + ";@mixin m($x: 1){" + self.body(1) + "@content;}@function f($x: 1){@return " + self.expr(2, True) + "}%p{a:b}\n"
        return head + "\n".join(self.stmt(d, top=True) for _ in range(n))

    # ---- nesting towers --------------------------------------------------------------
    OPENERS = [("a{", "}"), ("@a{", "}"), ("@media x{", "}"), ("@supports (x:y){", "}"), ("@at-root{", "}"), ("@if true{", "}"),
               ("@each $x in a{", "}"), ("@for $i from 1 through 1{", "}"), ("@include m{", "}"), ("&-a{", "}"), ("& b{", "}"),
               ("b:{", "}"), ("@keyframes k{", "}"), ("@at-root a{", "}"), ("@media (a:b){", "}"), ("@layer a{", "}"), ("a, b{", "}")]
    EXPR_OPENERS = [("(", ")"), ("[", "]"), ("#{", "}"), ("f(", ")"), ("calc(", ")"), ("math.abs(", ")"), ("(a:", ")"), ("\"#{", "}\""),
                    ("if(true,", ",1)"), ("min(1,", ")"), ("a#{", "}b"), ("url(#{", "})"), ("not(", ")"), ("-(", ")"), ("(1 + ", ")"),
                    ("list.nth((", "),1)"), ("1,(", ")"), ("calc(1 + ", ")"), ("string.unquote(\"#{", "}\")"), ("meta.inspect(", ")")]
    SEL_OPENERS = [(":not(", ")"), (":is(", ")"), (":has(", ")"), (":where(a,", ")"), ("a:not(", ")"), ("::slotted(", ")"), (":host(", ")")]

    def tower(self, depth):
        """a program whose combined nesting depth is exactly `depth` (<= 64)"""
        r = self.r
        mode = r.random()
        pre = '@use "sass:math";@use "sass:list";@use "sass:string";@use "sass:meta";@mixin m{@content}\n'
        if mode < 0.45:
            # statement tower, possibly with an expression tower in the innermost declaration
            kinds = [self.pick(self.OPENERS)] if r.random() < 0.5 else self.OPENERS
            nb = depth if r.random() < 0.6 else r.randint(1, depth)
            ne = depth - nb
            op, cl = "", ""
            lists = 0
            for _ in range(nb):
                o, c = self.pick(kinds)
                if o == "a, b{":       # selector lists multiply: 2^n selectors, keep n small
                    lists += 1
                    if lists > 8:
                        o = "a{"
                op += o
                cl = c + cl
            inner = self.pick(["c:d", "c:d;", "b{c:d}", "", "/* x */", "/* x\n   y */", "@b;", "--x: y;", "@import url(x);", "@extend a;", "c:&"])
            if ne > 0:
                eo, ec = self.expr_tower(ne)
                inner = self.pick(["c:", "$v:", "@debug ", "@if ", "--x:", "@media ", "@a "]) + eo + "1" + ec + self.pick([";", "", "{}"])
            return pre + op + inner + cl
        if mode < 0.8:
            eo, ec = self.expr_tower(depth - 1)
            frames = [("a{b:", "}"), ("$v:", ";"), ("a{--x:", "}"), ("@if ", "{a{b:c}}"), ("@media ", "{a{b:c}}"), ("@a ", "{b{c:d}}"), ("a{b:c ", "}"),
                      ("@each $x in ", "{a{b:$x}}"), ("@function g(){@return ", "}a{b:g()}"), ("@include m(", "){}"), ("a{#{", "}:b}"), ("#{", "}{a:b}"),
                      ("@function g($a:", "){@return $a}a{b:g()}"), ("@debug ", ";"), ("a{b:meta.inspect(", ")}")]
            fo, fc = self.pick(frames)
            if r.random() < 0.15:
                fc = self.pick(["}", ";", "){}", "{}", ""])
            core = self.pick(["1", "a", "$x", '"s"', "&", "1px", "#abc"]) if r.random() < 0.9 else ""
            return pre + "$x: 1;" + fo + eo + core + ec + fc
        so, sc = "", ""
        kinds = [self.pick(self.SEL_OPENERS)] if r.random() < 0.5 else self.SEL_OPENERS
        for _ in range(depth - 1):
            o, c = self.pick(kinds)
            so += o
            sc = c + sc
        return pre + self.pick(["", "x{", "@extend ", "x{@extend "]) + so + self.pick(["a", "&", "*", ""]) + sc + self.pick(["{c:d}", "{c:d}}", ";", ";}"])

    def expr_tower(self, n):
        kinds = [self.pick(self.EXPR_OPENERS)] if self.r.random() < 0.5 else self.EXPR_OPENERS
        op, cl = "", ""
        for _ in range(n):
            o, c = self.pick(kinds)
            op += o
            cl = c + cl
        return op, cl

    # ---- every built-in with extreme arguments ---------------------------------------------
    def builtin_probe(self):
        r = self.r
        mod, name, params, va = self.pick(self.fns)
        full = (mod + "." if mod else "") + name
        pool = NUMS + NAN + COLORS + STRINGS + ["null", "()", "(a: 1)", "(a: (b: 2))", "a b c", "[a]", "a, b", "(a b, c d)", "&", "true",
                                                "meta.get-function(\"abs\")", "get-function(\"calc\", $css: true)",
                                                "call(get-function(\"calc\", $css: true), 1, 2)", "call(get-function(\"min\", $css: true))",
                                                "calc(1px + 1%)", "calc(var(--a))", "1px*1px", "math.div(1, 1px)", "-0.0", "1e-400"]
        n = len(params) if r.random() < 0.8 else r.randint(0, len(params) + 2)
        small = ["0", "1", "-1", "2", "-2", "3", "-3", "4", "-4", "5", "10", "-10", "100", "0.5", "1.5", "-0", "1e18", "-1e18",
                 "9223372036854775807", "-9223372036854775808", "math.div(0,0)", "math.div(1,0)", "null", "1px", "1%", "50%", "100%", "101%", "-1%"]
        lists = ["a b c", "(a, b, c)", "[a b]", "()", "(a,)", "a", "(a b) (c d)", "(a: 1, b: 2)", "1 2 3 4 5", "[]", "(a b c)...", "a/b"]
        maps = ["(a: 1)", "()", "(a: (b: (c: 1)))", "(a: 1, b: 2, c: 3)", "(1: a, 1px: b, red: c, (a b): d, null: e)", "a b", "((a: 1): 2)"]
        sels = ['"a"', '".a, .b"', '"a b > c"', '"*"', '"&"', '"a:not(.b)"', '"%p"', '":is(a, b)"', '"a[b=c]"', '""', "a b", "(a, b)", "(a b, c d)", '"a,"', '"> a"', '"a::before"']
        strs = STRINGS + ["abc", "a-b", '"abc"', '"äöü"', '"a\\62 c"', '"😀😀"', '"a" + "b"']

        def typed(pname):
            pn = pname.replace("_", "-")
            if any(k in pn for k in ("string", "substring", "insert", "separator", "name", "url", "module", "unit", "space", "method", "key")):
                return strs
            if any(k in pn for k in ("start", "end", "index", "limit", "amount", "weight", "alpha", "red", "green", "blue", "hue", "saturation",
                                     "lightness", "whiteness", "blackness", "degrees", "exponent", "base", "min", "max", "x", "y")) or pn in ("n", "number", "number1", "number2", "numbers", "value"):
                return small + NUMS
            if "list" in pn or pn in ("args", "lists", "channels", "keys", "val"):
                return lists
            if "map" in pn:
                return maps
            if "color" in pn:
                return COLORS
            if "selector" in pn or pn in ("super", "sub", "extendee", "extender", "original", "replacement"):
                return sels
            return pool

        args = []
        for i in range(n):
            a = self.pick(typed(params[i]) if i < len(params) and r.random() < 0.75 else pool)
            if a in NUMS and r.random() < 0.3:
                a += self.pick(UNITS)
            if i < len(params) and r.random() < 0.1:
                a = "$" + params[i].replace("_", "-") + ": " + a
            args.append(a)
        call = full + "(" + ", ".join(args) + ")"
        wrap = r.random()
        pre = '@use "sass:math";@use "sass:string";@use "sass:list";@use "sass:map";@use "sass:color";@use "sass:meta";@use "sass:selector";\n'
        if wrap < 0.6:
            return pre + "a{b:" + call + "}"
        if wrap < 0.7:
            return pre + "$v:" + call + ";a{b:meta.inspect($v);c:$v==$v;d:($v:1);e:#{$v}}"
        if wrap < 0.8:
            return pre + "a{b:calc(" + call + " + 1);c:min(" + call + ",1);d:-" + call + ";e:" + call + "*2;f:" + call + "==" + self.pick(pool) + "}"
        if wrap < 0.9:
            return pre + "@each $x in " + call + "{a{b:$x}}"
        return pre + "#{" + call + "}{a:b}@media #{" + call + "}{a{b:c}}"


# --------------------------------------------------------------------------------------
# mutation


def mutate(rng, src, pool):
    r = rng
    b = bytearray(src)
    for _ in range(r.choice([1, 1, 1, 2, 2, 3, 5])):
        k = r.random()
        n = len(b)
        if n == 0:
            b += r.choice(DICT)
            continue
        if k < 0.15:  # byte flip
            i = r.randrange(n)
            b[i] ^= 1 << r.randrange(8)
        elif k < 0.25:  # random byte
            b[r.randrange(n)] = r.randrange(256)
        elif k < 0.40:  # dictionary insertion
            i = r.randrange(n + 1)
            b[i:i] = r.choice(DICT)
        elif k < 0.50:  # truncation
            b = b[:r.randrange(n)]
        elif k < 0.60:  # delete a span
            i = r.randrange(n)
            j = min(n, i + r.choice([1, 1, 2, 4, 8, 16, 64]))
            del b[i:j]
        elif k < 0.72:  # duplicate a span
            i = r.randrange(n)
            j = min(n, i + r.choice([1, 2, 4, 8, 16, 32, 128]))
            t = r.randrange(n + 1)
            b[t:t] = b[i:j] * r.choice([1, 1, 2, 3, 8])
        elif k < 0.87:  # splice a token-ish span of another input
            o = pool[r.randrange(len(pool))]
            if o:
                i = r.randrange(len(o))
                j = min(len(o), i + r.choice([2, 4, 8, 16, 32, 64, 256]))
                t = r.randrange(n + 1)
                if r.random() < 0.5:
                    b[t:t] = o[i:j]
                else:
                    b[t:min(n, t + (j - i))] = o[i:j]
        elif k < 0.93:  # swap a number for an extreme one
            ms = list(re.finditer(rb"-?\d+(\.\d+)?", bytes(b)))
            if ms:
                m = ms[r.randrange(len(ms))]
                b[m.start():m.end()] = r.choice(NUMS).encode()
        else:  # replace a delimiter by another
            idx = [i for i, c in enumerate(b) if c in b"{}()[];:,&*\"'#"]
            if idx:
                b[idx[r.randrange(len(idx))]] = r.choice(b"{}()[];:,&*\"'#@$%!")
    return bytes(b)


# --------------------------------------------------------------------------------------
# guard-logic ops (small correspondence stratum around each modelled site)


def guard_cases(rng, tier):
    out = []
    # get_indent through block towers: all kinds x inner items x styles, depths around the boundary and up to 64
    depths = [0, 1, 2, 38, 39, 40, 41, 42, 43, 63, 64]
    for st in "eci":
        for inner in "rdeci":
            for dep in depths:
                for kind in ("a", "m", "s", "mix"):
                    if kind == "mix":
                        tower = "".join(rng.choice("ams") for _ in range(dep))
                    else:
                        tower = kind * dep
                    if dep == 0 and inner in "d":
                        continue
                    out.append(Case(f"panic.indent\t{st}\t{tower}\t{inner}", "guard-indent"))
    for st in "eci":
        for n in (0, 1, 5, 39, 40):
            for sp in (0, 1, 2, 3, 2 * n, 2 * n + 1, 2 * n + 2, 2 * n + 3, 2 * n + 79, 2 * n + 80, 2 * n + 81, 2 * n + 82, 2 * n + 83, 2 * n + 84, 200, 1000):
                for star in (0, 1):
                    out.append(Case(f"panic.comment\t{st}\t{n}\t{sp}\t{star}", "guard-comment"))
    # ValueRange::new : (from literal, to literal, inclusive, from as i64 after saturation, to as i64)
    MAX, MIN = 2 ** 63 - 1, -2 ** 63
    pts = [("1", 1), ("0", 0), ("-3", -3), ("5", 5), ("9223372036854775807", MAX), ("9223372036854774784", 2 ** 63 - 1024),
           ("-9223372036854775808", MIN), ("-9223372036854774784", -(2 ** 63 - 1024)), ("9223372036854775808", MAX)]
    for fl, fv in pts:
        for tl, tv in pts:
            for incl in (0, 1):
                if abs(tv - fv) > 2000:
                    continue  # the loop really runs: only short ranges are driven
                out.append(Case(f"panic.range\t{fl}\t{tl}\t{incl}\t{fv}\t{tv}", "guard-range"))
    chans = ["0", "10", "50", "nan"]
    alph = ["100", "50", "nan"]
    n = 0
    for h1 in chans:
        for s1 in ("50", "nan"):
            for l1 in ("50", "20", "nan"):
                for a1 in alph:
                    for h2 in chans:
                        for s2 in ("50", "nan"):
                            for l2 in ("50", "nan"):
                                n += 1
                                if tier == "quick" and (n * 7919) % 5:
                                    continue
                                out.append(Case(f"panic.cmpcolor\t{h1}\t{s1}\t{l1}\t{a1}\t{h2}\t{s2}\t{l2}\t{rng.choice(alph)}", "guard-cmpcolor"))
    parents = ["*", "a", ".a", "#a", "a.b", "a[x]", "a[x=y]", ":not(a)", "a:hover", "a::after", ":is(a,b)", "%p", "*|*", "a:nth-child(2n+1)", "*.a", "a b", "a > *", "a, *"]
    kids = ["b", "-b", "_b", ".b", "#b", ":hover", "[x]", "", " b", "1", "\\62", "b.c", "-", "--b", "é"]
    for p in parents:
        for k in kids:
            out.append(Case("panic.amp\t" + vlib.hx(p) + "\t" + vlib.hx(k), "guard-amp"))
    for k in range(0, 5):
        out.append(Case(f"panic.calcargs\t{k}", "guard-calcargs"))
    # Number display: 16 - ceil(log10 whole)  (C10's op; only ok/panic is judged here)
    import struct
    for w in [0, 1, 9, 10, 11, 99, 100, 10 ** 15, 10 ** 15 + 1, 2 ** 52 - 1, 2 ** 51, 2 ** 50 + 3, 999999999999999, 4503599627370495]:
        for fr in (0.5, 0.25, 0.0):
            x = float(w) + fr
            bits = struct.unpack("<Q", struct.pack("<d", x))[0]
            for p in (0, 1, 10, 16, 20):
                out.append(Case(f"numfmt\t{bits}\t{p}\t{rng.choice('ec')}", "guard-numfmt"))
    return out


# --------------------------------------------------------------------------------------


def c01(src, rng, stratum, fmt=None, note=None):
    if isinstance(src, str):
        src = src.encode("utf-8", "surrogatepass")
    if fmt is None:
        fmt = "css" if rng.random() < 0.2 else "scss"
    style = rng.choice("eeecci")
    prec = rng.choice([0, 1, 2, 5, 10, 10, 10, 16, 17, 20]) if rng.random() < 0.7 else rng.randint(0, 20)
    return Case(f"c01\t{fmt}\t{style}\t{prec}\t{src.hex()}", stratum, note)


def generate(tier, rng, boost=1):
    g = Gen(rng)
    quick = tier == "quick"
    scale = (3 if quick else 30) * boost
    for c in guard_cases(rng, tier):
        yield c
    # fixed regressions of this exploration (kept small; the corpus directory holds the rest)
    seeds = ["*{&b{x:y}}", "@for $i from 9223372036854774784 through 9223372036854775807 {}", "@a{" * 41 + "b{c:d}" + "}" * 41,
             "/* a\n" + " " * 90 + "* b */", "@function f($n){@return f($n + 1)}\na{b:f(1)}", "@mixin m{@include m}\n@include m;",
             '@use "sass:math";a{b:hsl(math.div(0,0), 50%, 50%) == hsl(0, 50%, 50%)}',
             '$c: call(get-function("calc", $css: true), 1, 2); a{b:calc($c)}', "", "a", "{", "}", "\xef\xbb\xbf", "@charset \"x\";"]
    for s in seeds:
        for fmt in ("scss", "css"):
            for st in "eci":
                yield Case(f"c01\t{fmt}\t{st}\t10\t{s.encode('utf-8', 'surrogatepass').hex()}", "seed")

    def emit(src, stratum, fmt=None):
        if isinstance(src, str):
            src = src.encode("utf-8", "surrogatepass")
        if not in_bounds(src) or may_run_long(src):
            return None
        # unbounded user recursion aborts the worker (known finding); every abort costs a worker
        # restart, so only a small share of the recursion candidates is run
        if has_user_recursion(src) and rng.random() > 0.03:
            return None
        return c01(src, rng, stratum, fmt)

    # 1. nesting towers: every depth 1..64 (exhaustive in depth, random in kind)
    for rep in range(2 * scale):
        for depth in range(1, MAX_DEPTH + 1):
            c = emit(g.tower(depth), "tower")
            if c:
                yield c
    # 2. grammar programs
    for i in range(3500 * scale):
        k = rng.random()
        if k < 0.7:
            d, n = rng.randint(1, 5), rng.randint(1, 6)
        elif k < 0.95:
            d, n = rng.randint(4, 12), rng.randint(1, 4)
        else:
            d, n = rng.randint(12, 40), rng.randint(1, 2)
        g.noisy = rng.random() < 0.3
        c = emit(g.program(d, n), "grammar-noisy" if g.noisy else "grammar")
        g.noisy = False
        if c:
            yield c
    # 3. built-ins with extreme arguments
    for i in range(3500 * scale):
        c = emit(g.builtin_probe(), "builtin")
        if c:
            yield c
    # 4. expressions alone
    for i in range(1500 * scale):
        g.noisy = rng.random() < 0.3
        e = g.expr(rng.randint(1, 8))
        g.noisy = False
        c = emit('@use "sass:math";@use "sass:string";@use "sass:list";@use "sass:map";@use "sass:color";@use "sass:meta";@use "sass:selector";\n'
                 + rng.choice(["a{b:%s}", "$v:%s;a{b:$v}", "a{b:#{%s}}", "@if %s{a{b:c}}", "a{--x:#{%s}}", "@media (a:%s){a{b:c}}", "#{%s}{a:b}",
                               "a{b:calc(%s)}", "@debug %s;", "@each $x in %s{a{b:$x}}", "a{b:meta.inspect(%s)}", "@error %s;"]) % e, "expr")
        if c:
            yield c
    # 5. selectors alone (nesting / & / extend)
    for i in range(1200 * scale):
        g.noisy = rng.random() < 0.4
        s1, s2, s3 = g.selector(3), g.selector(3), g.selector(2)
        g.noisy = False
        tpl = rng.choice(["%s{%s{c:d}}", "%s{%s{%s{c:d}}}", "%s{c:d}%s{@extend %s;}", "%s{@at-root %s{c:d}}", "%s{@media x{%s{c:d}}}",
                          "%s{c:d}\n%s{e:f}", "@use \"sass:selector\";a{b:selector.nest(\"%s\",\"%s\")}", "@use \"sass:selector\";a{b:selector.extend(\"%s\",\"%s\",\"%s\")}",
                          "@use \"sass:selector\";a{b:selector.unify(\"%s\",\"%s\")}", "@use \"sass:selector\";a{b:selector.append(\"%s\",\"%s\")}",
                          "@use \"sass:selector\";a{b:selector.replace(\"%s\",\"%s\",\"%s\")}", "@use \"sass:selector\";a{b:selector.is-superselector(\"%s\",\"%s\")}",
                          "%s{b:&;@at-root #{&}-x{c:d}}"])
        cnt = tpl.count("%s")
        c = emit(tpl % tuple([s1, s2, s3][:cnt]), "selector")
        if c:
            yield c
    # 6. comments with many indentations inside block towers
    for i in range(300 * scale):
        n = rng.choice([0, 0, 1, 2, 5, 20, 39, 40])
        src = "".join(rng.choice(["@a{", "a{", "@media x{"]) for _ in range(n)) + g.comment() + rng.choice(["", "b:c;", g.comment()]) + "}" * n
        c = emit(src, "comment")
        if c:
            yield c
    # 7. sass-spec inputs: as they are, and mutated
    pool = spec_inputs()
    if pool:
        for i in range(1500 * scale):
            src = pool[rng.randrange(len(pool))]
            c = emit(src, "spec")
            if c:
                yield c
        for i in range(7000 * scale):
            src = mutate(rng, pool[rng.randrange(len(pool))], pool)
            c = emit(src, "spec-mutation")
            if c:
                yield c
    # 8. mutated grammar programs and noise
    for i in range(1200 * scale):
        g.noisy = rng.random() < 0.3
        src = mutate(rng, g.program(rng.randint(1, 6), rng.randint(1, 4)).encode("utf-8", "surrogatepass"), pool or [b"a{b:c}"])
        g.noisy = False
        c = emit(src, "grammar-mutation")
        if c:
            yield c
    for i in range(400 * scale):
        k = rng.random()
        if k < 0.4:
            src = bytes(rng.randrange(256) for _ in range(rng.choice([1, 2, 3, 8, 32, 200])))
        elif k < 0.8:
            src = b"".join(rng.choice(DICT) for _ in range(rng.choice([1, 2, 3, 5, 10, 40])))
        else:
            src = rng.choice([b"a{b:c}", b"/*", b"a{b:\"", b"@media "]) * rng.choice([1, 2, 100, 1000, 5000])
        c = emit(src, "noise")
        if c:
            yield c
    # 9. large inputs (close to 64 KiB)
    for i in range(6 * scale):
        unit = g.program(rng.randint(1, 4), rng.randint(1, 3))
        reps = max(1, (MAX_BYTES - 200) // max(1, len(unit.encode("utf-8", "surrogatepass")) + 1))
        c = emit("\n".join([unit] * rng.randint(max(1, reps // 2), reps)), "large")
        if c:
            yield c
