"""C02 — Module loading terminates; only real cycles are loop errors."""
import itertools
from tools.vlib import Case, Verdict
from props import _load as L

ID = "C02"
DRIVER = "drv_C02"
THEOREM_MODS = ["RsassModel.Theorems.C02"]
LEVEL = "proof"
ALWAYS_QUIRKS = L.FamilyFlags(ID)
EXHAUSTIVE = {"quick": True, "thorough": True}
CASE_TIMEOUT = 60

KIND_CODES = "iufl"
SPELL = ["{n}", "./{n}", "d/../{n}"]
NAMES = ["in", "a", "b", "c", "e", "g"]

RULE = ("file graphs: files in.scss, a.scss, b.scss, ... in one directory (plus d/x.scss so that `d/..` resolves); "
        "for every ordered pair of files (self loops included) at most one load statement of kind "
        "@import/@use/@forward/meta.load-css spelled `n`, `./n` or `d/../n`. quick: every graph over 2 files (13^4) and "
        "every 3-file graph with at most 2 edges, + 1500 random 3..6-file graphs; thorough: additionally every 3-file graph "
        "with 3 edges and 20000 random 3..6-file graphs; plus every 2-file graph with at most 2 edges using the spelling "
        "`d//../n`. non-trivial = at least 2 edges and the specification does not "
        "stop at an unrelated error")
TRUSTED = ["harness/src/ops/c02.rs (virtual loader, SCSS rendering, divergence guard: a compilation that makes more than "
           "400 loader calls on a graph of at most 7 files is reported as diverging instead of waiting for the real stack "
           "overflow; the registered witness runs without the guard and really overflows)",
           "props/_load.py: Python statement of C02 (DFS with canonical file identity), compared with the Lean spec model "
           "on every case"]
ASSUMPTIONS = ["the loader is a parameter: POSIX path resolution without symlinks, case-sensitive",
               "8 MiB stack (harness thread) for the unguarded witness"]


SPELL_EMPTY = ["{n}", "d//../{n}", "./{n}"]


def graph_case(n, edges, stratum, rng=None, spell=SPELL):
    """edges: list of (src index, dst index, kind code, spelling index), executed in list order per file"""
    files = []
    for i in range(n):
        items = ["m"] + [k + spell[s].format(n=NAMES[j]) for (a, j, k, s) in edges if a == i]
        files.append((NAMES[i] + ".scss", items))
    files.append(("d/x.scss", ["m"]))
    return Case(L.line(files), stratum, {"n": n, "edges": len(edges)})


OPTIONS = [None] + [(k, s) for k in KIND_CODES for s in range(3)]


def all_graphs(n, max_edges):
    pairs = [(i, j) for i in range(n) for j in range(n)]
    for ne in range(0, max_edges + 1):
        for chosen in itertools.combinations(pairs, ne):
            for opts in itertools.product(OPTIONS[1:], repeat=ne):
                yield [(i, j, k, s) for (i, j), (k, s) in zip(chosen, opts)]


def gen(tier, rng, boost=1):
    quick = tier == "quick"
    for edges in all_graphs(2, 4):
        yield graph_case(2, edges, "all-2-file")
    for edges in all_graphs(3, 2 if quick else 3):
        if any(3 > max(i, j) >= 2 for i, j, _, _ in edges) or not edges:
            yield graph_case(3, edges, "all-3-file")
    # spellings with an empty path segment (incomplete repair of 51f269b)
    for edges in all_graphs(2, 2):
        if any(s == 1 for _, _, _, s in edges) and all(s < 2 for _, _, _, s in edges):
            yield graph_case(2, edges, "empty-segment", spell=SPELL_EMPTY)
    nrand = (1500 if quick else 20000) * boost
    for _ in range(nrand):
        n = rng.randint(3, 6)
        ne = rng.randint(2, min(2 * n, 8))
        edges = []
        seen = set()
        acyclic_bias = rng.random() < 0.5
        for _ in range(ne):
            i, j = rng.randrange(n), rng.randrange(n)
            if acyclic_bias and j <= i:
                i, j = min(i, j), max(i, j)
                if i == j:
                    continue
            if (i, j) in seen:
                continue
            seen.add((i, j))
            edges.append((i, j, rng.choice(KIND_CODES), rng.choice([0, 0, 1, 2])))
        rng.shuffle(edges)
        yield graph_case(n, edges, "random-acyclic" if acyclic_bias else "random")


def statement(pc, im):
    if im.cls in ("abort", "panic", "bad"):
        return "compilation does not terminate with CSS or an error: " + im.raw[:40]
    cls, _ = L.spec_walk(pc)
    if cls == "loop" and im.cls != "loop":
        return f"a file that is already being loaded is loaded again and this is not reported as a loop error (got {im.cls})"
    if im.cls == "loop" and L.acyclic(pc):
        return "loop error on an acyclic set of files"
    return None


def judge(case, impl, asis, spec):
    pc = L.Parsed(case.lines[0])
    im = L.Impl(impl)
    L.consistency(pc, spec)
    return Verdict(L.corresponds(im, asis), statement(pc, im))


def nontrivial(case, impl, spec):
    return case.note.get("edges", 0) >= 2 and spec is not None and not spec.startswith("err")


LEVEL_TEXT = ("Proof (Lean 4) over a model of Context::transform/find_file/lock_loading/unlock_loading, Item::Use/Forward/"
              "Import and MixinDecl::LoadCss, generic in the name-resolution function: the loading set is the current load "
              "path (balanced, duplicate-free), loading terminates within depth |files|+2, a load of a file being loaded is "
              "a loop error, an acyclic set never gives a loop error; partial theorems and refutations for the code as it is "
              "(textual keys, load-css unlocking early). Tied to the code by exhaustive differential runs over file graphs "
              "(result class, loader-call trace, marker sequence).")
LEVEL_NOTE = ("Trusted: Lean kernel; harness virtual loader and rendering; the Python statement of C02; the divergence guard "
              "(400 loader calls) standing in for the stack overflow in generated cases.")
TECHNIQUE = "Lean 4 theorems over a fuel-bounded model of the load graph + exhaustive differential correspondence over small graphs"
