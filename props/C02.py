"""C02 — Module loading terminates; only real cycles are loop errors."""
import itertools
from tools.vlib import Case, Verdict
from props import _load as L

ID = "C02"
DRIVER = "drv_C02"
THEOREM_MODS = ["RsassModel.Theorems.C02"]
LEVEL = "proof"
ALWAYS_QUIRKS = L.FamilyFlags(ID)
EXHAUSTIVE = {"quick": True, "thorough": True}
CASE_TIMEOUT = 60

KIND_CODES = "iufl"
SPELL = ["{n}", "./{n}", "d/../{n}"]
NAMES = ["in", "a", "b", "c", "e", "g"]

RULE = ("file graphs: files in.scss, a.scss, b.scss, ... in one directory (plus d/x.scss so that `d/..` resolves); "
        "for every ordered pair of files (self loops included) at most one load statement of kind "
        "@import/@use/@forward/meta.load-css spelled `n`, `./n` or `d/../n`. quick: every graph over 2 files (13^4) and "
        "every 3-file graph with at most 2 edges, + 1500 random 3..6-file graphs; thorough: additionally every 3-file graph "
        "with 3 edges and 20000 random 3..6-file graphs; plus every 2-file graph with at most 2 edges using the spelling "
        "`d//../n`; a plain css file `x.css` as load target reached as `x`/`x.css` by every load kind up to three times per "
        "compilation (3285 exhaustive + 600 random); importers two directory levels deep (in.scss, w/_index.scss, "
        "w/f/i.scss, w/b.scss) with the spellings `..`, `./..`, `../x`, `./../x`, `x/..`, `.`: every reachable 1- and "
        "2-edge graph + 2500 random 3..5-edge graphs (cycles through `..` included). non-trivial = at least 2 edges and the specification does not "
        "stop at an unrelated error")
TRUSTED = ["harness/src/ops/c02.rs (virtual loader, SCSS rendering, divergence guard: a compilation that makes more than "
           "400 loader calls on a graph of at most 7 files is reported as diverging instead of waiting for the real stack "
           "overflow; the registered witness runs without the guard and really overflows)",
           "props/_load.py: Python statement of C02 (DFS with canonical file identity), compared with the Lean spec model "
           "on every case"]
ASSUMPTIONS = ["the loader is a parameter: POSIX path resolution without symlinks, case-sensitive",
               "8 MiB stack (harness thread) for the unguarded witness"]


SPELL_EMPTY = ["{n}", "d//../{n}", "./{n}"]


def graph_case(n, edges, stratum, rng=None, spell=SPELL):
    """edges: list of (src index, dst index, kind code, spelling index), executed in list order per file"""
    files = []
    for i in range(n):
        items = ["m"] + [k + spell[s].format(n=NAMES[j]) for (a, j, k, s) in edges if a == i]
        files.append((NAMES[i] + ".scss", items))
    files.append(("d/x.scss", ["m"]))
    return Case(L.line(files), stratum, {"n": n, "edges": len(edges)})


OPTIONS = [None] + [(k, s) for k in KIND_CODES for s in range(3)]


def all_graphs(n, max_edges):
    pairs = [(i, j) for i in range(n) for j in range(n)]
    for ne in range(0, max_edges + 1):
        for chosen in itertools.combinations(pairs, ne):
            for opts in itertools.product(OPTIONS[1:], repeat=ne):
                yield [(i, j, k, s) for (i, j), (k, s) in zip(chosen, opts)]


def gen(tier, rng, boost=1):
    quick = tier == "quick"
    for edges in all_graphs(2, 4):
        yield graph_case(2, edges, "all-2-file")
    for edges in all_graphs(3, 2 if quick else 3):
        if any(3 > max(i, j) >= 2 for i, j, _, _ in edges) or not edges:
            yield graph_case(3, edges, "all-3-file")
    # spellings with an empty path segment (incomplete repair of 51f269b)
    for edges in all_graphs(2, 2):
        if any(s == 1 for _, _, _, s in edges) and all(s < 2 for _, _, _, s in edges):
            yield graph_case(2, edges, "empty-segment", spell=SPELL_EMPTY)
    yield from css_target_cases(rng, quick, boost)
    yield from subdir_cases(rng, quick, boost)
    nrand = (1500 if quick else 20000) * boost
    for _ in range(nrand):
        n = rng.randint(3, 6)
        ne = rng.randint(2, min(2 * n, 8))
        edges = []
        seen = set()
        acyclic_bias = rng.random() < 0.5
        for _ in range(ne):
            i, j = rng.randrange(n), rng.randrange(n)
            if acyclic_bias and j <= i:
                i, j = min(i, j), max(i, j)
                if i == j:
                    continue
            if (i, j) in seen:
                continue
            seen.add((i, j))
            edges.append((i, j, rng.choice(KIND_CODES), rng.choice([0, 0, 1, 2])))
        rng.shuffle(edges)
        yield graph_case(n, edges, "random-acyclic" if acyclic_bias else "random")


def css_target_cases(rng, quick, boost):
    """a plain css file (x.css) as load target, reached as `x` and `x.css`, by every load kind, up to three
    times in one compilation (from the root and from a file the root loads)"""
    X = [k + u for k in KIND_CODES for u in ("x", "x.css")]
    once_twice = [[]] + [[x] for x in X] + [[x, y] for x in X for y in X]
    for ain in [None] + list(KIND_CODES):
        for inx in once_twice:
            for ax in [[]] + [[x] for x in X]:
                if ain is None and ax:
                    continue
                files = [("in.scss", ["m"] + ([ain + "a"] if ain else []) + inx), ("a.scss", ["m"] + ax), ("x.css", ["m"])]
                yield Case(L.line(files), "css-target", {"edges": len(inx) + len(ax) + (1 if ain else 0)})
    for _ in range((600 if quick else 6000) * boost):
        ain = rng.choice(KIND_CODES)
        inx, ax = rng.choice(once_twice), rng.choice(once_twice)
        files = [("in.scss", ["m"] + inx + [ain + rng.choice(["a", "./a"])]), ("a.scss", ["m"] + ax), ("x.css", ["m"])]
        yield Case(L.line(files), "css-target", {"edges": len(inx) + len(ax) + 1})


SUB_FILES = {"in": "in.scss", "w": "w/_index.scss", "i": "w/f/i.scss", "b": "w/b.scss"}
SUB_SPELL = {
    ("in", "w"): ["w", "w/f/..", "./w"], ("in", "i"): ["w/f/i", "w/./f/i"], ("in", "b"): ["w/b", "w/f/../b"],
    ("w", "i"): ["f/i", "./f/i"], ("w", "b"): ["b", "f/../b"], ("w", "w"): ["f/..", "../w", "."], ("w", "in"): ["../in"],
    ("i", "w"): ["..", "./..", "../../w"], ("i", "b"): ["../b", "./../b"], ("i", "i"): ["i", "../f/i"],
    ("i", "in"): ["../../in"],
    ("b", "w"): [".", "../w"], ("b", "i"): ["f/i"], ("b", "b"): ["b", "./b"], ("b", "in"): ["../in"],
}
SUB_EDGES = [(a, b, u) for (a, b), us in SUB_SPELL.items() for u in us]


def subdir_case(edges, stratum):
    """edges: list of (src, dst, url, kind code) — importers two directory levels deep, `..`, `../x`, `./../x`,
    `x/..` and `.` spellings"""
    files = [(SUB_FILES[n], ["m"] + [k + u for (a, _, u, k) in edges if a == n]) for n in ("in", "w", "i", "b")]
    return Case(L.line(files), stratum, {"edges": len(edges)})


def reachable(edges):
    seen, todo = {"in"}, ["in"]
    while todo:
        n = todo.pop()
        for a, b, _, _ in edges:
            if a == n and b not in seen:
                seen.add(b)
                todo.append(b)
    return all(a in seen for a, _, _, _ in edges)


def subdir_cases(rng, quick, boost):
    one = [(a, b, u, k) for (a, b, u) in SUB_EDGES for k in KIND_CODES]
    for e in one:
        if e[0] == "in":
            yield subdir_case([e], "subdir")
    for e1 in one:
        if e1[0] != "in":
            continue
        for e2 in one:
            if e2[0] in ("in", e1[1]) and (e2[0], e2[1]) != (e1[0], e1[1]) and e1[3] == e2[3] or \
                    (e2[0] == e1[1] and e2[1] in ("w", "in", e1[1]) and e1[0] != e2[0]):
                if reachable([e1, e2]):
                    yield subdir_case([e1, e2], "subdir")
    for _ in range((2500 if quick else 25000) * boost):
        n = rng.randint(3, 5)
        edges, seen = [], set()
        cur = {"in"}
        for _ in range(n):
            cands = [e for e in SUB_EDGES if e[0] in cur and (e[0], e[1]) not in seen]
            if not cands:
                break
            a, b, u = rng.choice(cands)
            seen.add((a, b))
            cur.add(b)
            edges.append((a, b, u, rng.choice(KIND_CODES)))
        yield subdir_case(edges, "subdir-random")


def statement(pc, im):
    if im.cls in ("abort", "panic", "bad"):
        return "compilation does not terminate with CSS or an error: " + im.raw[:40]
    cls, _ = L.spec_walk(pc)
    if cls == "loop" and im.cls != "loop":
        return f"a file that is already being loaded is loaded again and this is not reported as a loop error (got {im.cls})"
    if im.cls == "loop" and L.acyclic(pc):
        return "loop error on an acyclic set of files"
    return None


def judge(case, impl, asis, spec):
    pc = L.Parsed(case.lines[0])
    im = L.Impl(impl)
    L.consistency(pc, spec)
    return Verdict(L.corresponds(im, asis), statement(pc, im))


def nontrivial(case, impl, spec):
    return case.note.get("edges", 0) >= 2 and spec is not None and not spec.startswith("err")


LEVEL_TEXT = ("Proof (Lean 4) over a model of Context::transform/find_file/lock_loading/unlock_loading, Item::Use/Forward/"
              "Import and MixinDecl::LoadCss, generic in the name-resolution function: the loading set is the current load "
              "path (balanced, duplicate-free), loading terminates within depth |files|+2, a load of a file being loaded is "
              "a loop error, an acyclic set never gives a loop error; partial theorems and refutations for the code as it is "
              "(textual keys, load-css unlocking early). Tied to the code by exhaustive differential runs over file graphs "
              "(result class, loader-call trace, marker sequence).")
LEVEL_NOTE = ("Trusted: Lean kernel; harness virtual loader and rendering; the Python statement of C02; the divergence guard "
              "(400 loader calls) standing in for the stack overflow in generated cases.")
TECHNIQUE = "Lean 4 theorems over a fuel-bounded model of the load graph + exhaustive differential correspondence over small graphs"
