"""C08 — Expanded and compressed styles describe the same stylesheet.

Cases (one protocol line each, both styles compiled by the harness op `c08both`):
  c08both <css|scss> <hex src> - <tree e> <tree c>   generated css trees (generators of props/C07.py); the Lean
        model writes both styles and reports whether `Writer.norm` of the two outputs is equal
  c08both scss <hex src>                              generated SCSS programs / spec-corpus inputs (oracle only)
Oracle: both ok or both err with the same message; when ok, the token streams after normalisation
(`norm_tokens`: white space, comments, `;` before `}`, numeric leading zeros, colour notations) are equal.
Static guard (T3): every style-dependent site of rsass/src is one of the committed `SITES`.
"""
import os
import re
from tools.vlib import Case, Verdict, hx, unhx, REPO
from props import C07

ID = "C08"
DRIVER = "drv_C08"
THEOREM_MODS = ["RsassModel.Theorems.C08"]
LEVEL = "proof"
CASE_TIMEOUT = 60

_C07_FLAGS = None


def __getattr__(name):
    """ALWAYS_QUIRKS: the writer deviations (registered under C07) that are live in the current code — decided like
    vlib does it, by replaying the C07 witnesses — so that the as-is writer model used here tracks the code"""
    global _C07_FLAGS
    if name != "ALWAYS_QUIRKS":
        raise AttributeError(name)
    if _C07_FLAGS is None:
        from tools import vlib
        flags = set()
        fs = [f for f in vlib.load_findings("C07") if f.get("status") == "open"]
        outs = vlib.run_impl([f["witness"] for f in fs]) if fs else []
        for f, o in zip(fs, outs):
            if C07.oracle(o, f["witness"].split("\t")[1]) is not None:
                flags |= set(f.get("flags", []))
        _C07_FLAGS = sorted(flags)
    return _C07_FLAGS


# ----------------------------------------------------------------------------------------
# the tokenizer of the property
# ----------------------------------------------------------------------------------------
PUNCT = set("{};:,()[]>+~/!=*")
WS = set(" \t\r\n\x0c")
_COLORS = {}


def color_names():
    """name -> (r, g, b) from rsass/src/value/colors/rgba.rs (the table the code prints from)"""
    key = REPO
    if key not in _COLORS:
        tab = {}
        try:
            src = open(os.path.join(REPO, "rsass/src/value/colors/rgba.rs"), encoding="utf-8").read()
            for m in re.finditer(r'\("([a-z]+)",\s*0x([0-9a-fA-F]{6})\)', src):
                v = int(m.group(2), 16)
                tab[m.group(1)] = (v >> 16, (v >> 8) & 255, v & 255)
        except OSError:
            pass
        _COLORS[key] = tab
    return _COLORS[key]


class BadString(Exception):
    """a quoted string that is not closed on its line: the output cannot be tokenized as CSS"""


def lex(text):
    """-> list of tokens: ('s', string literal) ('p', char) ('w', word) ('sp',)  — comments dropped"""
    toks = []
    i, n = 0, len(text)
    while i < n:
        ch = text[i]
        if ch in WS:
            while i < n and text[i] in WS:
                i += 1
            toks.append(("sp",))
        elif text.startswith("/*", i):
            j = text.find("*/", i + 2)
            i = n if j < 0 else j + 2
            toks.append(("sp",))       # a comment separates words like white space does
        elif ch in "\"'":
            j = i + 1
            while j < n and text[j] != ch:
                if text[j] == "\n":
                    raise BadString()
                j += 2 if text[j] == "\\" else 1
            if j >= n:
                raise BadString()
            toks.append(("s", text[i:j + 1]))
            i = j + 1
        elif ch in PUNCT:
            toks.append(("p", ch))
            i += 1
        else:
            j = i
            while j < n and text[j] not in WS and text[j] not in PUNCT and text[j] not in "\"'" and not text.startswith("/*", j):
                j += 2 if text[j] == "\\" and j + 1 < n else 1
            toks.append(("w", text[i:j]))
            i = j
    return toks


HEX = re.compile(r"#([0-9a-fA-F]{3}|[0-9a-fA-F]{6})$")
LEADZ = re.compile(r"([-+]?)0+(\.\d)")


def norm_word(w):
    m = HEX.match(w)
    if m:
        h = m.group(1).lower()
        if len(h) == 3:
            h = "".join(c * 2 for c in h)
        return ("c", int(h[0:2], 16), int(h[2:4], 16), int(h[4:6], 16), 1)
    lw = w.lower()
    if lw == "transparent":
        return ("c", 0, 0, 0, 0)
    if lw in color_names():
        return ("c",) + color_names()[lw] + (1,)
    m = LEADZ.match(w)
    if m:
        return ("w", m.group(1) + w[m.start(2):])
    return ("w", w)


LEADZ_DEEP = re.compile(r"()0(\.\d)")   # explanation criterion only: every `0` directly before `.digit` is deleted


def prune_empty_blocks(toks):
    """structure normalisation: (1) remove rules / at-rules whose block is empty (it held only comments in one
    style); (2) merge adjacent sibling blocks with the same prelude (a rule is split around a nested rule; when
    the nested rule held only comments the compressed style does not split) — the declarations keep their order"""
    def parse(i, depth):
        items, cur = [], []
        while i < len(toks):
            t = toks[i]
            if t == ("p", "{"):
                children, i = parse(i + 1, depth + 1)
                items.append(("block", cur, children))
                cur = []
            elif t == ("p", "}"):
                if depth == 0:       # stray closing brace: keep as a token
                    cur.append(t)
                    i += 1
                    continue
                if cur:
                    items.append(("decl", cur))
                return items, i + 1
            elif t == ("p", ";"):
                items.append(("decl", cur + [t]))
                cur = []
                i += 1
            else:
                cur.append(t)
                i += 1
        if cur:
            items.append(("decl", cur))
        return items, i

    def strip_sp(p):
        return [t for t in p if t != ("sp",)] if False else p

    def simplify(items):
        out = []
        for it in items:
            if it[0] == "block":
                ch = simplify(it[2])
                if not ch:
                    continue
                if out and out[-1][0] == "block" and out[-1][1] == it[1]:
                    prev = out.pop()
                    body = prev[2]
                    if body and body[-1][0] == "decl" and body[-1][1][-1:] != [("p", ";")]:
                        body = body[:-1] + [("decl", body[-1][1] + [("p", ";")])]
                    out.append(("block", it[1], simplify(body + ch)))
                else:
                    out.append(("block", it[1], ch))
            elif it[1] and it[1] != [("p", ";")] or (it[1] == [("p", ";")] and False):
                out.append(it)
        return out

    def ser(items):
        res = []
        for it in items:
            if it[0] == "decl":
                res += it[1]
            else:
                res += it[1] + [("p", "{")] + ser(it[2]) + [("p", "}")]
        return res

    items, _ = parse(0, 0)
    return ser(simplify(items))


def norm_tokens(out, deep=False):
    """the property's normalisation of one output (deep: leading zeros also inside strings and words)"""
    if out.startswith(b"\xef\xbb\xbf"):
        out = out[3:]
    elif out.startswith(b'@charset "UTF-8";\n'):
        out = out[18:]
    toks = lex(LEADZ_DEEP.sub(r"\1\2", out.decode("utf-8", "replace")) if deep else out.decode("utf-8", "replace"))
    # white space: only significant between two non-punctuation tokens
    res = []
    for i, t in enumerate(toks):
        if t[0] == "sp":
            prev = res[-1] if res else None
            nxt = next((u for u in toks[i + 1:] if u[0] != "sp"), None)
            if prev is None or nxt is None or prev[0] == "sp" or (prev[0] == "p" and prev[1] != ")") \
                    or (nxt[0] == "p" and nxt[1] != "("):
                continue
            res.append(t)
        else:
            res.append(t)
    res = prune_empty_blocks(res)
    # `;` before `}` and at the end
    out2 = []
    for i, t in enumerate(res):
        if t == ("p", ";") and (i + 1 == len(res) or res[i + 1] in (("p", "}"), ("p", ";"))):
            continue
        out2.append(t)
    # words: leading zeros, colours
    out3 = [norm_word(t[1]) if t[0] == "w" else t for t in out2]
    # rgb(r, g, b) / rgba(0, 0, 0, 0) with integer channels -> colour
    out4 = []
    i = 0
    while i < len(out3):
        t = out3[i]
        if t[0] == "w" and t[1].lower() in ("rgb", "rgba") and i + 1 < len(out3) and out3[i + 1] == ("p", "("):
            j = i + 2
            args = []
            ok = True
            while j < len(out3) and out3[j] != ("p", ")"):
                if out3[j] == ("p", ","):
                    pass
                elif out3[j][0] == "w" and re.fullmatch(r"\d+", out3[j][1]):
                    args.append(int(out3[j][1]))
                else:
                    ok = False
                j += 1
            if ok and j < len(out3) and (len(args) == 3 or (len(args) == 4 and args == [0, 0, 0, 0])):
                out4.append(("c", args[0], args[1], args[2], 1 if len(args) == 3 else 0))
                i = j + 1
                continue
        out4.append(t)
        i += 1
    # a colour call that was followed by a space: `rgba(0, 0, 0, 0) x` vs `transparent x`
    out5 = []
    for i, t in enumerate(out4):
        if t[0] == "c" and i + 1 < len(out4) and out4[i + 1][0] in ("w", "s", "c") and (not out5 or out5[-1] != ("sp",)):
            out5 += [t, ("sp",)]
        elif t == ("sp",) and out5 and out5[-1] == ("sp",):
            continue
        else:
            out5.append(t)
    if deep:
        out5 = [("sp",) if t == ("p", ",") else t for t in out5]
        out5 = [("s", re.sub(r",\s*", ",", re.sub(r"rgba\(0,\s*0,\s*0,\s*0\)", "transparent", t[1]))) if t[0] == "s" else t for t in out5]
    return out5


def compare(res_e, res_c, deep=False):
    """the statement on one pair of results; None if it holds"""
    for r in (res_e, res_c):
        if r.startswith(("panic:", "abort:")):
            return None     # crashes are C01's subject
    ke, kc = res_e[:3], res_c[:3]
    if ke != kc:
        return f"expanded {'succeeds' if ke == 'ok:' else 'fails'} but compressed {'succeeds' if kc == 'ok:' else 'fails'}"
    if ke == "err":
        if deep:
            res_e, res_c = (LEADZ_DEEP.sub(r"\1\2", unhx(r[4:])) for r in (res_e, res_c))
        return None if res_e == res_c else "error message differs between the styles"
    try:
        te, tc = norm_tokens(bytes.fromhex(res_e[3:]), deep), norm_tokens(bytes.fromhex(res_c[3:]), deep)
    except BadString:
        return None     # an output with an unclosed string (interpolated quote) has no token stream to compare
    if te == tc:
        return None
    for i, (a, b) in enumerate(zip(te, tc)):
        if a != b:
            return f"token {i} differs: expanded {a!r} vs compressed {b!r}"
    return f"token streams differ in length ({len(te)} vs {len(tc)}): extra {(te + tc)[min(len(te), len(tc))]!r}"


# ----------------------------------------------------------------------------------------
# generators
# ----------------------------------------------------------------------------------------
NUMS = ["0.5", "-0.25em", "1.0", "10%", "0.125px", "100", "1/3", "math.div(1, 3)", "0.5 + 0.25", "-0.5", "1e-3", ".75", "0.0",
        "math.div(1, 0)", "2 * 0.05", "1.5px + 0.75px", "math.percentage(0.005)"]
COLS = ["red", "#f00", "#ff0000", "#FF0000", "rgb(255, 0, 0)", "rgba(0, 0, 0, 0)", "rgba(1, 2, 3, 0.5)", "hsl(120, 50%, 50%)",
        "lighten(red, 10%)", "mix(red, blue)", "transparent", "#abc", "#aabbcc", "#abcdef", "white", "#fff", "black", "#000",
        "rgb(0 0 0)", "rgba(255, 255, 255, 0.25)", "color.adjust(#123, $alpha: -0.5)", "blanchedalmond", "#ffebcd", "tan", "#d2b48c",
        "rgb(250, 250, 210)", "hsla(0, 0%, 0%, 0)", "invert(#123456)", "#0000", "#11223344", "rebeccapurple", "fuchsia", "magenta",
        "aqua", "cyan", "gray", "grey", "color.change(red, $alpha: 0)", "rgb(300, 0, 0)", "hwb(0 0% 0%)"]
STRS = ['"a b"', '"é"', "abc", '"it\'s"', "'q\"q'", '"a, b"', '"0.5"', '"#f00"', 'unquote("x  y")', '"\\61"', 'é', '"a\\\nb"',
        "url(a.png)", 'url("a b.png")', "U+0-7F", '"{"', '"/* x */"', "quote(red)",
        '"x#{0.5}"', '"#{(1, 2)}"', '"#{rgba(0,0,0,0)}"', "x#{0.25}y", '"#{0.5 red}"']
LISTS = ["1 2 3", "1, 2, 3", "(1 2), (3 4)", "[a b]", "[a, b]", "list.slash(1, 2)", "1 / 2", "a b, c d", "(a,)", "1px/2px",
         "list.join(1 2, 3 4, comma)", "list.append((), 0.5)", "null", "(null, 1)", "a 0.5 #f00", "0.5, 0.25", "red, #fff 0.5",
         "map.keys((a: 1, b: 2))", "(a: 1)", "f(0.5, red)", "foo(1 0.5, #f00)", "calc(1px + 0.5em)", "calc(0.5 * 2)", "min(0.5px, 1em)",
         "var(--x, 0.5)", "1 !important", "not true", "-$n", "+0.5", "$n * 2", "inspect((a: 0.5))", "inspect(0.5 red)", "$undefined",
         "a + 0.5", '"a" + 0.5', "0.5 == .5", "if(true, 0.5, red)", "nth(1 2, 3)", "1 % 0", "rgba(red, 0.5)", "$l"]
SELS = ["a", ".c", "#i", "a b", "a > b", "a ~ b", "a + b", "a, b", "a:hover", "a::before", "[x=y]", '[x="y z"]', "*", "a.b#c",
        ":not(.a, .b)", "a:nth-child(2n + 1)", ".é", "%p", "a,\n b", "> a", "a >", "& + &", "&:hover", "&-x", ".a &", "@at-root x"]
MEDIAQ = ["screen", "print and (min-width: 100px)", "(min-width: 0.5em)", "screen, print", "not all and (color)",
          "(width >= 600px)", "only screen and (max-width: #{0.5 * 100}px)", "screen and (a: #f00)"]


def gen_expr(rng):
    k = rng.random()
    if k < 0.25:
        return rng.choice(NUMS)
    if k < 0.5:
        return rng.choice(COLS)
    if k < 0.65:
        return rng.choice(STRS)
    if k < 0.9:
        return rng.choice(LISTS)
    return rng.choice(NUMS + COLS) + rng.choice([" ", ", ", " / "]) + rng.choice(NUMS + COLS + STRS)


def gen_body(rng, depth, in_rule):
    out = ""
    for _ in range(rng.choice([1, 2, 2, 3, 4])):
        k = rng.choice(["decl"] * 5 + ["rule", "rule", "media", "at", "comment", "loud", "custom", "ctl", "mixin", "err", "var", "nsprop",
                                         "supports", "keyframes", "fontface", "import", "charset", "extend", "debug"])
        if not in_rule and k in ("decl", "custom", "nsprop", "extend"):
            k = "rule"
        if depth >= 3 and k in ("rule", "media", "at", "ctl", "supports", "keyframes"):
            k = "decl" if in_rule else "comment"
        if k == "decl":
            out += rng.choice(["color", "b", "margin", "x-é", "width"]) + ": " + gen_expr(rng) + rng.choice(["", " !important"]) + ";\n"
        elif k == "custom":
            out += "--" + rng.choice(["x", "y-z"]) + ":" + rng.choice([" 0.5", " #f00", " {a: b}", "a,  b", " #{0.5 + 0.25}", ' "q"']) + ";\n"
        elif k == "nsprop":
            out += "font: { family: " + gen_expr(rng) + "; size: 0.5em; }\n"
        elif k == "rule":
            out += rng.choice(SELS) + " {\n" + gen_body(rng, depth + 1, True) + "}\n"
        elif k == "media":
            out += "@media " + rng.choice(MEDIAQ) + " {\n" + gen_body(rng, depth + 1, in_rule) + "}\n"
        elif k == "supports":
            out += "@supports " + rng.choice(["(a: b)", "not (a: 0.5)", "(a: b) and (c: #f00)"]) + " {\n" + gen_body(rng, depth + 1, in_rule) + "}\n"
        elif k == "at":
            out += "@" + rng.choice(["foo", "-x-bar", "page"]) + rng.choice(["", " a", " a, b", " 0.5 #f00", " #{0.5}", " :first"]) \
                + rng.choice([";\n", " {\n" + gen_body(rng, depth + 1, in_rule) + "}\n"])
        elif k == "keyframes":
            out += "@keyframes k" + " {\n from { a: 0.5; }\n 50.5% { a: #f00; }\n to { a: " + gen_expr(rng) + "; }\n}\n"
        elif k == "fontface":
            out += "@font-face {\n font-family: " + rng.choice(STRS) + ";\n src: url(a.woff), url(b.ttf);\n}\n"
        elif k == "comment":
            out += rng.choice(["/* c */", "/* a\n   b */", "/* #{0.5 + 0.25} */", "/* #{$undefined} */", "// silent", "/**/", "/* é */",
                               "/* #{red} */"]) + "\n"
        elif k == "loud":
            out += rng.choice(["/*! loud */", "/*! a\n   b */", "/*! #{0.5} */", "/*!*/"]) + "\n"
        elif k == "ctl":
            head = rng.choice(["@if $n > 0.25", "@each $i in 0.5 red #fff", "@for $i from 1 through 2", "@if false", "@while false"])
            out += head + " {\n" + gen_body(rng, depth + 1, in_rule) + "}\n" + (
                "@else {\n" + gen_body(rng, depth + 1, in_rule) + "}\n" if head.startswith("@if") and rng.random() < 0.5 else "")
        elif k == "mixin":
            out += rng.choice(["@include m(0.5);", "@include m(red);", "@include undefined-mixin;", "@include w { x: 0.5; }"]) + "\n"
        elif k == "err":
            out += rng.choice(['@error "boom #{0.5}";', "x: $undefined;", "@include nope;", "x: nth(1 2, 5);", "x: 1px + 1s;",
                               '@warn "w";', "x: (a: b);", "x: foo.bar();", "@return 1;", "x: math.div(1, 0) * 1%;"]) + "\n"
        elif k == "var":
            out += "$v" + str(rng.randint(0, 2)) + ": " + gen_expr(rng) + rng.choice(["", " !default", " !global"]) + ";\n"
        elif k == "import":
            out += rng.choice(['@import "x.css";', "@import url(x.css);", '@import "a" screen;', '@import "http://x/y";']) + "\n"
        elif k == "charset":
            out += '@charset "UTF-8";\n'
        elif k == "extend":
            out += rng.choice(["@extend .c;", "@extend %p;"]) + "\n"
        elif k == "debug":
            out += "@debug 0.5;\n"
    return out


PRELUDE = ('@use "sass:math";\n@use "sass:color";\n@use "sass:list";\n@use "sass:map";\n'
           "$n: 0.5;\n$l: 0.5 red, #fff .25;\n@mixin m($a) { m: $a; n: $a $a; }\n@mixin w { .w { @content; } }\n")


def gen(tier, rng, boost=1):
    n_tree = (150 if tier == "quick" else 2500) * boost
    n_prog = (500 if tier == "quick" else 12000) * boost
    fixed = ['a{/* #{$u} */ b:c}', "a{b:0.5}", "a{b:#ff0000}", "a{b:rgba(0,0,0,0)}", "a{b:rgb(250, 250, 210)}", "/*! x */ a{b:c}",
             "a{b:$u}", '@error "x";', "a > b, c ~ d { e: f, g; }", "a{--x: 0.5 ;}", "a{b: 1 !important}", "a{b:c}\n\n\nd{e:f}",
             '@media screen, print { a { b: .5 } }', "a { b: { c: 0.5 } }", "a{b:0.5;;}", "a{}", "", "a{b:lighten(#123, 0.5%)}"]
    for src in fixed:
        yield Case("\t".join(["c08both", "scss", hx(src)]), "fixed")
    for _ in range(n_tree):
        nonascii = rng.random() < 0.3
        if rng.random() < 0.5:
            tree, src = C07.css_tree(rng, "top", 0, nonascii)
            t = " ".join(C07.enc_tree(tree))
            yield Case("\t".join(["c08both", "css", hx(src), "-", t, t]), "css-tree")
        else:
            src, tree_e, state = C07.scss_case(rng, "e", nonascii)
            after = rng.getstate()
            rng.setstate(state)
            _, tree_c, _ = C07.scss_case(rng, "c", nonascii)
            rng.setstate(after)
            yield Case("\t".join(["c08both", "scss", hx(src), "-", " ".join(C07.enc_tree(tree_e)), " ".join(C07.enc_tree(tree_c))]),
                       "scss-tree")
    for _ in range(n_prog):
        src = PRELUDE + gen_body(rng, 0, False)
        yield Case("\t".join(["c08both", "scss", hx(src)]), "program")
    allin = C07.spec_inputs()
    chosen = allin if tier != "quick" else [allin[i] for i in sorted(rng.sample(range(len(allin)), min(len(allin), 400 * boost)))]
    for path, src, exp in chosen:
        yield Case("\t".join(["c08both", "scss", hx(src)]), "spec-corpus", {"file": path})


def judge(case, impl, asis, spec):
    if impl.startswith(("panic:", "abort:")):
        return Verdict(True, None)      # crashes are C01's subject
    parts = impl.split("|")
    if len(parts) != 2:
        return Verdict(False, "harness answered " + impl[:60])
    why = compare(parts[0], parts[1])
    corr = True
    if asis is not None:
        a = asis.split("|")
        canon = lambda r: r if r.startswith("ok:") else r[:4]
        # the model's two outputs are the code's two outputs, and the model's normal forms agree
        corr = [canon(p) for p in parts] == [canon(x) for x in a[:2]] and a[2] in ("n=1", "n=-")
    return Verdict(corr, why)


def explained(case, r, live):
    """C08-interp-style-leak: the source interpolates (`#{`) and the two results agree once leading zeros are also
    normalised inside strings, words and messages and list separators inside strings are ignored"""
    ids = {f["id"] for f in live}
    f = case.lines[0].split("\t")
    src = unhx(f[2])
    if not (("C08-interp-style-leak" in ids and "#{" in src) or ("C08-plus-join-late-format" in ids and "+" in src)):
        return False
    parts = r["impl"][0].split("|")
    return len(parts) == 2 and compare(parts[0], parts[1], deep=True) is None


def nontrivial(case, impl, spec):
    p = impl.split("|")
    return len(p) == 2 and p[0].startswith("ok:") and len(p[0]) > 3 and p[0] != p[1]


# ----------------------------------------------------------------------------------------
# T3: every style-dependent site of the source is one the model / oracle accounts for
# ----------------------------------------------------------------------------------------
SITE_RE = re.compile(r"is_compressed\(\)|Style::Compressed|Style::Expanded|\.add_one\(|get_indent\(|\.sep\(")

# (file, enclosing fn, normalised source line): committed inventory.  W = modelled in Writer/*.lean,
# V = value/selector text (atoms; compared by the oracle's tokenizer), E = evaluator (transform.rs Item::Comment; sass/string.rs
# SassString::evaluate = `C08.interpText false`, theorem interp_style_independent), D = definition/doc
SITES = None  # filled from SITES_TEXT below
SITES_TEXT = r'''
W	css/atrule.rs|write|if buf.format().is_compressed() {
W	css/atrule.rs|write|buf.add_one(" { ", "{");
W	css/atrule.rs|write|buf.add_one(" }\n", "}");
W	css/atrule.rs|write|buf.add_one(";\n", ";");
V	css/call_args.rs|fmt|let sep = if format.is_compressed() { "," } else { ", " };
W	css/comment.rs|write|buf.add_one("\n", "");
W	css/comment.rs|write|if buf.format().is_compressed() {
W	css/comment.rs|write|let start = buf.format().get_indent(indent - existing);
W	css/comment.rs|write|let start = buf.format().get_indent(existing - indent - 1);
W	css/comment.rs|write|buf.add_one("*/\n", "*/");
W	css/item.rs|write|buf.add_one(";\n", ";");
V	css/mediarule.rs|write|buf.add_one(", ", ",");
W	css/rule.rs|write|buf.add_one(": ", ":");
W	css/rule.rs|write|buf.add_one(";\n", ";");
W	css/rule.rs|write|if !(self.value.quotes().is_none() || buf.format().is_compressed()) {
W	css/rule.rs|write|buf.add_one(";\n", ";");
V	css/valueformat.rs|fmt|write!(out, "{}{}", first, sep.sep(true))?;
V	css/valueformat.rs|fmt|write!(out, "({}{})", first, sep.sep(true))?;
V	css/valueformat.rs|fmt|let sep = sep.sep(self.format.is_compressed());
V	css/valueformat.rs|fmt|.sep(self.format.is_compressed());
V	css/selectors/selector.rs|write_to|buf.add_one(" ", "");
V	css/selectors/selector.rs|write_to|buf.add_one(" ", "");
V	css/selectors/selectorset.rs|write_to|buf.add_one(", ", ",");
W	output/cssbuf.rs|start_block|self.add_one(" {\n", "{");
W	output/cssbuf.rs|end_block|if self.format.is_compressed() && self.buf.last() == Some(&b';') {
W	output/cssbuf.rs|end_block|self.add_one("}\n", "}");
W	output/cssbuf.rs|do_indent|self.add_str(&self.format.get_indent(self.indent));
W	output/cssbuf.rs|do_indent_no_nl|let stuff = self.format.get_indent(self.indent);
W	output/cssbuf.rs|add_one|self.add_str(if self.format.is_compressed() {
W	output/cssbuf.rs|opt_nl|if !self.format.is_compressed()
W	output/cssdata.rs|into_buffer|let compressed = format.is_compressed();
W	output/format.rs|is_compressed|self.style == Style::Compressed
W	output/format.rs|get_indent|pub fn get_indent(&self, len: usize) -> Cow<'static, str> {
W	output/format.rs|get_indent|if self.is_compressed() {
W	output/format.rs|default|style: Style::Expanded,
E	output/transform.rs|handle_item|let compressed = scope.get_format().is_compressed();
E	sass/string.rs|evaluate|if format.is_compressed() {
E	sass/string.rs|evaluate|format.style = Style::Expanded;
V	sass/value.rs|inspect|let s = s.unwrap_or(ListSeparator::Space).sep(false);
V	value/number.rs|fmt|let skip_zero = self.format.is_compressed();
V	value/colors/rgba.rs|fmt|if self.format.is_compressed() {
V	value/colors/rgba.rs|fmt|} else if self.format.is_compressed() && rgba.all_zero() {
V	value/colors/rgba.rs|write_rgba|let sep = if format.is_compressed() { "," } else { ", " };
'''


def scan_sites():
    root = os.path.join(REPO, "rsass", "src")
    found = []
    for d, _, files in sorted(os.walk(root)):
        for fn in sorted(files):
            if not fn.endswith(".rs"):
                continue
            path = os.path.join(d, fn)
            rel = os.path.relpath(path, root)
            cur = "-"
            for line in open(path, encoding="utf-8"):
                s = line.strip()
                m = re.match(r"(?:pub(?:\([a-z]+\))?\s+)?fn\s+([A-Za-z0-9_]+)", s)
                if m:
                    cur = m.group(1)
                if s.startswith("//"):
                    continue
                if SITE_RE.search(s):
                    found.append(rel + "|" + cur + "|" + re.sub(r"\s+", " ", s))
    return found


def static_checks(ctx):
    want = sorted(l for l in SITES_TEXT.strip("\n").split("\n") if l)
    want = [l.split("\t", 1)[1] for l in want]
    have = scan_sites()
    problems = []
    for x in sorted(set(have)):
        if have.count(x) > want.count(x):
            problems.append("new style-dependent site: " + x)
    for x in sorted(set(want)):
        if want.count(x) > have.count(x):
            problems.append("style-dependent site gone or changed: " + x)
    return problems


EXTRA_OBLIGATIONS = ["styleBranches_accounted (source inventory of style-dependent sites = committed list)"]

RULE = ("both styles of one source: css trees of props/C07.py (plain CSS and nested SCSS; model writes both styles), generated SCSS "
        "programs (numbers with leading zeros, 40 colour notations/functions, strings, lists with every separator, calls, calc, "
        "selectors with combinators/parent refs, @media/@supports/@keyframes/@font-face/unknown at-rules, comments incl. loud and "
        "interpolated, control flow, mixins, errors of 10 kinds) and spec-corpus inputs (quick 400 sampled, thorough all); "
        "non-trivial = both succeed with different bytes")
LEVEL_TEXT = ("Proof (Lean 4): for the writer model the two styles have the same normal form (encoding mark, white space, `;` before `}` "
              "removed) by induction over the css tree, all flag settings; tied byte-exact to rsass in both styles; plus a source "
              "inventory guard of every style-dependent site and an impl-vs-impl token oracle (white space, comments, leading zeros, "
              "colour notations) on generated programs and the spec corpus.")
LEVEL_NOTE = ("The Lean normal form drops all white space (coarser than the oracle's tokenizer, which keeps a space between words); "
              "leading zeros and colour notations are inside atoms and are decided by the oracle, not by a theorem; the full-output "
              "theorem is proved for ASCII outputs (buffer-level theorem for all).")
TECHNIQUE = "Lean 4 theorem over the writer model + byte-exact correspondence + source-site inventory + two-style token oracle"
TRUSTED = ["props/C08.py tokenizer (norm_tokens)", "colour-name table read from rsass/src/value/colors/rgba.rs",
           "props/C07.py tree generators and Dest port"]
ASSUMPTIONS = ["value/selector text is compared by the oracle's tokenizer only (atoms are opaque to the writer theorem)"]
