"""C32 — Color adjustment functions obey their laws (partial)."""
import struct
from fractions import Fraction as F
from tools.vlib import Case, Verdict
from props import _color as C
from props import C31

ID = "C32"
DRIVER = "drv_C32"
THEOREM_MODS = ["RsassModel.Theorems.C32"]
LEVEL = "proof"
RULE = ("c32 <law> <E1> <E2>: base colours of rgb, hsl and hwb origin (all C31 constructors incl. alpha) and amounts "
        "incl. 0/100% boundaries.  law `same`: E1 must == E2 — mix(c,c,w) vs c, invert(invert(c)), "
        "complement(complement(c)), adjust-hue(c,360deg), adjust-hue(adjust-hue(c,d),-d), adjust/scale/change-color with "
        "identity arguments (0, 0%, the channel's own literal value, no argument), darken(lighten(c,a),a) and the "
        "saturate/desaturate, opacify/transparentize analogues where nothing is clamped.  laws `light±`, `sat±`, "
        "`alpha±`: the channel report of E1 is the report of E2 moved by exactly the amount, clamped to the range.  "
        "law `gray`: saturation 0, lightness and alpha unchanged.  Strata `oor-*`: hsl()/hwb() origin colours whose "
        "saturation/lightness is already outside 0..100% (both directions) into lighten/darken/saturate/desaturate "
        "with small and large amounts (result must be the moved value clamped to the range) and into the identity "
        "forms of adjust/scale/change-color.  Non-trivial = compiles and the base is neither black, "
        "white nor transparent.")
TRUSTED = ["Lean Float = IEEE f64 (validated by the correspondence run)", "C10 number formatter model",
           "python Fraction colour calculator (chooses amounts that do not clamp)"]
ASSUMPTIONS = ["theorems are over exact rationals; f64 rounding is covered by the differential runs and by the 1e-7 "
               "tolerance of colour equality",
               "laws are checked through == and the channel functions, the observation points the property names",
               "color.adjust/scale/change are exercised through their global aliases adjust-color/scale-color/change-color"]
ALWAYS_QUIRKS = []      # set per run by extract(): live deviation flags of the colour model (C31 findings)


def extract(ctx):
    global ALWAYS_QUIRKS
    C.extract_names(ctx)
    ALWAYS_QUIRKS = C.live_color_flags(ctx, ["C31"])


def on_broken_build(ctx, out):
    return ["lake build failed after regenerating Generated/ColorNames.lean from the running code: "
            + out[-600:].replace("\n", " ")]


# ------------------------------------------------------------------------------------------ generator

def call(f, c, *args):
    return ("call", f, c, list(args))


def pos(x, u):
    return (None, (float(x), u))


def exact_hsl(t):
    """exact (h, s, l, a) of an in-range constructor term, else None"""
    ex = C.exact_rgba(t)
    if ex is None:
        return None
    h, s, l = C.rgb_to_hsl(ex[0] / 255, ex[1] / 255, ex[2] / 255)
    return h, s, l, ex[3]


def in_range_ctor(rng, names):
    """a constructor whose arguments are all inside their ranges (so that `unclamped` laws are about the law)"""
    for _ in range(50):
        t = C31.ctor(rng, names)
        if t[0] in ("hex", "name"):
            return t
        if t[0] == "rgba2":
            if t[1][0] in ("hex", "name") and 0 <= t[2][0] <= 1:
                return t
            continue
        ok = True
        for i, a in enumerate(t[1:4]):
            lo, hi = (0, 100) if a[1] == "p" else (0, 255) if t[0].startswith("rgb") else (-1e9, 1e9)
            ok &= lo <= a[0] <= hi
        if t[0].startswith("hwb"):
            ok &= t[2][0] + t[3][0] <= 100
        if t[4] is not None:
            ok &= 0 <= t[4][0] <= (100 if t[4][1] == "p" else 1)
        if ok:
            return t
    return ("hex", "336699")


OOR_HI = [100.5, 101, 110, 120, 130, 150, 200, 250]
OOR_LO = [-0.5, -1, -10, -20, -30, -50, -100]


def oor_base(rng):
    """an hsl()/hwb() origin colour whose saturation and/or lightness report is already outside 0..100%
    (they exist because of the open finding C31-hsl-unclamped / C31-hwb-unclamped), both directions"""
    h = (C31.hue(rng), rng.choice("nd"))
    a = rng.choice([None, None, (0.5, "n"), (25.0, "p")])
    inr = lambda: float(rng.choice([0, 100, 50, 25, 75, 10, 90, rng.randint(0, 100)]))
    out = lambda: float(rng.choice(OOR_HI if rng.random() < .5 else OOR_LO))
    k = rng.randrange(6)
    if k < 4:
        head = rng.choice(["hsl", "hsla"])      # comma syntax (negative numbers allowed)
        which = rng.choice(["l", "l", "s", "sl"])
        s_ = out() if "s" in which else inr()
        l_ = out() if "l" in which else inr()
        return (head, h, (s_, "p"), (l_, "p"), a)
    if k == 4:
        # hwb with w - b > 100% (lightness above 100%) or b - w > 100% (lightness below 0%)
        big, small = float(rng.choice([110, 130, 150])), float(rng.choice([-10, -20, -5]))
        w, b = (big, small) if rng.random() < .5 else (small, big)
        return ("hwbc", h, (w, "p"), (b, "p"), a)
    # hwb with negative whiteness / blackness (saturation above 100%)
    return ("hwbc", h, (float(rng.choice([-20, -5, -50])), "p"), (float(rng.choice([30.5, 10, 60])), "p"), a)


def amount(rng, hi=100.0):
    k = rng.random()
    if k < 0.2:
        return float(rng.choice([0, hi, hi / 2, hi / 10]))
    if k < 0.6:
        return float(rng.randint(0, int(hi)))
    return round(rng.uniform(0, hi), rng.randint(0, 3))


def identity_call(rng, c):
    k = rng.randrange(12)
    if k == 0:
        return call("adjust-color", c)
    if k == 1:
        return call("change-color", c)
    if k == 2:
        ks = [("red", (0.0, "n")), ("green", (0.0, "n")), ("blue", (0.0, "n")), ("alpha", (0.0, "n"))]
        return ("call", "adjust-color", c, rng.sample(ks, rng.randint(1, 4)))
    if k == 3:
        ks = [("hue", (0.0, rng.choice("nd"))), ("saturation", (0.0, "p")), ("lightness", (0.0, "p")), ("alpha", (0.0, "n"))]
        return ("call", "adjust-color", c, rng.sample(ks, rng.randint(1, 4)))
    if k == 4:
        ks = [("whiteness", (0.0, "p")), ("blackness", (0.0, "p")), ("hue", (0.0, "d"))]
        return ("call", "adjust-color", c, rng.sample(ks[:2], rng.randint(1, 2)) + ([ks[2]] if rng.random() < .3 else []))
    if k == 5:
        ks = [("red", (0.0, "p")), ("green", (0.0, "p")), ("blue", (0.0, "p")), ("alpha", (0.0, "p"))]
        return ("call", "scale-color", c, rng.sample(ks, rng.randint(1, 4)))
    if k == 6:
        ks = [("saturation", (0.0, "p")), ("lightness", (0.0, "p")), ("alpha", (0.0, "p"))]
        return ("call", "scale-color", c, rng.sample(ks, rng.randint(1, 3)))
    if k == 7:
        ks = [("whiteness", (0.0, "p")), ("blackness", (0.0, "p"))]
        return ("call", "scale-color", c, rng.sample(ks, rng.randint(1, 2)))
    if k == 8:
        return call("scale-color", c)
    # change-color with the constructor's own literal channel values
    if c[0] in ("rgb", "rgba", "rgbs", "rgbas") and all(a[1] == "n" and 0 <= a[0] <= 255 for a in c[1:4]):
        ks = [("red", c[1]), ("green", c[2]), ("blue", c[3])]
        return ("call", "change-color", c, rng.sample(ks, rng.randint(1, 3)))
    if c[0] in ("hsl", "hsla", "hsls", "hslas") and all(0 <= a[0] <= 100 for a in c[2:4]):
        ks = [("hue", c[1]), ("saturation", c[2]), ("lightness", c[3])]
        return ("call", "change-color", c, rng.sample(ks, rng.randint(1, 3)))
    if c[0] in ("hwb", "hwbc") and all(0 <= a[0] <= 100 for a in c[2:4]) and c[2][0] + c[3][0] <= 100:
        ks = [("whiteness", c[2]), ("blackness", c[3])]
        return ("call", "change-color", c, rng.sample(ks, rng.randint(1, 2)))
    return ("call", "adjust-color", c, [("alpha", (0.0, "n"))])


def law_case(rng, names):
    k = rng.randrange(16)
    c = C31.ctor(rng, names) if rng.random() < 0.5 else in_range_ctor(rng, names)
    if k == 0:
        w = None if rng.random() < .2 else (amount(rng), rng.choice("pn"))
        return "same", ("mix", c, c, w), c, "mix-self"
    if k == 1:
        return "same", call("invert", call("invert", c)), c, "invert-invol"
    if k == 2:
        return "same", call("complement", call("complement", c)), c, "complement-invol"
    if k == 3:
        return "same", call("adjust-hue", c, pos(rng.choice([360, -360, 720, 0]), rng.choice("nd"))), c, "adjust-hue-360"
    if k == 4:
        d = C31.hue(rng)
        return "same", call("adjust-hue", call("adjust-hue", c, pos(d, "d")), pos(-d, "d")), c, "adjust-hue-cancel"
    if k in (5, 6):
        if rng.random() < 0.25:
            c = oor_base(rng)
            return "same", identity_call(rng, c), c, "oor-identity"
        return "same", identity_call(rng, c), c, "identity"
    if k in (7, 8, 9):
        # undo laws where nothing is clamped (amount chosen from the exact channel value)
        c = in_range_ctor(rng, names)
        ex = exact_hsl(c)
        if ex is None:
            return None
        h, s, l, a = ex
        which = rng.choice(["l+", "l-", "s+", "s-", "a+", "a-"])
        room = {"l+": (1 - l) * 100, "l-": l * 100, "s+": (1 - s) * 100, "s-": s * 100, "a+": 1 - a, "a-": a}[which]
        if which[0] == "a":
            amt = round(float(room) * rng.random() * 0.999, 3)
            amt = min(amt, float(room))
            if amt < 0 or F(amt) > room:
                return None
            f1, f2 = ("opacify", "transparentize") if which == "a+" else ("transparentize", "opacify")
            return "same", call(f2, call(f1, c, pos(amt, "n")), pos(amt, "n")), c, "undo-alpha"
        amt = float(int(float(room) * rng.random() * 0.999 * 8)) / 8
        if F(amt) > room - F(1, 10 ** 6) and amt != 0:
            return None
        f1, f2 = {"l+": ("lighten", "darken"), "l-": ("darken", "lighten"), "s+": ("saturate", "desaturate"),
                  "s-": ("desaturate", "saturate")}[which]
        u = rng.choice("pn")
        return "same", call(f2, call(f1, c, pos(amt, u)), pos(amt, u)), c, "undo-" + which[0]
    if k in (10, 11, 12, 13, 14):
        which = rng.choice(["light+", "light-", "sat+", "sat-", "alpha+", "alpha-"])
        if rng.random() < 0.35:
            # base already out of range: the result must still be the moved value CLAMPED to the range,
            # in both directions (small amounts leave the unclamped value outside the range)
            c = oor_base(rng)
            which = rng.choice(["light+", "light-", "sat+", "sat-"])
            amt = float(rng.choice([0, 1, 5, 10, 20, 100])) if rng.random() < .7 else amount(rng)
            f = {"light+": "lighten", "light-": "darken", "sat+": "saturate", "sat-": "desaturate"}[which]
            return "%s:%d" % (which, C.bits(amt)), call(f, c, pos(amt, rng.choice("pn"))), c, "oor-" + which
        if which.startswith("alpha"):
            amt = round(rng.random(), rng.randint(0, 3)) if rng.random() < .8 else float(rng.choice([0, 1]))
            f = "opacify" if which == "alpha+" else "transparentize"
            if rng.random() < .3:
                f = "fade-in" if which == "alpha+" else "fade-out"
            return "%s:%d" % (which, C.bits(amt)), call(f, c, pos(amt, "n")), c, which
        amt = amount(rng)
        f = {"light+": "lighten", "light-": "darken", "sat+": "saturate", "sat-": "desaturate"}[which]
        return "%s:%d" % (which, C.bits(amt)), call(f, c, pos(amt, rng.choice("pn"))), c, which
    return "gray", call("grayscale", c), c, "grayscale"


def gen(tier, rng, boost=1):
    cssn = C.css_names()
    names = sorted(cssn) + ["transparent"]
    # fixed boundary cases: out-of-range hsl lightness/saturation moved in both directions
    for l_ in (130.0, 100.5, -30.0, -0.5):
        for s_ in (50.0, 150.0, -20.0):
            c = ("hsl", (120.0, "n"), (s_, "p"), (l_, "p"), None)
            for which, f in (("light+", "lighten"), ("light-", "darken"), ("sat+", "saturate"), ("sat-", "desaturate")):
                for amt in (0.0, 10.0, 100.0):
                    yield Case("c32\t%s:%d\t%s\t%s" % (which, C.bits(amt), C.enc(call(f, c, pos(amt, "p"))), C.enc(c)),
                               "oor-fixed", {"scss": C.show(call(f, c, pos(amt, "p"))) + "  vs  " + C.show(c)})
    n = (2500 if tier == "quick" else 50000) * boost
    for i in range(n):
        r = law_case(rng, names)
        if r is None:
            continue
        law, e1, e2, stratum = r
        yield Case("c32\t%s\t%s\t%s" % (law, C.enc(e1), C.enc(e2)), stratum,
                   {"scss": C.show(e1) + "  vs  " + C.show(e2)})


# ------------------------------------------------------------------------------------------ judging

TOL = F(1, 10 ** 8)     # reports are printed with 10 decimals; laws are judged to 1e-8


def judge(case, impl, asis, spec):
    f = case.lines[0].split("\t")
    if impl.startswith(("panic:", "abort:")):
        return Verdict(False, "crash: " + impl[:60])
    if impl.startswith("err:"):
        return Verdict(asis == "err", None)
    corr = asis == impl
    body = impl[3:].split("|")
    law = f[1]
    r1 = [C.dec(x) for x in body[1:10]]
    r2 = [C.dec(x) for x in body[10:19]]
    if any(x is None for x in r1 + r2):
        return Verdict(corr, None)
    why = None
    if law == "same":
        if body[0] != "t":
            why = "the result is not == the original colour"
    elif law == "gray":
        if abs(r1[4]) > TOL:
            why = f"grayscale leaves saturation {body[5]}"
        elif abs(r1[5] - r2[5]) > TOL:
            why = f"grayscale changes lightness {body[15]} -> {body[6]}"
        elif abs(r1[8] - r2[8]) > TOL:
            why = f"grayscale changes alpha {body[18]} -> {body[9]}"
    else:
        kind, b = law.split(":")
        amt = F(struct.unpack("<d", struct.pack("<Q", int(b)))[0])
        idx, lo, hi = {"light": (5, 0, 100), "sat": (4, 0, 100), "alpha": (8, 0, 1)}[kind[:-1]]
        want = r2[idx] + amt if kind.endswith("+") else r2[idx] - amt
        want = min(max(want, F(lo)), F(hi))
        if abs(r1[idx] - want) > TOL:
            why = (f"{kind[:-1]} channel is {body[1 + idx]} after moving {body[10 + idx]} by {float(amt):g}: "
                   f"expected {float(want):.10g}")
    return Verdict(corr, why)


def nontrivial(case, impl, spec):
    if not impl.startswith("ok:"):
        return False
    b = impl[3:].split("|")
    return b[10:13] not in (["0", "0", "0"], ["255", "255", "255"]) and b[18] != "0"


LEVEL_TEXT = ("Proof (Lean 4), partial: one theorem per law of the statement over the exact-rational model of the colour "
              "functions (mix, invert, complement, adjust-hue, adjust/scale/change-color, lighten/darken, "
              "saturate/desaturate, opacify/transparentize, grayscale); some laws are proved for colours stored in the "
              "representation the function works in and left open across conversions (named `_partial`, missing part "
              "stated).  Tied to the code by differential execution of the same definitions with Float and by a direct "
              "check of every law on the implementation through == and the channel functions.")
LEVEL_NOTE = ("Trusted: Lean kernel; Float = f64; C10 formatter model; Python Fraction calculator. The laws that route "
              "through rgb<->hsl conversions rest on the round-trip theorems of C31.")
TECHNIQUE = "Lean 4 theorems over an exact-rational model of the colour functions + differential correspondence + direct law oracle"
