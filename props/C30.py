"""C30 — calc() simplifies soundly."""
import re
import struct
from fractions import Fraction
from tools.vlib import Case, Verdict, hx, unhx
from props.C29 import UNITS, bits_of, parse_value, close

ID = "C30"
DRIVER = "drv_C30"
THEOREM_MODS = ["RsassModel.Theorems.C30"]
LEVEL = "proof"

VARS = ["var(--x)", "var(--y)", "var(--z)"]
OPS = "+-*/"
PREC = {"+": 0, "-": 0, "*": 1, "/": 1}
# css dimension classes of the units used here
CSSDIM = {"": None, "px": "length", "in": "length", "cm": "length", "pt": "length", "em": "length", "%": "%",
          "s": "time", "ms": "time", "deg": "angle", "foo": "foo"}
KNOWN = {"px", "in", "cm", "pt", "s", "ms", "deg", "em"}


# trees: ("n", text, unit) | ("v", k) | ("i", name) | ("p", t) | ("b", op, a, b)
def enc(t):
    k = t[0]
    if k == "n":
        return "n%d:%s" % (bits_of(float(t[1])), t[2] or "-")
    if k == "v":
        return "v%d" % t[1]
    if k == "i":
        return "i" + t[1]
    if k == "p":
        return "p(" + enc(t[1]) + ")"
    return "b" + t[1] + "(" + enc(t[2]) + "," + enc(t[3]) + ")"


def scss(t, spaced=False):
    """source text; `spaced`: white space inside every pair of parentheses"""
    k = t[0]
    if k == "n":
        return t[1] + t[2]
    if k == "v":
        return VARS[t[1]]
    if k == "i":
        return t[1]
    if k == "p":
        return ("( " + scss(t[1], spaced) + " )") if spaced else ("(" + scss(t[1], spaced) + ")")
    return scss(t[2], spaced) + " " + t[1] + " " + scss(t[3], spaced)


def full_parens(t):
    """redundant parentheses around every binary node below the root"""
    if t[0] == "p":
        return full_parens(t[1])
    if t[0] != "b":
        return t

    def wrap(x):
        x = full_parens(x)
        return ("p", x) if x[0] == "b" else x
    return ("b", t[1], wrap(t[2]), wrap(t[3]))


def count_ops(t):
    if t[0] == "b":
        return 1 + count_ops(t[2]) + count_ops(t[3])
    if t[0] == "p":
        return count_ops(t[1])
    return 0


def strip(t):
    return strip(t[1]) if t[0] == "p" else t


def fix_parens(t, rng):
    """wrap children so that the text parses back to this very tree; add some redundant parentheses"""
    if t[0] == "b":
        op, a, b = t[1], fix_parens(t[2], rng), fix_parens(t[3], rng)
        if a[0] == "b" and PREC[a[1]] < PREC[op]:
            a = ("p", a)
        if b[0] == "b" and PREC[b[1]] <= PREC[op]:
            b = ("p", b)
        if rng.random() < 0.12:
            a = ("p", a)
        if rng.random() < 0.12:
            b = ("p", b)
        return ("b", op, a, b)
    return t


class Compound(Exception):
    pass


class Incompatible(Exception):
    pass


def conv(v, u_from, u_to):
    return v * Fraction(UNITS[u_from][1]) / Fraction(UNITS[u_to][1])


def sass_arith(t):
    """Sass arithmetic on an all-numeric tree -> (Fraction, unit); raises Compound / Incompatible / KeyError"""
    k = t[0]
    if k == "n":
        return Fraction(t[1]), t[2]
    if k == "p":
        return sass_arith(t[1])
    if k != "b":
        raise KeyError("not numeric")
    (a, ua), (b, ub) = sass_arith(t[2]), sass_arith(t[3])
    op = t[1]
    if op in "+-":
        if ua == ub or ub == "":
            bb, u = b, ua
        elif ua == "":
            bb, u = b, ub
        elif UNITS[ua][0] == UNITS[ub][0] and UNITS[ua][0] not in ("percent", "em", "foo"):
            bb, u = conv(b, ub, ua), ua
        else:
            raise Incompatible()
        return (a + bb if op == "+" else a - bb), u
    if op == "*":
        if ua == "":
            return a * b, ub
        if ub == "":
            return a * b, ua
        raise Compound()
    if b == 0:
        raise Compound()
    if ub == "":
        return a / b, ua
    if ua == ub:
        return a / b, ""
    raise Compound()


def leaves(t):
    if t[0] == "b":
        return leaves(t[2]) + leaves(t[3])
    if t[0] == "p":
        return leaves(t[1])
    return [t]


def evalsym(t, env):
    """value of a tree under an assignment of sizes to units / variables / identifiers.
    returns Fraction; raises ZeroDivisionError"""
    k = t[0]
    if k == "n":
        return Fraction(t[1]) * env["u:" + t[2]]
    if k == "v":
        return env["v:%d" % t[1]]
    if k == "i":
        return env.setdefault("i:" + t[1], Fraction(7, 3))
    if k == "p":
        return evalsym(t[1], env)
    a, b = evalsym(t[2], env), evalsym(t[3], env)
    return {"+": a + b, "-": a - b, "*": a * b}[t[1]] if t[1] != "/" else a / b


def make_env(rng_seed):
    import random
    r = random.Random(rng_seed)
    env = {"u:": Fraction(1)}
    base = {}
    for u, (d, ratio) in UNITS.items():
        if u == "":
            continue
        if d not in base:
            base[d] = Fraction(r.randint(2, 40), r.randint(1, 9))
        env["u:" + u] = base[d] * Fraction(ratio)
    for k in range(3):
        env["v:%d" % k] = Fraction(r.randint(2, 50), r.randint(1, 7))
    return env


TOK = re.compile(r"(\s*)(var\(--[xyz]\)|-?(?:\d+\.?\d*|\.\d+)(?:[a-zA-Z%]+)?|[A-Za-z_][A-Za-z0-9_-]*|[-+*/()])")


def parse_calc(text):
    """reference reader of a calculation body: CSS calc syntax — standard precedence, left
    associative, and `+` / `-` are operators only with white space on both sides"""
    toks, pos = [], 0
    text = text.strip()
    while pos < len(text):
        m = TOK.match(text, pos)
        if not m:
            raise ValueError("cannot tokenise %r at %d" % (text, pos))
        end = m.end()
        space_after = end < len(text) and text[end].isspace()
        toks.append((m.group(2), bool(m.group(1)), space_after))
        pos = end
    i = 0

    def peek():
        return toks[i][0] if i < len(toks) else None

    def atom():
        nonlocal i
        t = peek()
        if t is None:
            raise ValueError("unexpected end")
        i += 1
        if t == "(":
            e = expr()
            if peek() != ")":
                raise ValueError("missing )")
            i += 1
            return ("p", e)
        if t.startswith("var("):
            return ("v", "xyz".index(t[6]))
        m = re.fullmatch(r"(-?(?:\d+\.?\d*|\.\d+))([a-zA-Z%]*)", t)
        if m:
            if m.group(2) not in UNITS:
                raise ValueError("unknown unit " + t)
            return ("n", m.group(1), m.group(2))
        if re.fullmatch(r"[A-Za-z_][A-Za-z0-9_-]*", t):
            return ("i", t)
        raise ValueError("unexpected token " + t)

    def term():
        nonlocal i
        e = atom()
        while peek() in ("*", "/"):
            op = toks[i][0]
            i += 1
            e = ("b", op, e, atom())
        return e

    def expr():
        nonlocal i
        e = term()
        while peek() in ("+", "-"):
            op, before, after = toks[i]
            if not (before and after):
                raise ValueError("`%s` without white space on both sides is not an operator" % op)
            i += 1
            e = ("b", op, e, term())
        return e
    e = expr()
    if i != len(toks):
        raise ValueError("operand follows operand without an operator: %r" % toks[i][0])
    return e


def canon(impl):
    if impl.startswith("err:"):
        return "err"
    if not impl.startswith("ok:"):
        return impl
    css = unhx(impl[3:])
    m = re.search(r"b: (.*);\n\}", css, re.S)
    return m.group(1) if m else "nodecl"


def oracle_tree(t, got):
    lv = leaves(t)
    allnum = all(l[0] == "n" for l in lv)
    if allnum:
        try:
            want, unit = sass_arith(t)
        except Compound:
            return None
        except Incompatible:
            want = None
        if want is not None:
            pv = parse_value(got)
            if pv is None:
                return f"all operands are compatible numbers: expected the number {float(want)}{unit}, got {got}"
            if pv[1] != unit or not close(pv[0], want, Fraction(1, 10 ** 9)):
                return f"expected {float(want)}{unit}, got {got}"
            return None
    # not simplifiable to one number (unknown operand or incompatible units)
    units = {l[2] for l in lv if l[0] == "n"}
    kd = {CSSDIM[u] for u in units if u in KNOWN}
    if got == "err":
        return None if len(kd) >= 2 else "a calculation that cannot be simplified must be emitted, not rejected"
    if parse_value(got) is not None and not got.startswith("calc("):
        return f"not simplifiable, yet emitted as the number {got}"
    m = re.fullmatch(r"calc\((.*)\)", got, re.S)
    if not m:
        return f"expected a calc(...) value, got {got}"
    try:
        back = parse_calc(m.group(1))
    except ValueError as e:
        return f"emitted calculation does not read back: {e}"
    # same operands? (after folding numeric subtrees the count can only shrink)
    for seed in (11, 29):
        env = make_env(seed)
        try:
            a = evalsym(t, env)
            b = evalsym(back, dict(env))
        except ZeroDivisionError:
            continue
        except KeyError as e:
            return f"emitted calculation has an operand the source does not have: {e}"
        if abs(a - b) > abs(a) / 10 ** 6 + Fraction(1, 10 ** 7):
            return "emitted calculation has another value than the source calculation (operator structure changed)"
    src_syms = sorted(x for x in lv if x[0] in "vi")
    out_syms = sorted(x for x in leaves(back) if x[0] in "vi")
    if src_syms != out_syms:
        return "emitted calculation does not have the same var()/identifier operands"
    return None


def oracle_call(fn, args, got):
    """min/max/clamp of plain numbers / var()"""
    nums = [a for a in args if a[0] == "n"]
    if len(nums) == len(args):
        dims = {UNITS[a[2]][0] for a in nums}
        if len(dims) == 1 and "" not in {a[2] for a in nums} and dims <= {"length", "time", "angle"} and "em" not in {a[2] for a in nums}:
            # (units of one dimension with exact conversion ratios: the result is a number)
            keys = [Fraction(a[1]) * Fraction(UNITS[a[2]][1]) for a in nums]
            if fn == "clamp":
                # CSS Values 4: clamp(MIN, VAL, MAX) = max(MIN, min(VAL, MAX)) — also when MIN > MAX
                w = max(keys[0], min(keys[1], keys[2]))
            else:
                w = min(keys) if fn == "min" else max(keys)
            pv = parse_value(got)
            if pv is None or pv[1] not in UNITS:
                return f"{fn} of compatible numbers must be a number, got {got}"
            if UNITS[pv[1]][0] not in dims or not close(pv[0] * Fraction(UNITS[pv[1]][1]), w, Fraction(1, 10 ** 9)):
                return f"{fn}: wrong value {got}"
            return None
        return None
    if got == "err":
        return None
    if parse_value(got) is not None and not got.startswith("calc("):
        return f"{fn} with an unknown operand emitted as the number {got}"
    if not got.startswith(fn + "("):
        return f"expected a {fn}(...) value, got {got}"
    inner = [x.strip() for x in got[len(fn) + 1:-1].split(",")]
    if inner != [scss(a) for a in args]:
        return f"{fn}: operands changed: {got}"
    return None


def dec_tree(s):
    """inverse of enc (number texts are recovered from the f64 bits)"""
    pos = 0

    def go():
        nonlocal pos
        c = s[pos]
        if c == "n":
            m = re.compile(r"n(\d+):([^,)]*)").match(s, pos)
            pos = m.end()
            x = struct.unpack("<d", struct.pack("<Q", int(m.group(1))))[0]
            return ("n", repr(x) if x != int(x) else str(int(x)), "" if m.group(2) == "-" else m.group(2))
        if c == "v":
            pos += 2
            return ("v", int(s[pos - 1]))
        if c == "i":
            m = re.compile(r"i([^,)]*)").match(s, pos)
            pos = m.end()
            return ("i", m.group(1))
        if c == "p":
            pos += 2
            t = go()
            pos += 1
            return ("p", t)
        op = s[pos + 1]
        pos += 3
        a = go()
        pos += 1
        b = go()
        pos += 1
        return ("b", op, a, b)
    return go()


def judge(case, impl, asis, spec):
    f = case.lines[0].split("\t")
    if impl.startswith(("panic:", "abort:")):
        return Verdict(False, "crash: " + impl[:60])
    got = canon(impl)
    if f[0] == "cfm":
        call = re.search(r"b: (\w+)\((.*)\)\}", unhx(f[-1]), re.S)
        args = [parse_calc(x) for x in call.group(2).split(",")]
        return Verdict(True, oracle_call(call.group(1), args, got))
    a = unhx(asis) if asis is not None else None
    return Verdict(a is None or a == "bad-op" or got == a, oracle_tree(dec_tree(f[1]), got))


def div_chain(t):
    """only `/` over plain numbers, no inner parentheses"""
    if t[0] == "n":
        return True
    return t[0] == "b" and t[1] == "/" and div_chain(t[2]) and div_chain(t[3])


def explained(case, r, live):
    """`cf` cases: the as-is model reproduces the result and differs from the specification model.
    `cfp` cases (whole argument in parentheses, not modelled in Lean): the failure is of the kind and
    the input of the syntactic class of a live known finding."""
    f = case.lines[0].split("\t")
    why = r["v"].fails or ""
    if f[0] == "cf":
        return bool(r["v"].corr_ok and r["asis"][0] is not None and r["asis"] != r["spec"])
    if f[0] != "cfp":
        return False
    ids = {x["id"] for x in live}
    t, depth = dec_tree(f[1]), 0
    while t[0] == "p":
        t, depth = t[1], depth + 1
    if "C30-paren-literal-division" in ids and t[0] == "b" and div_chain(t) and why.startswith("all operands are compatible numbers"):
        return True
    if "C30-nested-parens-unrebuilt" in ids and depth >= 2 and why.startswith("emitted calculation does not read back"):
        return True
    return False


def totuple(x):
    return tuple(totuple(y) if isinstance(y, list) else y for y in x)


def nontrivial(case, impl, spec):
    return impl.startswith("ok:")


# ------------------------------------------------------------------------------------------------
NUMTEXT = ["1", "2", "3", "4", "10", "0.5", "1.5", "2.5", "100", "-1", "-2", "-0.5", "0.25", "7", "12"]


def rand_leaf(rng, mode, unit_pool):
    k = rng.random()
    if mode == "num" or k < 0.55:
        u = rng.choice(unit_pool)
        return ("n", rng.choice(NUMTEXT), u)
    if k < 0.9 or mode == "noident":
        return ("v", rng.randint(0, 2))
    return ("i", rng.choice(["a", "c", "foo-bar"]))


def rand_tree(rng, nops, mode, unit_pool):
    if nops == 0:
        return rand_leaf(rng, mode, unit_pool)
    left = rng.randint(0, nops - 1)
    op = rng.choice("++--**//"[:8])
    a = rand_tree(rng, left, mode, unit_pool)
    b = rand_tree(rng, nops - 1 - left, mode, unit_pool)
    if op in "*/":
        # keep units simple: the right factor/divisor is a plain unitless number most of the time
        if rng.random() < 0.8:
            b = ("n", rng.choice(["2", "3", "4", "0.5", "-1", "-2", "10"]), "")
    return ("b", op, a, b)


def admissible(t):
    """no unitless number added to a united/unknown-typed operand that could fold Sass-style, no
    compound units: decided by trying the reference arithmetic on every all-numeric subtree"""
    t = strip(t)
    if t[0] != "b":
        return True
    if not (admissible(t[2]) and admissible(t[3])):
        return False
    la, lb = leaves(t[2]), leaves(t[3])
    if all(l[0] == "n" for l in la + lb):
        try:
            sass_arith(t)
        except Compound:
            return False
        except Incompatible:
            pass
    if t[1] in "+-":
        # unitless number-valued operand against a united one: Sass folds `1 + 2px` to 3px, CSS has no such sum
        def kind(x):
            ls = leaves(x)
            if any(l[0] != "n" for l in ls):
                return "X"
            try:
                return "U" if sass_arith(x)[1] == "" else "D"
            except (Compound, Incompatible):
                return "D"
        ka, kb = kind(t[2]), kind(t[3])
        if {ka, kb} == {"U", "D"}:
            return False
        if "U" in (ka, kb) and "X" in (ka, kb):
            other = t[3] if ka == "U" else t[2]
            if any(l[0] == "n" and l[2] != "" for l in leaves(other)):
                return False
    if t[1] in "*/":
        # a united number as right factor/divisor of an unknown operand would need compound units
        lsb = leaves(t[3])
        if any(l[0] == "n" and l[2] != "" for l in lsb) and any(l[0] == "n" and l[2] != "" for l in leaves(t[2])):
            return False
        if t[1] == "/" and any(l[0] == "n" and l[2] != "" for l in lsb):
            return False
        if t[1] == "/" and all(l[0] == "n" for l in lsb):
            try:
                if sass_arith(t[3])[0] == 0:
                    return False
            except (Compound, Incompatible):
                return False
    return True


def ident_simple(t):
    """an identifier operand of `+` only ever meets a leaf (the code's string concatenation of an
    identifier with a whole sub-expression prints that sub-expression in another spacing: not modelled)"""
    t = strip(t)
    if t[0] != "b":
        return True
    a, b = strip(t[2]), strip(t[3])
    if t[1] == "+" and (a[0] == "i" or b[0] == "i") and (a[0] == "b" or b[0] == "b"):
        return False
    # an identifier inside a sum that is itself an operand of `+` becomes part of a concatenated string
    if t[1] == "+":
        for side in (a, b):
            if side[0] == "b" and any(l[0] == "i" for l in leaves(side)):
                return False
    return ident_simple(a) and ident_simple(b)


def mkcase(t, stratum, spaced=False):
    body = scss(t, spaced)
    call = ("calc( " + body + " )") if spaced else ("calc(" + body + ")")
    src = "a{b: " + call + "}\n"
    # whole-argument parentheses: the Lean model has no opinion (op `cfp`), the oracle decides
    op = "cfp" if t[0] == "p" else "cf"
    return Case("\t".join([op, enc(t), hx(src)]), stratum, {"tree": t, "call": call})


def mkcall(fn, args, stratum):
    call = fn + "(" + ", ".join(scss(a) for a in args) + ")"
    return Case("\t".join(["cfm", fn, hx("a{b: " + call + "}\n")]), stratum, {"fn": fn, "args": args, "call": call})


POOLS = {
    "same-unit": [["px"], ["%"], ["s"], [""], ["em"], ["foo"]],
    "convertible": [["px", "in", "cm", "pt"], ["s", "ms"]],
    "percent-mix": [["px", "%"], ["%", "in", "px"], ["em", "px"], ["foo", "px"]],
    "incompatible": [["px", "s"], ["px", "s", "%"], ["deg", "px"]],
}


def gen(tier, rng, boost=1):
    quick = tier == "quick"
    n = (6000 if quick else 60000) * boost
    fixed = ["1px + 2px", "(1px + 2px) * 3", "1in + 96px", "1px + 1%", "1px + var(--x)", "(var(--x) + 1px) * 2",
             "2 * (var(--x) + 1px)", "1px - (var(--x) - 2px)", "1px / (var(--x) / 2)", "(100% - 10px) / 3",
             "a + 1px", "1% - -2px", "1px + 2px + var(--x)", "var(--x) + 1px + 2px", "(var(--x))", "1px + 1s"]
    for txt in fixed:
        t = parse_calc(txt)
        yield mkcase(t, "fixed")
    produced = 0
    attempts = 0
    while produced < n and attempts < n * 30:
        attempts += 1
        k = rng.random()
        nops = rng.choice([0, 1, 1, 2, 2, 3, 3, 4, 5])
        if k < 0.3:
            st = rng.choice(["same-unit", "convertible"])
            t = rand_tree(rng, nops, "num", rng.choice(POOLS[st]))
            st = "numeric-" + st
        elif k < 0.45:
            st = rng.choice(["percent-mix", "incompatible"])
            t = rand_tree(rng, nops, "num", rng.choice(POOLS[st]))
            st = "numeric-" + st
        elif k < 0.9:
            pool = rng.choice(POOLS["same-unit"] + POOLS["convertible"] + POOLS["percent-mix"])
            t = rand_tree(rng, max(nops, 1), "noident", pool + [""])
            st = "with-var"
        else:
            pool = rng.choice(POOLS["same-unit"] + POOLS["percent-mix"])
            t = rand_tree(rng, max(nops, 1), "any", pool)
            st = "with-ident"
        t = fix_parens(t, rng)
        if not admissible(t) or not ident_simple(t):
            continue
        produced += 1
        yield mkcase(t, st)
    # whole-argument parentheses (1-2 levels) and redundant parentheses around every binary node,
    # tight and spaced source forms
    made = 0
    attempts = 0
    while made < n // 3 and attempts < n * 10:
        attempts += 1
        pool = rng.choice(POOLS["same-unit"] + POOLS["convertible"] + POOLS["percent-mix"])
        mode = rng.choice(["num", "noident", "noident"])
        t = fix_parens(rand_tree(rng, rng.choice([1, 1, 2, 2, 3, 4, 5]), mode, pool + ([""] if mode != "num" else [])), rng)
        if not admissible(t) or not ident_simple(t):
            continue
        k = rng.random()
        if k < 0.35:
            t = full_parens(t)
        for _ in range(rng.choice([1, 1, 2]) if k < 0.85 else 0):
            t = ("p", t)
        made += 1
        yield mkcase(t, "whole-arg-parens", spaced=rng.random() < 0.4)
    for txt in ["(1% - 2px)", "((1% - 2px))", "(1% - 2px - 3%)", "(1% + 2px)", "((var(--x) - 1px) - 2%)",
                "(1px - var(--x))", "((1% - 2px) * 2)", "(2 * (1% - 2px))"]:
        for sp in (False, True):
            yield mkcase(parse_calc(txt), "whole-arg-parens", spaced=sp)
    # clamp / min / max over ALL orderings of three comparable numbers (ties, MIN > MAX), the
    # values written in mixed convertible units (96px = 1in = 72pt = 2.54cm ...)
    forms = {1: ["96px", "1in", "72pt", "2.54cm"], 2: ["192px", "2in", "144pt", "5.08cm"],
             3: ["288px", "3in", "216pt", "7.62cm"]}
    reps = 1 if quick else 6
    for fn in ("clamp", "min", "max"):
        for a in (1, 2, 3):
            for b in (1, 2, 3):
                for c in (1, 2, 3):
                    for rep in range(reps * 2):
                        args = []
                        for v in (a, b, c):
                            txt = forms[v][0] if rep == 0 else rng.choice(forms[v])
                            m = re.fullmatch(r"([0-9.]+)([a-z]+)", txt)
                            args.append(("n", m.group(1), m.group(2)))
                        yield mkcall(fn, args, "call-orderings")
        for a, b, c in (("1s", "500ms", "2s"), ("2s", "1500ms", "1s"), ("90deg", "100grad", "0.5turn"),
                        ("5px", "3px", "1px"), ("2in", "1cm", "10px"), ("-1px", "-2px", "-3px")):
            args = [("n",) + re.fullmatch(r"(-?[0-9.]+)([a-z]+)", x).groups() for x in (a, b, c)]
            yield mkcall(fn, args, "call-orderings")
    # min / max / clamp
    for _ in range(n // 5):
        fn = rng.choice(["min", "max", "clamp"])
        cnt = 3 if fn == "clamp" else rng.randint(1, 4)
        k = rng.random()
        if k < 0.5:
            pool = rng.choice([["px", "in", "cm", "pt"], ["s", "ms"], ["px"], ["deg"]])
            args = [("n", rng.choice(NUMTEXT), rng.choice(pool)) for _ in range(cnt)]
            st = "call-compatible"
        elif k < 0.75:
            args = [("n", rng.choice(NUMTEXT), rng.choice(["px", "%", "em"])) for _ in range(cnt)]
            st = "call-percent-mix"
        else:
            args = [rand_leaf(rng, "noident", ["px", "%"]) for _ in range(cnt)]
            st = "call-with-var"
        yield mkcall(fn, args, st)


RULE = ("cases = calc() over generated trees of 0-5 operators (+ - * /, left-associative source text with the parentheses "
        "the tree needs plus redundant ones) over numbers with same / convertible / %-mixed / incompatible units, var() "
        "and identifiers; plus min()/max()/clamp() of numbers and var(); trees needing compound units or the Sass-only "
        "sum of a unitless and a united number are not generated; non-trivial = a value is emitted")
TRUSTED = ["reference reader/calculator of the emitted text in props/C30.py (standard precedence, exact fractions, random "
           "assignment of sizes to units, variables and identifiers)",
           "Lean Float = Rust f64 (exact text agreement of folded numbers), C10 formatter model"]
ASSUMPTIONS = ["value equality of source and emitted calculation is tested at two random exact assignments (polynomial "
               "identity testing), tolerance 1e-6 relative for the 10-digit printing of folded numbers"]
LEVEL_TEXT = ("Proof (Lean 4), partial: model of the bottom-up folding of calc() arguments and of BinOp printing; theorems: "
              "an all-numeric foldable tree evaluates to the Sass arithmetic value, a number is emitted only then, "
              "evaluation without foldable pairs preserves leaves and operators; the read-back of the printed text is "
              "checked by a reference calculator, not proved.")
LEVEL_NOTE = ("Partial: the print/re-read round trip is established by the reference calculator on generated trees, not by a "
              "Lean theorem; units are single units (no compound units).")
TECHNIQUE = "Lean 4 theorems over a model of calc folding/printing + exact-text correspondence + reference calculator on emitted text"
