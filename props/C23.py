"""C23 — is-superselector is a preorder with the expected monotonicity."""
import re
from tools.vlib import Case, Verdict, hx, unhx
from props import selgen as G

ID = "C23"
DRIVER = "drv_C23"
THEOREM_MODS = ["RsassModel.Theorems.C23"]
LEVEL = "proof"
# the code as it is compares attribute values with CssString's mixed-quote equality
RULE = ("cases = one SCSS stylesheet calling selector.is-superselector on 1-3 generated selector lists (type, "
        "universal, namespaced, class, id, placeholder, attribute with operators/quotes/modifiers, pseudo-class, "
        "pseudo-element, selector-argument pseudos incl. :not/:is/:has/:current/vendor prefixes, all four "
        "combinators, relative selectors `> a` / `:has(+ a, ~ b)` with a leading combinator at top level and in pseudo arguments, nesting depth <= 2); strata: refl (A,A), pair (independent / derived), triple-chain "
        "(b derived from a, c from b by add-simple / add-ancestor / sub-list), triple-pool (three lists over a "
        "tiny vocabulary), member, add-simple, add-ancestor, attr-escape; the same object is printed as text "
        "for rsass and as a term for the model; non-trivial = at least one call returned true")
TRUSTED = ["props/selgen.py prints the same selector as text and as a model term",
           "rsass's selector parser maps the generated text to the fields of the term (cross-checked per case "
           "by comparing rsass's selector.parse text with the model's printer: print_agree in the evidence)"]
ASSUMPTIONS = ["property clause 'adding simple selectors' is read as adding a type selector (when there is none), "
               "class, id (when there is none), attribute or pseudo-class — not a pseudo-element, for which "
               "Sass itself (and the property's own reference semantics) answers false",
               "'adding ancestors or parents' = prefixing `p ` / `p > ` to the complex selector"]


# Behaviour bit extracted from the running code (T1): does the `>` arm of is_superselector insist on
# the nearest combinator (`a > c` is not a superselector of `a > b ~ c`)?  It touches no C23 law
# (theorems hold for both), it only selects which variant of the model the code must agree with.
ALWAYS_QUIRKS = []


def extract(ctx):
    src = '@use "sass:selector";a{r0: selector.is-superselector("a > c", "a > b ~ c")}'
    out = ctx.impl(["compile\tscss\te\t10\tin.scss\t" + hx(src)])[0]
    strict = not (out.startswith("ok:") and "r0: true" in unhx(out[3:]))
    ALWAYS_QUIRKS[:] = ["parentStrict"] if strict else []


def line(law, pairs, sets):
    """one protocol line: generic `compile` op for rsass; the tail (after two empty fields)
    is read by the model driver only"""
    body = "".join(f"r{k}: selector.is-superselector({G.scss_str(G.set_text(sets[i]))}, "
                   f"{G.scss_str(G.set_text(sets[j]))});" for k, (i, j) in enumerate(pairs))
    body += "".join(f"p{k}: meta.inspect(selector.parse({G.scss_str(G.set_text(s))}));" for k, s in enumerate(sets))
    src = '@use "sass:selector";@use "sass:meta";a{' + body + "}"
    return "\t".join(["compile", "scss", "e", "10", "in.scss", hx(src), "", "", "super", law,
                      ",".join(f"{i}:{j}" for i, j in pairs)] + [G.set_term(s) for s in sets])


def qk(sets):
    return "s" if any("'" in G.set_text(s) for s in sets) else "d"


WITNESS_ATTR = None  # filled below


def attr_sets(v1, q1, v2, q2, v3, q3):
    return [[G.Sel([G.Comp(attrs=[G.Attr("a", "=", v, q)])])] for v, q in ((v1, q1), (v2, q2), (v3, q3))]


def gen(tier, rng, boost=1):
    n = (5000 if tier == "quick" else 60000) * boost
    T = [(0, 1), (1, 2), (0, 2)]
    # CssString equality corner: raw text when the quote kinds agree, unquoted text otherwise
    for (v1, q1, v2, q2, v3, q3) in ((r"\-", "d", "-", "s", "-", "d"), (r"\-", "s", "-", "d", "-", "s"),
                                     ("v", "d", "v", "n", "v", "s"), (r"\-", "d", r"\-", "n", "-", "d"),
                                     (r"\10 ", "d", r"\a ", "s", r"\a ", "d"), ("v w", "d", "v w", "s", "v w", "d")):
        yield Case(line("trans", T, attr_sets(v1, q1, v2, q2, v3, q3)), "attr-escape")
    for _ in range(n):
        k = rng.random()
        q = rng.choice(["d", "s"])
        if k < 0.08:
            a = G.gen_set(rng, 2, 3, q)
            yield Case(line("refl", [(0, 0)], [a]), "refl")
        elif k < 0.2:
            a = G.gen_set(rng, 2, 3, q)
            b = G.gen_set(rng, 2, 3, q) if rng.random() < 0.5 else G.specialise(rng, a, q)
            yield Case(line("none", [(0, 1), (1, 0)], [a, b]), "pair")
        elif k < 0.5:
            a = G.gen_set(rng, 2, 3, q)
            b = G.specialise(rng, a, q)
            c = G.specialise(rng, b, q)
            if rng.random() < 0.15:
                c = G.gen_set(rng, 1, 2, q)
            sets = [a, b, c]
            if rng.random() < 0.2:
                rng.shuffle(sets)
            yield Case(line("trans", T, sets), "triple-chain")
        elif k < 0.62:
            # tiny vocabulary: many accidental superselector relations
            pool = []
            for _ in range(6):
                m = rng.randint(1, 3)
                comps = [G.Comp(elem=rng.choice([None, "a", "*"]), classes=rng.sample(["c", "d"], rng.randint(0, 2)))
                         for _ in range(m)]
                for c in comps:
                    if c.is_empty():
                        c.classes.append("c")
                pool.append(G.Sel(comps, [rng.choice(["d", ">", "~", "+"]) for _ in range(m - 1)]))
            sets = [[rng.choice(pool) for _ in range(rng.randint(1, 2))] for _ in range(3)]
            yield Case(line("trans", T, sets), "triple-pool")
        elif k < 0.72:
            a = G.gen_set(rng, 2, 3, q)
            yield Case(line("mono", [(0, 1)], [a, [rng.choice(a)]]), "member")
        elif k < 0.87:
            a = G.gen_set(rng, 2, 3, q)
            x = rng.choice(a)
            for _ in range(rng.choice([1, 1, 2, 3])):
                x = G.add_simple(rng, x, q)
            yield Case(line("mono", [(0, 1)], [a, [x]]), "add-simple")
        else:
            a = G.gen_set(rng, 2, 3, q)
            x = rng.choice(a)
            for _ in range(rng.choice([1, 1, 2])):
                x = G.add_ancestor(rng, x, q)
            yield Case(line("mono", [(0, 1)], [a, [x]]), "add-ancestor")


def parse_impl(impl, npairs, nsets):
    """-> (string of t/f per call, [parse texts]) or None"""
    if not impl.startswith("ok:"):
        return None
    css = unhx(impl[3:])
    rs = re.findall(r"^\s*r(\d+): (true|false);$", css, re.M)
    if len(rs) != npairs:
        return None
    ps = re.findall(r"^\s*p(\d+): (.*);$", css, re.M)
    texts = []
    for _, t in ps:
        if t.startswith("(") and t.endswith(",)"):
            t = t[1:-2]
        texts.append(t)
    return "".join("t" if v == "true" else "f" for _, v in rs), texts


def fields(case):
    f = case.lines[0].split("\t")
    law = f[9]
    pairs = [tuple(map(int, p.split(":"))) for p in f[10].split(",") if p]
    return law, pairs, len(f) - 11


STATS = {"print_agree": 0, "print_differ": 0, "trans_hyp_met": 0, "trans_cases": 0, "cases_with_relative_selector": 0}


def judge(case, impl, asis, spec):
    law, pairs, nsets = fields(case)
    got = parse_impl(impl, len(pairs), nsets)
    if got is None:
        # the generated selectors are all valid: an error / crash is a failure of every law
        return Verdict(False, "is-superselector did not return booleans: " + impl[:60])
    bools, texts = got
    if any(re.search(r"(^|[(,] ?)[>+~] ", t) for t in texts):
        STATS["cases_with_relative_selector"] += 1
    mb, _, mprint = (asis or "").partition("|")
    mtexts = [unhx(h) for h in mprint.split(",")] if mprint else []
    if mtexts == texts:
        STATS["print_agree"] += 1
    else:
        STATS["print_differ"] += 1
    why = None
    if law == "refl":
        if "f" in bools:
            why = "a selector list is not a superselector of itself"
    elif law == "mono":
        if "f" in bools:
            why = "list is not a superselector of its member / of a member with simple selectors or ancestors added"
    elif law == "trans":
        for k in range(0, len(bools) - 2, 3):
            STATS["trans_cases"] += 1
            if bools[k] == "t" and bools[k + 1] == "t":
                STATS["trans_hyp_met"] += 1
                if bools[k + 2] != "t":
                    why = "not transitive: a ⊒ b and b ⊒ c but not a ⊒ c"
    return Verdict(bools == mb, why)


def nontrivial(case, impl, spec):
    law, pairs, nsets = fields(case)
    got = parse_impl(impl, len(pairs), nsets)
    return bool(got) and "t" in got[0]


def extra_coverage(ctx, res):
    d = dict(STATS)
    d["trans_hypothesis_hit_rate"] = round(STATS["trans_hyp_met"] / max(1, STATS["trans_cases"]), 3)
    return {"c23_stats": d}


LEVEL_TEXT = ("Proof (Lean 4) over a function-by-function model of Selector/Compound/Pseudo/Arg/Attribute/ElemType "
              "::is_superselector: reflexivity, transitivity (full for the specification model; for the code as it is "
              "on selectors whose attribute values carry no backslash escapes, with the refuting triple for the rest), "
              "list ⊒ member, monotonicity under adding simple selectors and ancestors/parents — for all selectors, any "
              "nesting depth of selector-argument pseudos; tied to the code by exact agreement of "
              "selector.is-superselector with the model on generated pairs/triples.")
LEVEL_NOTE = ("Trusted: Lean kernel; the generator printing the same selector as text and as term (cross-checked through "
              "rsass's parser + the model printer); the nom selector parser itself is not modelled.")
TECHNIQUE = "Lean 4 theorems over a model parametric in the pseudo-argument relation + exact differential correspondence"
