"""C31 — Color channels stay in range and conversions round-trip."""
import re
from fractions import Fraction as F
from tools.vlib import Case, Verdict
from props import _color as C

ID = "C31"
DRIVER = "drv_C31"
THEOREM_MODS = ["RsassModel.Theorems.C31"]
LEVEL = "proof"
RULE = ("c31chan: one colour constructor (hex 3/4/6/8 digits, every CSS name in random letter case + transparent, "
        "rgb()/rgba() comma and space syntax with numbers and percentages, hsl()/hsla(), hwb() space and comma "
        "syntax, rgba($color,$alpha)) with random, boundary and out-of-range channels; reports of red/green/blue/"
        "hue/saturation/lightness/whiteness/blackness/alpha are range-checked on their precision-16 text (closed "
        "bounds with 1e-9 slack = output precision, hue < 360 exactly) and compared with the model at precision 10.  c31rebuild: the colour compared (==) with the colour rebuilt from its own "
        "rgb, hsl and hwb channel reports.  c31eq: two constructors of exactly the same rgba in different "
        "notations (must be ==) and random pairs.  Non-trivial = the constructor compiles and the colour is "
        "neither black, white nor fully transparent.")
TRUSTED = ["Lean Float = IEEE f64 as used by Rust for + - * / floor round fmod (validated by the correspondence run)",
           "python Fraction calculator of CSS hsl/hwb/rgb (props/_color.py) used to decide which pairs have the same rgba",
           "C10 number formatter model (RsassModel/Num/Format.lean) used to print the model's channel reports"]
ASSUMPTIONS = ["theorems are over exact rationals; the f64 implementation is tied to the same definitions "
               "instantiated with Float by differential runs at printed precision",
               "NaN / infinite channel arguments are outside the generated domain (C01 covers crashes)",
               "red()/green()/blue() report rounded channels, so the rgb rebuild is required to give an equal "
               "colour only when the colour's exact rgb channels are integers"]
FLAGS = ["maxTieRedGreen", "hslUnclamped", "hwbUnclamped", "degModNegZero", "hslaEqStructural"]


def extract(ctx):
    C.extract_names(ctx)


def on_broken_build(ctx, out):
    return ["lake build failed after regenerating Generated/ColorNames.lean from the running code: "
            + out[-600:].replace("\n", " ")]


# ------------------------------------------------------------------------------------------ generator

NICE_PCT = [0, 100, 50, 25, 75, 10, 90, 1, 99, 33, 20, 12.5, 0.5, 99.5]
OUT_PCT = [-20, -0.5, 100.5, 120, 150, 250, -100]
HUES = [0, 60, 120, 180, 240, 300, 360, 30, 90, 359.5, 360.5, 720, -60, -360, -720, -0.5, 420, 1080, 45.25]


def num(rng, lo, hi):
    k = rng.random()
    if k < 0.3:
        return float(rng.randint(int(lo), int(hi)))
    if k < 0.6:
        return round(rng.uniform(lo, hi), rng.randint(0, 4))
    if k < 0.8:
        return rng.randint(int(lo) * 8, int(hi) * 8) / 8
    return rng.uniform(lo, hi)


def pct(rng):
    k = rng.random()
    if k < 0.3:
        return float(rng.choice(NICE_PCT))
    if k < 0.42:
        return float(rng.choice(OUT_PCT))
    return num(rng, -20, 130) if k < 0.6 else num(rng, 0, 100)


def hue(rng):
    k = rng.random()
    if k < 0.3:
        return float(rng.choice(HUES))
    return num(rng, -800, 800) if k < 0.6 else num(rng, 0, 360)


def chan(rng):
    k = rng.random()
    if k < 0.25:
        return (float(rng.choice([0, 255, 128, 1, 254, 127.5, 0.5, 254.5, 256, 300, -1, -50, 17, 51])), "n")
    if k < 0.45:
        return (pct(rng), "p")
    return (num(rng, -50, 300) if k < 0.6 else num(rng, 0, 255), "n")


def alpha(rng):
    k = rng.random()
    if k < 0.35:
        return None
    if k < 0.55:
        return (float(rng.choice([0, 1, 0.5, 0.25, 2, -1, 1.5, -0.5, 0.999, 0.001])), "n")
    if k < 0.7:
        return (pct(rng), "p")
    return (num(rng, -1, 2) if k < 0.8 else round(rng.random(), rng.randint(1, 6)), "n")


def nonneg(t):
    import math
    return all(a is None or math.copysign(1.0, a[0]) > 0 for a in t[1:5])


def hexlit(rng):
    k = rng.random()
    n = rng.choice([3, 4, 6, 8])
    if k < 0.35:
        # tie patterns between channels: the grey / two-equal-channels cases where hue and saturation degenerate
        a, b = rng.choice("0123456789abcdef"), rng.choice("0123456789abcdef")
        a2, b2 = rng.choice("0123456789abcdef"), rng.choice("0123456789abcdef")
        pat = rng.choice(["aab", "aba", "baa", "aaa"])
        if n in (3, 4):
            s = "".join({"a": a, "b": b}[c] for c in pat)
        else:
            s = "".join({"a": a + a2, "b": b + b2}[c] for c in pat)
        if n in (4, 8):
            s += "".join(rng.choice("0123456789abcdef") for _ in range(n // 4))
    else:
        s = "".join(rng.choice("0123456789abcdef") for _ in range(n))
    if rng.random() < 0.3:
        s = "".join(c.upper() if rng.random() < 0.5 else c for c in s)
    return ("hex", s)


def randcase(rng, s):
    k = rng.random()
    if k < 0.6:
        return s
    if k < 0.8:
        return s.upper()
    return "".join(c.upper() if rng.random() < 0.5 else c for c in s)


def ctor(rng, names, depth=0):
    k = rng.randrange(10)
    if k == 0:
        return hexlit(rng)
    if k == 1:
        return ("name", randcase(rng, rng.choice(names)))
    if k in (2, 3, 4):
        h = rng.choice(["rgb", "rgba", "rgbs", "rgbas"])
        t = (h, chan(rng), chan(rng), chan(rng), alpha(rng))
    elif k in (5, 6):
        h = rng.choice(["hsl", "hsla", "hsls", "hslas"])
        t = (h, (hue(rng), rng.choice("nd")), (pct(rng), "p"), (pct(rng), "p"), alpha(rng))
    elif k in (7, 8):
        h = rng.choice(["hwb", "hwbc"])
        w, b = pct(rng), pct(rng)
        if rng.random() < 0.15:
            b = 100 - w  # w + b == 100%
        t = (h, (hue(rng), rng.choice("nd")), (w, "p"), (b, "p"), alpha(rng))
    else:
        if depth > 1:
            return hexlit(rng)
        a = alpha(rng)
        while a is None or a[1] != "n":
            a = alpha(rng)
        return ("rgba2", ctor(rng, names, depth + 1), a)
    if t[0] in ("rgbs", "rgbas", "hsls", "hslas", "hwb") and not nonneg(t):
        # the space/slash syntax is generated without negative numbers (`a -b` and `c / (-d)` are
        # arithmetic in SassScript; that is expression parsing, not colour construction)
        f = lambda a: None if a is None else (abs(a[0]), a[1])
        t = (t[0], f(t[1]), f(t[2]), f(t[3]), f(t[4]))
    return t


def same_pairs(rng, names, cssn):
    """pairs of constructors with exactly the same rgba in different notations"""
    out = []
    # a named colour, its hex forms, rgb() with numbers and with percentages where exact
    n = rng.choice(names)
    if n != "transparent":
        v = cssn[n]
        r, g, b = v >> 16, (v >> 8) & 255, v & 255
        forms = [("name", randcase(rng, n)), ("hex", "%06x" % v), ("hex", "%06xff" % v),
                 ("rgb", (float(r), "n"), (float(g), "n"), (float(b), "n"), None),
                 ("rgbas", (float(r), "n"), (float(g), "n"), (float(b), "n"), (100.0, "p")),
                 ("rgba2", ("hex", "%06x" % v), (1.0, "n"))]
        if r % 17 == 0 and g % 17 == 0 and b % 17 == 0:
            forms.append(("hex", "%x%x%x" % (r // 17, g // 17, b // 17)))
        out.append((rng.choice(forms), rng.choice(forms)))
    # hsl with hue a multiple of 30 and s, l multiples of 5%: rgb channels are exact decimals
    h = rng.choice(range(0, 360, 30))
    s = rng.choice(range(0, 101, 5))
    l = rng.choice(range(0, 101, 5))
    a = rng.choice([None, (0.5, "n"), (25.0, "p")])
    t1 = ("hsl", (float(h + 360 * rng.choice([0, 0, 1, -1, 2])), "n"), (float(s), "p"), (float(l), "p"), a)
    r, g, b, _ = C.exact_rgba(t1)
    t2 = ("rgb", (float(r), "n"), (float(g), "n"), (float(b), "n"), a)
    w, k = min(r, g, b) / 255 * 100, (1 - max(r, g, b) / 255) * 100
    t3 = ("hwbc", (float(h), "d"), (float(w), "p"), (float(k), "p"), a)
    t4 = ("hsla", (float(h if s and 0 < l < 100 else rng.choice(range(0, 360, 30))), "d"), (float(s), "p"), (float(l), "p"), a)
    forms = [t1, t2, t3, t4]
    out.append((rng.choice(forms), rng.choice(forms)))
    return out


def gen(tier, rng, boost=1):
    cssn = C.css_names()
    names = sorted(cssn) + ["transparent"]
    # all named colours, every run
    for n in names:
        yield Case("c31chan\t" + C.enc(("name", randcase(rng, n))), "name")
        yield Case("c31rebuild\t" + C.enc(("name", n)), "name-rebuild")
        if n != "transparent":
            yield Case("c31eq\t" + C.enc(("name", n)) + "\t" + C.enc(("hex", "%06x" % cssn[n])), "name-eq-hex")
    # boundary hex colours: every combination of {00, 80, ff} per channel
    for r in ("00", "80", "ff"):
        for g in ("00", "80", "ff"):
            for b in ("00", "80", "ff"):
                yield Case("c31chan\t" + C.enc(("hex", r + g + b)), "hex-corners")
                yield Case("c31rebuild\t" + C.enc(("hex", r + g + b)), "hex-corners-rebuild")
    n = (2500 if tier == "quick" else 60000) * boost
    for i in range(n):
        k = rng.random()
        if k < 0.45:
            t = ctor(rng, names)
            yield Case("c31chan\t" + C.enc(t), "chan-" + t[0].rstrip("sa2c"), {"scss": C.show(t)})
        elif k < 0.75:
            t = ctor(rng, names)
            yield Case("c31rebuild\t" + C.enc(t), "rebuild-" + t[0].rstrip("sa2c"), {"scss": C.show(t)})
        elif k < 0.9:
            for a, b in same_pairs(rng, names, cssn):
                yield Case("c31eq\t" + C.enc(a) + "\t" + C.enc(b), "eq-same", {"scss": C.show(a) + " == " + C.show(b)})
        else:
            a, b = ctor(rng, names), ctor(rng, names)
            yield Case("c31eq\t" + C.enc(a) + "\t" + C.enc(b), "eq-random", {"scss": C.show(a) + " == " + C.show(b)})


# ------------------------------------------------------------------------------------------ judging

_TERM = {}


def parse_term(s):
    """inverse of C.enc for constructor terms (no call/mix)"""
    import struct
    toks = s.split(" ")

    def num(t):
        return (struct.unpack("<d", struct.pack("<Q", int(t[:-1])))[0], t[-1])

    def go(i):
        h = toks[i]
        if h in ("hex", "name"):
            return (h, toks[i + 1]), i + 2
        if h == "rgba2":
            c, j = go(i + 1)
            return ("rgba2", c, num(toks[j])), j + 1
        a = toks[i + 4]
        return (h, num(toks[i + 1]), num(toks[i + 2]), num(toks[i + 3]), None if a == "-" else num(a)), i + 5
    return go(0)[0]


RANGES = [("red", 0, 255, False), ("green", 0, 255, False), ("blue", 0, 255, False), ("hue", 0, 360, True),
          ("saturation", 0, 100, False), ("lightness", 0, 100, False), ("whiteness", 0, 100, False),
          ("blackness", 0, 100, False), ("alpha", 0, 1, False)]
TOL = F(1, 10 ** 9)


def close(a, b):
    return a is not None and b is not None and all(abs(x - y) <= TOL for x, y in zip(a, b))


def judge(case, impl, asis, spec):
    f = case.lines[0].split("\t")
    op = f[0]
    if impl.startswith(("panic:", "abort:")):
        return Verdict(False, "crash: " + impl[:60])
    if impl.startswith("err:"):
        # the statement is about colours that exist; a rejected constructor is only a correspondence matter
        return Verdict(asis == "err", None)
    body = impl[3:].split("|")
    if op == "c31chan":
        corr = asis == "ok:" + "|".join(body[:9])
        why = None
        for (name, lo, hi, excl), text in zip(RANGES, body[9:]):
            v = C.dec(text)
            if v is None:
                why = f"{name} is not a plain number: {text}"
                break
            # closed ranges are judged to the output precision (10 digits): f64 noise such as
            # saturation 100.0000000000004% prints as 100%; the half-open hue bound is judged exactly
            if v < lo - TOL or v > hi + TOL or (excl and v >= hi):
                why = f"{name} out of range: {text}"
                break
        return Verdict(corr, why)
    if op == "c31rebuild":
        corr = asis == impl
        why = None
        if body[1] != "t":
            why = "colour rebuilt from its own hsl channels is not equal to it"
        elif body[2] != "t":
            why = "colour rebuilt from its own hwb channels is not equal to it"
        elif body[0] != "t":
            ex = C.exact_rgba(parse_term(f[1]))
            if ex is not None and all(x.denominator == 1 for x in ex[:3]):
                why = "colour with integer rgb channels rebuilt from its own rgb channels is not equal to it"
        return Verdict(corr, why)
    if op == "c31eq":
        corr = asis == impl
        why = None
        if body[0] != "t":
            a, b = C.exact_rgba(parse_term(f[1])), C.exact_rgba(parse_term(f[2]))
            if close(a, b):
                why = "two colours with the same rgba channels compare unequal"
        return Verdict(corr, why)
    return Verdict(True, None)


def nontrivial(case, impl, spec):
    if not impl.startswith("ok:"):
        return False
    f = case.lines[0].split("\t")
    ex = C.exact_rgba(parse_term(f[1]))
    return ex is not None and ex[3] != 0 and ex[:3] not in ((0, 0, 0), (255, 255, 255))


LEVEL_TEXT = ("Proof (Lean 4) over a function-by-function model of value/colors/*.rs and the colour constructors, "
              "stated over exact rationals: every channel a constructor or conversion reports is in range for all "
              "inputs, including out-of-range ones; rgb->hsl->rgb and rgb->hwb->rgb round trips; colours with the "
              "same rgba compare equal; refutation theorems for the five deviations of the code.  Tied to the code "
              "by differential execution of the same definitions instantiated with Float against the compiled "
              "channel functions at printed precision, plus a Python range/equality oracle on the implementation's "
              "own reports.")
LEVEL_NOTE = ("Trusted: Lean kernel; Lean Float = IEEE f64; C10 formatter model; Python Fraction colour calculator. "
              "Theorems are about exact arithmetic; f64 rounding is covered by the differential runs only.")
TECHNIQUE = "Lean 4 theorems over an exact-rational model of the colour code + differential correspondence (Float instance) + T1 name-table extraction"
