"""Shared by the loader family C02, C03, C04, C39: the `load` protocol line, canonical
form of the implementation's answer, an independent Python statement of what the
properties demand (location-major lookup, canonical file identity, DFS with a loading
set and a module cache), and the live deviation flags of the sibling properties.

Protocol (harness/src/ops/c02.rs):  load <limit> <rootname> <roots> <faults> <files>
"""
import re
import types
from tools import vlib
from tools.vlib import Case, Verdict, unhx

FAMILY = ["C02", "C03", "C04", "C39"]
LIMIT = 400  # loader calls after which the virtual loader declares a case diverging

USE_CANDS = ["{b}{n}.scss", "{b}_{n}.scss", "{b}{n}/index.scss", "{b}{n}/_index.scss", "{b}{n}.css", "{b}_{n}.css"]
IMPORT_CANDS = ["{b}{n}.import.scss", "{b}_{n}.import.scss", "{b}{n}.scss", "{b}_{n}.scss",
                "{b}{n}/index.import.scss", "{b}{n}/_index.import.scss", "{b}{n}/index.scss", "{b}{n}/_index.scss",
                "{b}{n}.css", "{b}_{n}.css"]
KINDS = {"i": "import", "I": "import", "u": "use", "f": "forward", "l": "loadCss", "U": "use", "F": "forward"}
CONFIGURED = "UF"  # `@use … with (…)` / `@forward … with (…)`


def line(files, root="in.scss", roots=".", faults="-", limit=LIMIT, op="load"):
    """files: list of (path, [items])"""
    return "\t".join([op, str(limit), root, roots, faults, ";".join(p + "=" + ",".join(its) for p, its in files)])


class Parsed:
    def __init__(self, ln):
        f = ln.split("\t")
        self.op, self.limit, self.root, self.roots, self.faults = f[0], int(f[1]), f[2], f[3].split(","), f[4]
        self.files = []
        for ent in f[5].split(";"):
            if ent:
                p, its = ent.split("=", 1)
                self.files.append((p, [i for i in its.split(",") if i]))
        self.tag = {p: i for i, (p, _) in enumerate(self.files)}
        self.items = dict(self.files)
        self.paths = set(self.items)
        self.dirs = set()
        for p in self.paths:
            segs = p.split("/")
            for i in range(1, len(segs)):
                self.dirs.add("/".join(segs[:i]))
        self.load_paths = ["" if r == "." else r for r in self.roots][1:]
        self.base = "" if self.roots[0] == "." else self.roots[0]

    def resolve(self, full):
        """POSIX resolution of a relative path text against the file set (no symlinks)"""
        if full.startswith("/"):
            return None
        comps = full.split("/")
        cur = []
        for i, c in enumerate(comps):
            last = i + 1 == len(comps)
            if c in ("", "."):
                if last:
                    return None
            elif c == "..":
                if last or not cur:
                    return None
                cur.pop()
            else:
                cur.append(c)
                if not last and "/".join(cur) not in self.dirs:
                    return None
        p = "/".join(cur)
        return p if p in self.paths else None


def cand_names(kind, url):
    """the documented candidate list of the property statement (C04)"""
    if url.endswith((".css", ".scss", ".sass")):
        return [url]
    b, n = (url[:url.rfind("/") + 1], url[url.rfind("/") + 1:]) if "/" in url else ("", url)
    return [c.format(b=b, n=n) for c in (IMPORT_CANDS if kind == "import" else USE_CANDS)]


def locations(pc, importer):
    """importing file's directory first, then each load path in order"""
    d = importer[:importer.rfind("/") + 1] if "/" in importer else ""
    return [d] + pc.load_paths


def lookup(pc, importer, kind, url):
    """first existing candidate in the importing file's directory, else in load path 1, ..."""
    locs = locations(pc, importer)
    for li, loc in enumerate(locs):
        u = url if li > 0 else url  # the url is tried unchanged in a load path
        for c in cand_names(kind, u):
            p = pc.resolve(loc + c)
            if p is not None:
                return p
    return None


def css_fallback(code, url):
    return (url.startswith(("http://", "https://", "//")) or url.endswith(".css")
            or (code == "I" and url.startswith("url(") and url.endswith(")")))


class Loop(Exception):
    pass


class Stop(Exception):
    pass


def spec_walk(pc):
    """The statement of C02/C03 executed directly: depth-first execution with file identity =
    canonical path, a loading set and a module cache.  Returns (class, executed-as-module
    counts per tag, edges)."""
    loading = [pc.root]
    modules = set()
    execs = {}
    steps = [0]

    def body(path):
        steps[0] += 1
        if steps[0] > 20000:
            raise Stop()
        if path.endswith(".css"):
            return
        for it in pc.items[path]:
            code = it[0]
            if code not in KINDS:
                continue
            kind, url = KINDS[code], it[1:]
            p = lookup(pc, path, kind, url)
            if p is None:
                if kind == "import" and css_fallback(code, url):
                    continue
                raise Stop()
            if p in loading:
                raise Loop()
            if kind in ("use", "forward"):
                if p in modules:
                    if code == "U":
                        raise Stop()  # a loaded module can't be configured by @use (error since 23c2f01)
                    continue
                execs[p] = execs.get(p, 0) + 1
                loading.append(p)
                body(p)
                loading.pop()
                modules.add(p)
            else:
                loading.append(p)
                body(p)
                loading.pop()
    try:
        body(pc.root)
        return "ok", execs
    except Loop:
        return "loop", execs
    except Stop:
        return "err", execs


def acyclic(pc):
    """no cycle among the files reachable from the root (edges = resolved loads)"""
    edges = {}
    todo = [pc.root]
    while todo:
        f = todo.pop()
        if f in edges:
            continue
        edges[f] = []
        if f.endswith(".css"):
            continue
        for it in pc.items[f]:
            if it[0] in KINDS:
                p = lookup(pc, f, KINDS[it[0]], it[1:])
                if p is not None:
                    edges[f].append(p)
                    todo.append(p)
    state = {}

    def visit(f):
        state[f] = 1
        for g in edges[f]:
            if state.get(g) == 1:
                return False
            if g not in state and not visit(g):
                return False
        state[f] = 2
        return True
    return visit(pc.root)


TOK = re.compile(r"\.f(\d+) \{|\.r(\d+)_(\d+) \{\s*v: ([^;]*);|@import ([^;]*);")


def markers_of(css):
    out = []
    for m in TOK.finditer(css):
        if m.group(1) is not None:
            out.append("f" + m.group(1))
        elif m.group(2) is not None:
            out.append(f"r{m.group(2)}_{m.group(3)}={m.group(4)}")
        else:
            u = m.group(5).strip()
            if len(u) >= 2 and u[0] == u[-1] and u[0] in "\"'":
                u = u[1:-1]
            out.append("@" + u)
    return out


class Impl:
    """canonical view of one harness answer"""

    def __init__(self, raw):
        self.raw = raw
        self.cls, self.trace, self.markers, self.fired = "bad", None, [], 0
        self.later_cls, self.later_markers, self.same = None, None, None
        self.msg = ""
        if raw.startswith("abort:"):
            self.cls = "abort"
            return
        if raw.startswith("panic:"):
            self.cls = "panic"
            return
        if ":" not in raw:
            return
        cls, rest = raw.split(":", 1)
        parts = rest.split("|")
        if len(parts) < 3:
            return
        self.cls = "abort" if cls == "diverge" else cls
        self.trace = parts[0]
        text = unhx(parts[1])
        if cls == "ok":
            self.markers = markers_of(text)
        else:
            self.msg = text
        self.fired = int(parts[2])
        if len(parts) >= 5:
            lc, lh = parts[3].split(":", 1)
            self.later_cls = lc
            self.later_markers = markers_of(unhx(lh)) if lc == "ok" else []
            self.same = parts[4]

    def canon(self):
        s = self.cls + "|" + ("" if self.cls == "abort" else (self.trace or "")) + "|" + ",".join(self.markers)
        if self.later_cls is not None:
            s += "|" + self.later_cls + "|" + ",".join(self.later_markers)
        return s


def corresponds(im, model):
    """implementation vs one model answer `class|trace|markers[|class|markers]`"""
    if model is None:
        return True
    m = model.split("|")
    if len(m) < 3:
        return False
    if im.cls != m[0]:
        return False
    if im.cls == "abort":
        return True
    if m[1] != "*" and m[1] != (im.trace or ""):
        return False
    if m[2] != ",".join(im.markers):
        return False
    if im.later_cls is not None:
        if len(m) < 5 or m[3] != im.later_cls or m[4] != ",".join(im.later_markers):
            return False
    return True


class FamilyFlags(list):
    """Deviation flags of the *sibling* properties' open findings whose witness still fails on
    the current code.  The four properties share one model; a lookup defect registered under
    C04 also shapes the graphs C02 explores.  Evaluated lazily (after the harness is built)."""

    def __init__(self, own):
        super().__init__()
        self.own = own
        self._v = None

    def _compute(self):
        import importlib
        own = importlib.import_module("props." + self.own)
        flags = []
        for pid in FAMILY:
            if pid == self.own:
                continue
            fs = [f for f in vlib.load_findings(pid) if f.get("status") == "open"]
            if not fs:
                continue
            try:
                mod = importlib.import_module("props." + pid)
            except ImportError:
                continue
            shim = types.SimpleNamespace(ID=pid, DRIVER=own.DRIVER, judge=mod.judge,
                                         CASE_TIMEOUT=getattr(mod, "CASE_TIMEOUT", 30))
            res = vlib.evaluate(shim, [Case(f["witness"], "witness") for f in fs], set())
            for f, r in zip(fs, res):
                if r["v"].fails is not None:
                    flags += f.get("flags", [])
        return sorted(set(flags))

    def __iter__(self):
        if self._v is None:
            self._v = self._compute()
        return iter(self._v)

    def __len__(self):
        return len(list(iter(self)))

    def __bool__(self):
        return len(self) > 0


def consistency(pc, spec):
    """the Lean spec model and the Python statement must agree on the result class; a
    difference is a defect of the machinery, not of rsass"""
    if spec is None:
        return
    cls, _ = spec_walk(pc)
    if spec.split("|")[0] != cls:
        raise vlib.InfraError(f"spec model says {spec.split('|')[0]} but the Python statement says {cls} on {pc.files!r}")
