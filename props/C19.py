"""C19 — Nested selectors combine as Sass specifies."""
import itertools
from tools.vlib import Case, Verdict, hx, unhx
from props._sel import (Attr, Pseudo, Compound, Sel, Decl, Rule, sheet_term, sheet_scss, css_blocks, render_blocks,
                        REL_SYM)

ID = "C19"
DRIVER = "drv_C19"
THEOREM_MODS = ["RsassModel.Theorems.C19"]
LEVEL = "proof"
CASE_TIMEOUT = 60
RULE = ("rule trees nested 1..4 levels; every level has a selector list of 1..3 complex selectors (1..3 compounds, "
        "combinators ' ', >, ~, +, leading combinators) built from element types, classes, ids, placeholders, attributes "
        "(bare, op+value, quoted, modifier) and pseudo-classes/elements (plain, :not/:is/:where/:has with selector "
        "arguments, nth-child); `&` in every position: alone, with trailing simple selectors, with a name suffix (&-x), "
        "left/right of combinators, several times, inside pseudo-class arguments, `&#id` on parents that have an id; declarations before, between and "
        "after nested rules; @at-root with `&`; both output styles. Non-trivial = at least two nested levels.")
TRUSTED = ["props/_sel.py: the AST object printed as SCSS text (for rsass) and as a term (for the model)",
           "the SCSS front end (parser/selectors.rs, sass/selectors.rs) delivering that AST to css::SelectorSet — "
           "validated by the correspondence itself",
           "python text oracle of the property (textual `outer inner` / `&` substitution)"]
ASSUMPTIONS = ["names are plain identifiers (escapes are C25's subject)",
               "`CompoundSelector::append` (print + re-parse) is modelled structurally; the cases in which the re-parse "
               "fails are predicted by the model and must be compile errors (a panic before /repo 1acf5fd)",
               "where the rows of the round-robin merge differ in length the statement fixes no order: the oracle then "
               "compares the emitted selectors as a multiset, the correspondence compares the exact order"]

ELEMS = ["a", "b", "div", "li", "span"]
CLASSES = ["x", "y", "foo", "bar", "c1", "a-b"]
IDS = ["i", "main"]
PHS = ["p", "q"]
PLAIN_PSEUDO = ["hover", "focus", "first-child", "checked"]


def g_attr(rng):
    k = rng.random()
    if k < 0.4:
        return Attr(rng.choice(["h", "data-x", "t"]))
    if k < 0.7:
        return Attr(rng.choice(["h", "t"]), rng.choice(["=", "^=", "$=", "*=", "~=", "|="]), rng.choice(["v", "w1", "_z"]))
    if k < 0.9:
        return Attr(rng.choice(["h", "t"]), rng.choice(["=", "*="]), rng.choice(["v w", "1x", ""]), rng.choice("ds"))
    return Attr("h", "=", rng.choice(["v", "v w"]), None, rng.choice("is"))


def fix_attr(a):
    if a.quotes is None:
        a.quotes = "n" if a.val == "v" else "d"
    return a


def g_simple_compound(rng, allow_ph=True, allow_pseudo_sel=True, depth=0):
    c = Compound()
    k = rng.random()
    if k < 0.45:
        c.elem = rng.choice(ELEMS)
    elif k < 0.5:
        c.elem = "*"
    n = rng.choice([0, 0, 1, 1, 1, 2]) if c.elem else rng.choice([1, 1, 2])
    for _ in range(n):
        j = rng.random()
        if j < 0.5:
            c.classes.append(rng.choice(CLASSES))
        elif j < 0.62 and c.id is None:
            c.id = rng.choice(IDS)
        elif j < 0.68:
            c.attrs.append(fix_attr(g_attr(rng)))
        elif j < 0.76 and allow_ph:
            c.phs.append(rng.choice(PHS))
        elif j < 0.9:
            c.pseudos.append(Pseudo(rng.choice(PLAIN_PSEUDO)))
        elif j < 0.94:
            c.pseudos.append(Pseudo(rng.choice(["before", "after"]), rng.random() < 0.7))
        elif allow_pseudo_sel and depth < 1:
            nm = rng.choice(["not", "is", "where", "has", "nth-child"])
            if nm == "nth-child":
                c.pseudos.append(Pseudo(nm, False, ("L", [Sel(Compound(elem="2n"), [("j", Compound(elem="1"))])])))
            else:
                arg = [Sel(g_simple_compound(rng, False, False, depth + 1)) for _ in range(rng.choice([1, 1, 2]))]
                c.pseudos.append(Pseudo(nm, False, ("L", arg)))
        else:
            c.classes.append(rng.choice(CLASSES))
    return c


def g_plain_sel(rng, allow_lead=False, allow_ph=True):
    n = rng.choice([1, 1, 1, 2, 2, 3])
    first = g_simple_compound(rng, allow_ph)
    steps = [(rng.choice("aaapsj"), g_simple_compound(rng, allow_ph)) for _ in range(n - 1)]
    if allow_lead and rng.random() < 0.25:
        steps = [(rng.choice("psj"), first)] + steps
        first = Compound()
    return Sel(first, steps)


def amp_tail(rng, c=None):
    """`&` followed by simple selectors"""
    c = c or Compound()
    c.backref = True
    for _ in range(rng.choice([0, 1, 1, 2])):
        j = rng.random()
        if j < 0.5:
            c.classes.append(rng.choice(CLASSES))
        elif j < 0.7:
            c.pseudos.append(Pseudo(rng.choice(PLAIN_PSEUDO)))
        elif j < 0.8:
            c.attrs.append(fix_attr(g_attr(rng)))
        elif j < 0.85:
            c.pseudos.append(Pseudo("before", True))
        elif j < 0.93 and c.id is None:
            c.id = rng.choice(IDS + ["j"])
        else:
            c.classes.append(rng.choice(CLASSES))
    return c


def g_amp_sel(rng, suffix_ok, pseudo_ok=True):
    k = rng.random()
    if not pseudo_ok:
        k *= 0.8
    if k < 0.05:
        c = Compound(backref=True, id=rng.choice(IDS + ["j"]))
        if suffix_ok and rng.random() < 0.3:
            c.elem = rng.choice(["-x", "_s"])
        if rng.random() < 0.4:
            c.classes.append(rng.choice(CLASSES))
        if rng.random() < 0.3:
            return Sel(g_simple_compound(rng), [(rng.choice("ap"), c)]), "amp-id"
        return Sel(c), "amp-id"
    if k < 0.22:
        return Sel(amp_tail(rng)), "amp-tail"
    if k < 0.36 and suffix_ok:
        c = Compound(backref=True, elem=rng.choice(["-x", "_s", "-sfx", "2", "x"]))
        if rng.random() < 0.3:
            c.classes.append(rng.choice(CLASSES))
        if rng.random() < 0.2:
            return Sel(g_simple_compound(rng), [(rng.choice("ap"), c)]), "amp-suffix"
        return Sel(c), "amp-suffix"
    if k < 0.5:
        return Sel(amp_tail(rng), [(rng.choice("apsj"), g_simple_compound(rng))]), "amp-left"
    if k < 0.62:
        return Sel(g_simple_compound(rng), [(rng.choice("apsj"), amp_tail(rng))]), "amp-right"
    if k < 0.7:
        return Sel(g_simple_compound(rng), [(rng.choice("apsj"), amp_tail(rng)), (rng.choice("ap"), g_simple_compound(rng))]), "amp-middle"
    if k < 0.8:
        return Sel(amp_tail(rng), [(rng.choice("apsj"), amp_tail(rng))]), "amp-twice"
    # inside a pseudo-class argument
    nm = rng.choice(["not", "is", "where", "has"])
    inner = [Sel(amp_tail(rng))]
    if rng.random() < 0.3:
        inner.append(Sel(g_simple_compound(rng, False, False, 1)))
    host = g_simple_compound(rng, True, False) if rng.random() < 0.6 else Compound()
    host.pseudos.append(Pseudo(nm, False, ("L", inner)))
    if rng.random() < 0.25:
        host.backref, host.elem, host.id = True, None, None
        return Sel(host), "amp-pseudo+top"
    if rng.random() < 0.3:
        return Sel(host, [(rng.choice("ap"), g_simple_compound(rng))]), "amp-pseudo"
    return Sel(host), "amp-pseudo"


def suffixable(c):
    """can a name fragment be glued to the printed text of this compound?"""
    if c.pseudos:
        return c.pseudos[-1].arg is None
    if c.attrs:
        return False
    if c.classes or c.id is not None or c.phs:
        return True
    return c.elem is not None and not c.elem.endswith("*")


class Gen:
    def __init__(self, rng):
        self.rng = rng
        self.n = 0
        self.strata = set()

    def decl(self):
        self.n += 1
        return Decl("d%d" % self.n)

    def sels(self, level, suffix_ok, amp_p, ph_scope=False):
        rng = self.rng
        out = []
        for _ in range(rng.choice([1, 1, 2, 2, 3])):
            if level > 0 and rng.random() < amp_p:
                s, st = g_amp_sel(rng, suffix_ok, not ph_scope)
                self.strata.add(st)
            else:
                s = g_plain_sel(rng, allow_lead=level > 0)
            out.append(s)
        return out

    def rule(self, level, maxlevel, suffix_ok, amp_p, ph_scope=False):
        rng = self.rng
        sels = self.sels(level, suffix_ok, amp_p, ph_scope)
        ph_scope = ph_scope or any(s.has_ph() for s in sels)
        # suffix safety of what `&` will stand for one level down
        ok = True
        for s in sels:
            last = s.compounds()[-1]
            only_amp = last.backref and not (last.elem or last.phs or last.classes or last.id is not None or last.attrs
                                             or last.pseudos)
            if only_amp:
                ok = ok and suffix_ok
            elif last.backref and last.elem:
                ok = ok and suffix_ok
            else:
                ok = ok and suffixable(last) and not last.is_empty()
        body = []
        if rng.random() < 0.8:
            body.append(self.decl())
        if level + 1 < maxlevel:
            for _ in range(rng.choice([1, 1, 2])):
                at_root = level >= 0 and rng.random() < 0.06
                r = self.rule(level + 1, maxlevel, ok, amp_p, ph_scope)
                if at_root:
                    r.at_root = True
                    self.strata.add("at-root")
                body.append(r)
                if rng.random() < 0.35:
                    body.append(self.decl())
        if not any(isinstance(b, Decl) for b in body) and rng.random() < 0.7:
            body.append(self.decl())
        return Rule(sels, body)


def mk_case(rules, style, stratum, rng=None):
    src = sheet_scss(rules, rng)
    line = "compile\tscss\t" + style + "\t10\tin.scss\t" + hx(src) + "\t" + sheet_term(rules)
    return Case(line, stratum, {"oracle": oracle_blocks(rules)})


def fixed_cases():
    C, S, P = Compound, Sel, Pseudo
    a, b = S(C(classes=["a"])), S(C(classes=["b"]))
    c, d = S(C(classes=["c"])), S(C(classes=["d"]))
    amp = lambda **kw: C(backref=True, **kw)
    out = []
    def add(name, rules):
        for st in "ec":
            out.append(mk_case(rules, st, "fixed:" + name))
    add("product", [Rule([a, b], [Rule([c, d], [Decl("x")])])])
    add("amp-suffix", [Rule([a, b], [Rule([S(amp(elem="-x")), S(amp(pseudos=[P("hover")]))], [Decl("x")])])])
    add("amp-pseudo", [Rule([a, b], [Rule([S(C(pseudos=[P("not", False, ("L", [S(amp())]))]), [("a", C(elem="c"))]), S(C(elem="d"))], [Decl("x")])])])
    add("amp-twice", [Rule([S(C(classes=["a"]), [("a", C(classes=["b"]))]), c], [Rule([S(amp(), [("p", amp()), ("a", C(elem="d"))])], [Decl("x")])])])
    add("lead-comb", [Rule([a], [Rule([S(C(), [("j", C(elem="b"))])], [Rule([S(C(), [("s", C(elem="c"))])], [Decl("x")])])])])
    add("decl-order", [Rule([S(C(elem="a"))], [Decl("x"), Rule([S(C(elem="b"))], [Decl("y")]), Decl("z"),
                                               Rule([S(C(elem="c"))], [Decl("w"), Rule([S(C(elem="d"))], [Decl("v")])])])])
    add("dedup", [Rule([a], [Rule([S(amp(classes=["a"]))], [Decl("x")])])])
    add("pseudo-elem-order", [Rule([S(C(elem="a", pseudos=[P("before")]))], [Rule([S(amp(pseudos=[P("hover")]))], [Decl("x")])])])
    idc = lambda i, **kw: C(id=i, **kw)
    add("id-suffix", [Rule([S(idc("a"))], [Rule([S(amp(id="b"))], [Decl("x")])])])
    add("id-suffix2", [Rule([S(idc("a", classes=["x"])), S(C(elem="b"), [("p", idc("i"))])],
                            [Rule([S(amp(id="b", classes=["y"])), S(C(elem="c"), [("a", amp(id="a"))])], [Decl("x")])])])
    add("id-suffix3", [Rule([S(idc("a"))], [Rule([S(amp(elem="-x", id="b"))], [Decl("x")])])])
    add("at-root", [Rule([a], [Rule([S(amp(elem="-b"))], [Decl("x")], at_root=True)])])
    add("right-amp", [Rule([a, b], [Rule([S(C(elem="b"), [("p", amp(elem="-c"))])], [Decl("x")])])])
    return out


def gen(tier, rng, boost=1):
    yield from fixed_cases()
    n = (700 if tier == "quick" else 9000) * boost
    for i in range(n):
        g = Gen(rng)
        k = rng.random()
        maxlevel = rng.choice([2, 2, 3, 3, 4])
        if k < 0.3:
            amp_p, stratum = 0.0, "no-amp"
        elif k < 0.8:
            amp_p, stratum = 0.5, "mixed"
        else:
            amp_p, stratum = 0.9, "amp-heavy"
        rules = [g.rule(0, maxlevel, True, amp_p) for _ in range(rng.choice([1, 1, 2]))]
        style = "c" if rng.random() < 0.25 else "e"
        tag = stratum + "/" + ",".join(sorted(g.strata)) if g.strata else stratum
        yield mk_case(rules, style, tag if len(tag) < 40 else stratum + "/multi", rng if rng.random() < 0.5 else None)


# ---------------------------------------------------------------------------------------
# the property's statement as an oracle that is independent of the Lean model: a second,
# direct implementation of "outer inner" / "`&` is replaced by the outer selector" on the
# Python ASTs, compared with the implementation's emitted text.  Compounds are compared in
# rsass' canonical simple-selector order (a compound is a set of simple selectors; the
# statement does not fix their order).


class NotApplicable(Exception):
    pass


def round_robin(rows):
    out = []
    for j in range(max([len(r) for r in rows] + [0])):
        for r in rows:
            if j < len(r):
                out.append(r[j])
    return out


class Orc:
    def __init__(self):
        self.ordered = True

    def glue_suffix(self, o, sfx):
        """outer compound `o` + name fragment"""
        o = Compound(False, o.elem, o.phs, o.classes, o.id, o.attrs, o.pseudos)
        if o.pseudos:
            last = o.pseudos[-1]
            if last.arg is not None:
                raise NotApplicable()
            o.pseudos[-1] = Pseudo(last.name + sfx, last.element, None)
        elif o.attrs:
            raise NotApplicable()
        elif o.classes:
            o.classes[-1] += sfx
        elif o.id is not None:
            o.id += sfx
        elif o.phs:
            o.phs[-1] += sfx
        elif o.elem is not None:
            if o.elem.endswith("*"):
                raise NotApplicable()
            o.elem += sfx
        else:
            o.elem = sfx
        return o

    def pseudos(self, ps, outers):
        out = []
        for p in ps:
            if p.has_amp():
                rows = [self.resolve(s, outers) for s in p.arg[1]]
                if len({len(r) for r in rows}) > 1:
                    self.ordered = False
                out.append(Pseudo(p.name, p.element, ("L", round_robin(rows))))
            else:
                out.append(p)
        return out

    def merge(self, o, c, outers):
        """`&` + the rest of compound c, with `&` = outer compound o"""
        base = o
        if c.elem is not None:
            base = self.glue_suffix(o, c.elem)
        elem = base.elem
        if elem in ("*", "*|*") and (base.classes or base.phs or base.id is not None or base.pseudos):
            elem = None  # `*.a` is `.a`
        if c.id is not None and base.id is not None:
            new_id = base.id + "#" + c.id      # `#a` + `&#b` is `#a#b`: both ids stay
        else:
            new_id = base.id if c.id is None else c.id
        return Compound(False, elem, base.phs + c.phs, base.classes + c.classes, new_id,
                        base.attrs + c.attrs, base.pseudos + self.pseudos(c.pseudos, outers))

    def resolve(self, s, outers):
        """`&` replaced by every outer selector (left-major product for several `&`)"""
        comps = s.compounds()
        rels = [None] + [k for k, _ in s.steps]
        alts = []
        for k, c in zip(rels, comps):
            if c.backref:
                frag = []
                for o in outers:
                    oc = o.compounds()
                    m = self.merge(oc[-1], c, outers)
                    if o.steps:
                        frag.append([(k, o.first)] + o.steps[:-1] + [(o.steps[-1][0], m)])
                    else:
                        frag.append([(k, m)])
                alts.append(frag)
            else:
                alts.append([[(k, Compound(False, c.elem, c.phs, c.classes, c.id, c.attrs, self.pseudos(c.pseudos, outers)))]])
        res = []
        for combo in itertools.product(*alts):
            chain = [x for fr in combo for x in fr]
            res.append(Sel(chain[0][1], chain[1:]))
        return res

    def nest_row(self, s, outers):
        if s.has_amp():
            return self.resolve(s, outers)
        out = []
        for o in outers:
            chain = [(None, o.first)] + o.steps
            if s.first.is_empty() and s.steps:
                chain = chain + s.steps
            else:
                chain = chain + [("a", s.first)] + s.steps
            out.append(Sel(chain[0][1], chain[1:]))
        return out

    def nest_list(self, sels, outers):
        if outers is None:
            if any(s.has_amp() for s in sels):
                raise NotApplicable()
            return list(sels)
        rows = [self.nest_row(s, outers) for s in sels]
        if len({len(r) for r in rows}) > 1:
            self.ordered = False
        return round_robin(rows)


def oracle_blocks(rules):
    """expected [(header texts, ordered, [decl names])], or None when this oracle does not
    apply (placeholders inside pseudo-class arguments, `&` at top level, @at-root, suffix on
    something that takes none)"""
    blocks = []

    def walk(rule, outers, ordered):
        if rule.at_root:
            raise NotApplicable()
        orc = Orc()
        orc.ordered = ordered
        res = orc.nest_list(rule.sels, outers)
        for r in res:
            for c in r.compounds():
                if any(p.has_ph() for p in c.pseudos):
                    raise NotApplicable()
        texts = [r.text() for r in res if not r.has_top_ph()]
        cur = None
        for b in rule.body:
            if isinstance(b, Decl):
                if cur is None:
                    cur = [texts, orc.ordered, []]
                    blocks.append(cur)
                cur[2].append(b.name)
            else:
                n = len(blocks)
                walk(b, res, orc.ordered)
                if len(blocks) != n:
                    cur = None

    try:
        for r in rules:
            walk(r, None, True)
    except NotApplicable:
        return None
    return blocks


def norm_unordered(text):
    """sort every comma-separated list (top level and inside parentheses)"""
    def norm_item(t):
        out, i = "", 0
        while i < len(t):
            if t[i] == "(":
                depth, j = 1, i + 1
                while j < len(t) and depth:
                    depth += {"(": 1, ")": -1}.get(t[j], 0)
                    j += 1
                out += "(" + norm_unordered(t[i + 1:j - 1]) + ")"
                i = j
            else:
                out += t[i]
                i += 1
        return out
    return ", ".join(sorted(norm_item(x) for x in split_top(text)))


def check_oracle(blocks, got):
    """compare impl's blocks with the expectation; a block whose selectors were all
    placeholders is not emitted (C22's rule, needed to read the output)."""
    exp = [(t, o, n) for t, o, n in blocks if t]
    if len(exp) != len(got):
        return f"{len(got)} rules emitted, {len(exp)} expected"
    for (texts, ordered, names), (head, gnames) in zip(exp, got):
        if names != gnames:
            return f"declarations {gnames} under `{head}`, expected {names} in source order"
        want = ", ".join(texts)
        if ordered:
            if want != head:
                return f"selector `{head}`, expected `{want}`"
        elif norm_unordered(want) != norm_unordered(head):
            return f"selector `{head}`, expected the selectors of `{want}` in some order"
    return None


def split_top(text):
    out, depth, cur = [], 0, ""
    for ch in text:
        if ch in "([":
            depth += 1
        elif ch in ")]":
            depth -= 1
        if ch == "," and depth == 0:
            out.append(cur.strip())
            cur = ""
        else:
            cur += ch
    out.append(cur.strip())
    return out


def canon_impl(impl, style):
    if impl.startswith("ok:"):
        css = unhx(impl[3:])
        blocks = css_blocks(css, style)
        if style == "c":
            return render_blocks(blocks), blocks
        return render_blocks(blocks), blocks
    if impl.startswith("panic:"):
        return "panic", None
    return impl.split(":", 1)[0], None


def decompress(head):
    return head


def judge(case, impl, asis, spec):
    f = case.lines[0].split("\t")
    style = f[2]
    got, blocks = canon_impl(impl, style)
    m_asis = asis if asis in ("panic", "err") else unhx(asis)
    m_spec = spec if spec in ("panic", "err") else unhx(spec)
    corr = got == m_asis
    if m_spec == "err":
        # a parent that cannot take the `&` suffix: Sass (and the code since 1acf5fd) reports
        # `Parent ".." is incompatible with this selector.`; a panic is the old defect
        return Verdict(corr, None if got == "err" else "`&` suffix on a parent that cannot take it must be an error, got " + got[:40])
    if blocks is None:
        return Verdict(corr, "compilation failed: " + impl[:60])
    why = None
    orc = case.note.get("oracle")
    if orc is not None and style == "e":
        why = check_oracle(orc, blocks)
    elif got != m_spec:
        why = "emitted rules differ from the specification model"
    return Verdict(corr, why)


def nontrivial(case, impl, spec):
    return case.lines[0].count(" U ") + case.lines[0].count(" T ") >= 1 and impl.startswith("ok:")


LEVEL_TEXT = ("Proof (Lean 4) over a function-by-function model of CssSelectorSet::nest, Selector::nest, resolve_ref, "
              "resolve_ref_in_pseudo, SelectorCtx and the rule/declaration emission: the round-robin merge is the outer-major "
              "product for equal-length rows, nesting without `&` prints as `outer inner`, `&` is replaced everywhere "
              "(no `&` survives, suffix and pseudo-argument forms), declarations keep source order; tied to the code by exact "
              "agreement of the emitted rule headers and declaration lists on generated rule trees, plus a textual oracle "
              "of the statement evaluated on the implementation's own output.")
LEVEL_NOTE = ("Trusted: Lean kernel; generator printing one AST as SCSS and as a term; the SCSS selector front end "
              "(validated by the correspondence). `&` + suffix is implemented by printing and re-parsing; it is modelled "
              "structurally and the panic cases are C01's.")
TECHNIQUE = "Lean 4 theorems over a structural model of selector nesting + exact differential correspondence on generated rule trees"
