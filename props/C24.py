"""C24 — Selector unify/extend/replace/nest/append obey their algebra (partial)."""
import re
from tools.vlib import Case, Verdict, hx, unhx
from props import selgen as G

ID = "C24"
DRIVER = "drv_C24"
THEOREM_MODS = ["RsassModel.Theorems.C24"]
LEVEL = "proof"
EXTRA_OBLIGATIONS = ["guard: selector.nest folds b.nest(e, &b)", "guard: selector.append folds base.append(&s)",
                     "guard: SelectorCtx::nest = self.s.nest(selectors, get_backref())",
                     "guard: resolve_ref appends with CompoundSelector::append"]
RULE = ("cases = one SCSS stylesheet per case (generic compile op) calling selector.unify / extend / replace / nest / "
        "append on generated selector lists (as for C23) and, in the same stylesheet, evaluating the law on the "
        "implementation itself: unify -> is-superselector(a, c) and (b, c) for every complex selector c of the result; "
        "extend -> selector.parse(s) must be a subsequence of the result; replace with a target built from a fresh "
        "vocabulary -> result = selector.parse(s); nest -> selector.nest(a, b) vs the header emitted for a{b{x:y}}; "
        "append -> selector.append(a, b) vs the header emitted for a{&b{x:y}} for simple suffixes b; the same selector "
        "objects go to the model as terms; non-trivial = the function returned a selector (not null / error)")
TRUSTED = ["props/selgen.py prints the same selector as text and as a model term",
           "Sel/Nest.lean, Sel/Print.lean, Sel/Syntax.lean (C19/C25 family) for nesting, compound append and printing"]
ASSUMPTIONS = ["unify law: when exactly one side carries a pseudo-element only that side is required to be a superselector "
               "of the result (the result has a pseudo-element the other input lacks and Sass's own is-superselector answers "
               "false); for lists of complex selectors such pairs are excluded",
               "static guards (4): selector.nest / selector.append / SelectorCtx::nest / resolve_ref still call the functions "
               "the nest/append theorems equate",
               "replace law: 'x matches none of s' is realised by drawing x from a vocabulary disjoint from s, so "
               "that nothing matches at any nesting level (replace also rewrites inside :is()/:not()/… arguments)",
               "append law: b is one simple selector (class, id, attribute, pseudo-class or a name suffix)"]


def static_checks(ctx):
    """T3 source-shape guards behind `nest_fn_eq_rule_nest` / `append_eq_amp_suffix`: the function forms and
    rule nesting must reach the very functions the model equates (whitespace-insensitive)."""
    from tools.vlib import REPO
    import os
    problems = []

    def src(rel):
        try:
            return re.sub(r"\s+", "", open(os.path.join(REPO, rel)).read())
        except OSError:
            return ""
    # each guard lists the accepted shapes: before and after fix 1acf5fd/d714329 (Result plumbing;
    # `&` substituted without the detour through `unify`) — both are what the model equates
    fn = src("rsass/src/sass/functions/selector.rs")
    if not any(x in fn for x in ("v.fold(first,|b,e|b.nest(e,&b))", "v.try_fold(first,|b,e|b.nest(e,&b))?")):
        problems.append("sass/functions/selector.rs: selector.nest no longer folds `b.nest(e, &b)`")
    if "s.try_fold(base,|base,s|base.append(&s))" not in fn:
        problems.append("sass/functions/selector.rs: selector.append no longer folds `base.append(&s)`")
    ctxs = src("rsass/src/css/selectors/context.rs")
    if "self.s.nest(selectors,self.get_backref())" not in ctxs:
        problems.append("css/selectors/context.rs: SelectorCtx::nest no longer calls `self.s.nest(selectors, self.get_backref())`")
    sel = src("rsass/src/css/selectors/selector.rs")
    if not any(x in sel for x in ("compound:s.compound.append(&self.compound).unwrap()",
                                  "letcompound=s.compound.append(&self.compound).map_err(")):
        problems.append("css/selectors/selector.rs: resolve_ref no longer appends `&`'s compound with CompoundSelector::append")
    return problems


def norm(t):
    t = t.strip()
    if t.startswith("(") and t.endswith(",)"):
        t = t[1:-2]
    return t


def split_top(text):
    """split a selector list text on top-level commas"""
    out, depth, cur, q = [], 0, "", None
    for ch in text:
        if q:
            cur += ch
            if ch == q:
                q = None
            continue
        if ch in "\"'":
            q = ch
        if ch in "([":
            depth += 1
        elif ch in ")]":
            depth -= 1
        if ch == "," and depth == 0:
            out.append(cur.strip())
            cur = ""
        else:
            cur += ch
    if cur.strip():
        out.append(cur.strip())
    return out


def S(sels):
    return G.scss_str(G.set_text(sels))


def mk(op, law, src, sets):
    return "\t".join(["compile", "scss", "e", "10", "in.scss", hx(src), "", "", "sel", op, law]
                     + [G.set_term(s) for s in sets])


HEAD = '@use "sass:selector";@use "sass:meta";'


def line_unify(a, b, law="law"):
    # `$c` is turned into text first: rsass mis-reads a *list* value holding combinators
    each = ('@each $c in $u {ra: selector.is-superselector(' + S(a) + ', "#{$c}");'
            'rb: selector.is-superselector(' + S(b) + ', "#{$c}")}')
    src = (HEAD + "$u: selector.unify(" + S(a) + ", " + S(b) + ");q{u: meta.inspect($u);"
           "@if $u != null {" + each + "}}")
    return mk("unify", law, src, [a, b])


def line_extend(op, s, x, y, law):
    src = (HEAD + f"q{{u: meta.inspect(selector.{op}({S(s)}, {S(x)}, {S(y)}));"
           f"p: meta.inspect(selector.parse({S(s)}))}}")
    return mk(op, law, src, [s, x, y])


def line_nest(a, b):
    src = HEAD + f"q{{u: meta.inspect(selector.nest({S(a)}, {S(b)}))}}{G.set_text(a)}{{{G.set_text(b)}{{x:y}}}}"
    return mk("nest", "law", src, [a, b])


def line_append(a, c):
    b = [G.Sel([c])]
    src = HEAD + f"q{{u: meta.inspect(selector.append({S(a)}, {S(b)}))}}{G.set_text(a)}{{&{c.text()}{{x:y}}}}"
    return mk("append", "law", src, [a, b])


# ---------------------------------------------------------------------------------------------
# generators

def small_comp(rng, q, pseudo_el=True, sel_pseudo=True):
    c = G.Comp()
    if rng.random() < 0.45:
        c.elem = rng.choice(["a", "b", "*", "a", "*|a", "ns|a"])
    for _ in range(rng.choice([0, 1, 1, 2])):
        c.classes.append(rng.choice(["c", "d", "e"]))
    if rng.random() < 0.12:
        c.id = rng.choice(["i", "j"])
    if rng.random() < 0.12:
        c.attrs.append(G.gen_attr(rng, q))
    r = rng.random()
    if r < 0.25 and sel_pseudo:
        name = rng.choice(["is", "not", "where", "has", "matches"])
        pool = [G.Sel([G.Comp(classes=[x])]) for x in ("c", "d", "e")]
        n = rng.choice([1, 1, 2, 3])
        c.pseudos.append(G.Pseudo(name, ("s", rng.sample(pool, n))))
        if rng.random() < 0.3:
            c.pseudos.append(G.Pseudo(name, ("s", rng.sample(pool, rng.choice([1, 2])))))
    elif r < 0.4:
        c.pseudos.append(G.Pseudo(rng.choice(["hover", "focus", "root", "host"])))
    elif r < 0.48 and pseudo_el:
        n, e = rng.choice(G.ELEM_PSEUDO)
        c.pseudos.append(G.Pseudo(n, None, e))
    if c.is_empty():
        c.classes.append(rng.choice(["c", "d"]))
    return c


def small_sel(rng, q, max_len=3, **kw):
    n = rng.choice([1, 1, 2, 2, 3][: 2 + max_len])
    n = min(n, max_len)
    return G.Sel([small_comp(rng, q, **kw) for _ in range(n)],
                 [rng.choice(["d", "d", ">", "~", "+"]) for _ in range(n - 1)])


def small_set(rng, q, max_n=2, **kw):
    return [small_sel(rng, q, **kw) for _ in range(rng.choice([1, 1, 2][: 1 + max_n]))]


def has_pe(sels):
    return any(c.has_pseudo_element() for s in sels for c in s.comps)


def fresh_comp(rng):
    c = G.Comp()
    k = rng.random()
    if k < 0.5:
        c.classes.append(rng.choice(["zz", "zy"]))
    elif k < 0.7:
        c.elem = "zed"
    elif k < 0.85:
        c.id = "zi"
    else:
        c.pseudos.append(G.Pseudo("zhover"))
    return c


def suffix_comp(rng, q):
    c = G.Comp()
    k = rng.random()
    if k < 0.35:
        c.classes.append(rng.choice(["c", "d", "s"]))
    elif k < 0.5:
        c.elem = rng.choice(["-s", "-t", "x", "_u"])
    elif k < 0.62:
        c.id = rng.choice(["i", "k"])
    elif k < 0.77:
        c.attrs.append(G.gen_attr(rng, q))
    else:
        c.pseudos.append(G.Pseudo(rng.choice(["hover", "focus", "first-child"])))
    return c


def gen(tier, rng, boost=1):
    n = (4000 if tier == "quick" else 60000) * boost
    cl = lambda *x: [G.Sel([G.Comp(classes=list(x))])]
    isp = lambda name, *xs: [G.Sel([G.Comp(pseudos=[G.Pseudo(name, ("s", [G.Sel([G.Comp(classes=[x])]) for x in xs]))])])]
    yield Case(line_unify(isp("is", "a"), isp("is", "a", "b")), "fixed")
    yield Case(line_unify(isp("not", "a"), isp("not", "a", "b")), "fixed")
    one = lambda c: [G.Sel([c])]
    for x, y in ((G.Comp(id="i"), G.Comp(id="j")), (G.Comp(elem="a"), G.Comp(elem="b")),
                 (G.Comp(elem="ns|a"), G.Comp(elem="a")), (G.Comp(elem="*|a", id="i"), G.Comp(elem="a", classes=["c"])),
                 (G.Comp(classes=["c"], id="i"), G.Comp(classes=["d"], id="i")),
                 (G.Comp(pseudos=[G.Pseudo("before", None, True)]), G.Comp(pseudos=[G.Pseudo("after", None, True)])),
                 (G.Comp(pseudos=[G.Pseudo("before", None, True)]), G.Comp(pseudos=[G.Pseudo("before", None, False)])),
                 (G.Comp(pseudos=[G.Pseudo("host")]), G.Comp(classes=["c"]))):
        yield Case(line_unify(one(x), one(y)), "fixed")
    yield Case(line_append(cl("a"), G.Comp(classes=["a"])), "fixed")
    yield Case(line_append([G.Sel([G.Comp(classes=["a"], pseudos=[G.Pseudo("before", None, True)])])],
                           G.Comp(pseudos=[G.Pseudo("hover")])), "fixed")
    for _ in range(n):
        k = rng.random()
        q = rng.choice(["d", "s"])
        if k < 0.16:
            a = [G.Sel([small_comp(rng, q)])]
            b = [G.Sel([small_comp(rng, q)])]
            # one-sided pseudo-element: only the side that carries it must stay a superselector
            law = "law" if has_pe(a) == has_pe(b) else ("lawa" if has_pe(a) else "lawb")
            yield Case(line_unify(a, b, law), "unify-compound")
        elif k < 0.34:
            a, b = small_set(rng, q), small_set(rng, q)
            law = "law" if has_pe(a) == has_pe(b) and not has_pe(a) else "none"
            yield Case(line_unify(a, b, law), "unify-complex")
        elif k < 0.4:
            a, b = G.gen_set(rng, 1, 2, q), G.gen_set(rng, 1, 2, q)
            yield Case(line_unify(a, b, "none"), "unify-wide")
        elif k < 0.56:
            s = small_set(rng, q, 3)
            x = [G.Sel([rng.choice(rng.choice(s).comps)])] if rng.random() < 0.7 else [G.Sel([small_comp(rng, q)])]
            if rng.random() < 0.3:
                x = [G.Sel([G.Comp(classes=[rng.choice(["c", "d", "e"])])])]
            if rng.random() < 0.06:
                x = [small_sel(rng, q, 2)]     # complex extendee: an error
            y = small_set(rng, q, 2)
            yield Case(line_extend("extend", s, x, y, "keeps"), "extend")
        elif k < 0.66:
            s = small_set(rng, q, 3)
            x = [G.Sel([fresh_comp(rng)])]
            y = small_set(rng, q, 2)
            yield Case(line_extend("replace", s, x, y, "ident"), "replace-fresh")
        elif k < 0.74:
            s = small_set(rng, q, 3)
            x = [G.Sel([rng.choice(rng.choice(s).comps)])]
            if rng.random() < 0.4:
                x = [G.Sel([G.Comp(classes=[rng.choice(["c", "d", "e"])])])]
            y = small_set(rng, q, 2)
            yield Case(line_extend("replace", s, x, y, "none"), "replace-hit")
        elif k < 0.87:
            q = "n"     # a rule header re-spells name-like quoted attribute values without quotes
            a = small_set(rng, q, 2, pseudo_el=False)
            b = small_set(rng, q, 2)
            if rng.random() < 0.4:
                # `&` in some compound of the inner selector
                t = rng.choice(b)
                c = rng.choice(t.comps)
                c.backref = True
                # `&` + a name: a suffix glued to the parent (an error when the parent does not end in a name)
                c.elem = rng.choice([None, None, None, "-s", "x"])
            yield Case(line_nest(a, b), "nest")
        else:
            q = "n"
            a = small_set(rng, q, 2)
            yield Case(line_append(a, suffix_comp(rng, q)), "append")


# ---------------------------------------------------------------------------------------------
# judging

def fields(case):
    f = case.lines[0].split("\t")
    return f[9], f[10]


def parse_impl(op, impl):
    """canonical result: `null` | `err` | `panic` | text ; plus law observations"""
    if impl.startswith("panic:") or impl.startswith("abort:"):
        return {"res": "panic"}
    if impl.startswith("err:"):
        return {"res": "err"}
    if not impl.startswith("ok:"):
        return None
    css = unhx(impl[3:])
    m = re.search(r"^  u: (.*);$", css, re.M)
    if not m:
        return None
    d = {"res": norm(m.group(1))}
    d["ra"] = re.findall(r"^  ra: (true|false);$", css, re.M)
    d["rb"] = re.findall(r"^  rb: (true|false);$", css, re.M)
    p = re.search(r"^  p: (.*);$", css, re.M)
    d["p"] = norm(p.group(1)) if p else None
    if op in ("nest", "append"):
        r = re.search(r"^(.+) \{\n  x: y;\n\}", css, re.M)
        d["rule"] = r.group(1) if r else "null"
    return d


def model_text(m):
    if m in ("null", "err", "panic"):
        return m
    return unhx(m)


def is_subsequence(xs, ys):
    it = iter(ys)
    return all(any(x == y for y in it) for x in xs)


STATS = {"unify_results": 0, "unify_law_bits": 0, "unify_law_bits_false": 0, "extend_added": 0,
         "replace_identity_checked": 0, "nest_with_amp": 0, "append_ok": 0, "errors": 0}


def extra_coverage(ctx, res):
    return {"c24_stats": dict(STATS)}


def judge(case, impl, asis, spec):
    v = judge0(case, impl, asis, spec)
    try:
        op, law = fields(case)
        d = parse_impl(op, impl) or {}
        r = d.get("res")
        if r in ("err", "panic"):
            STATS["errors"] += 1
        elif op == "unify" and r not in (None, "null"):
            STATS["unify_results"] += 1
            if law.startswith("law"):
                bits = d["ra"] + d["rb"] if law == "law" else d["ra"] if law == "lawa" else d["rb"]
                STATS["unify_law_bits"] += len(bits)
                STATS["unify_law_bits_false"] += bits.count("false")
        elif op == "extend" and r and d.get("p") and len(split_top(r)) > len(split_top(d["p"])):
            STATS["extend_added"] += 1
        elif op == "replace" and law == "ident":
            STATS["replace_identity_checked"] += 1
        elif op == "nest" and "&" in unhx(case.lines[0].split("\t")[5]).split("}", 1)[1]:
            STATS["nest_with_amp"] += 1
        elif op == "append" and r != "null":
            STATS["append_ok"] += 1
    except Exception:
        pass
    return v


def judge0(case, impl, asis, spec):
    op, law = fields(case)
    d = parse_impl(op, impl)
    if d is None:
        return Verdict(False, "unreadable result: " + impl[:60])
    why = None
    if op in ("nest", "append"):
        got = d["res"] + ";" + d.get("rule", "null") if d["res"] not in ("err", "panic") else d["res"]
        mparts = [model_text(x) for x in (asis or "").split(";")]
        want = ";".join(mparts)
        if d["res"] in ("err", "panic"):
            # the whole stylesheet failed: the function call or the rule
            corr = "err" in mparts or "panic" in mparts
        else:
            corr = got == want
        if law == "law" and d["res"] not in ("err", "panic") and d["res"] != d["rule"]:
            why = (f"selector.{op} gives `{d['res']}` but the nested rule emits `{d['rule']}`")
        return Verdict(corr, why)
    if op == "unify":
        mres, _, mbits = (asis or "").partition("|")
        bits = "".join(("t" if x == "true" else "f") + ("t" if y == "true" else "f") for x, y in zip(d["ra"], d["rb"]))
        # the law bits are observed through the printed result (`"#{$c}"`): printing drops a hidden
        # `*`, which `:current(..)`'s `==` notices; they are compared in the law strata only (no `:current`)
        corr = d["res"] == model_text(mres) and (bits == mbits or not law.startswith("law"))
        checked = bits if law == "law" else bits[0::2] if law == "lawa" else bits[1::2] if law == "lawb" else ""
        if "f" in checked:
            why = "an input of selector.unify is not a superselector of a complex selector of the result"
        return Verdict(corr, why)
    corr = d["res"] == model_text(asis or "")
    if False:
        pass
    elif op == "extend" and law == "keeps" and d["res"] not in ("err", "panic"):
        if d["res"] == "null" or not is_subsequence(split_top(d["p"] or ""), split_top(d["res"])):
            why = "selector.extend does not keep the original complex selectors in order"
    elif op == "replace" and law == "ident":
        if d["res"] != d["p"]:
            why = "selector.replace changed a selector although the target matches nothing in it"
    return Verdict(corr, why)


def nontrivial(case, impl, spec):
    op, law = fields(case)
    d = parse_impl(op, impl)
    return bool(d) and d["res"] not in ("null", "err", "panic")


LEVEL_TEXT = ("Proof (Lean 4), partial: compound unification is sound for the specification model (both inputs are "
              "superselectors of the result; as-is under a stated hypothesis, with refutation), extend keeps the originals "
              "and replace without a match is the identity for every unifier, selector.nest equals rule nesting and "
              "selector.append equals `&`-suffix nesting on the specification model; complex unification (unify_relbox / "
              "inner_unify, all 16 relation pairs, any chain length) is sound on the specification model "
              "(unify_sound_complex, unify_sound_lists; hypothesis: no pseudo-elements in the chains); every law is also evaluated on the implementation "
              "itself in each generated case.")
LEVEL_NOTE = ("Partial: unify soundness is proved for the specification configuration (repaired combine_vital, `>` arm looking "
              "through siblings); the code as it is keeps strict `>` (open finding C24-super-parent-strict, refuted by "
              "unify_asis_parent_strict_refuted); pairs with a one-sided pseudo-element are outside the law; nesting/append "
              "models are those of the C19 family.")
TECHNIQUE = "Lean 4 theorems parametric in the unifier + exact differential correspondence + direct law check on the implementation"
