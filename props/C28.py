"""C28 — List functions follow the Sass list model."""
import itertools
import re
from tools.vlib import Case, Verdict, hx, unhx

ID = "C28"
DRIVER = "drv_C28"
THEOREM_MODS = ["RsassModel.Theorems.C28"]
LEVEL = "proof"

# ---------------------------------------------------------------------------------------
# atoms: (scss text, inspect text, == class).  `"a"`/`a` and `1in`/`96px` are distinct
# values that are `==`.
ATOMS = [("a", "a", 0), ('"a"', '"a"', 0), ("b", "b", 1), ("c", "c", 2), ("d", "d", 3), ('"b"', '"b"', 1),
         ("1", "1", 4), ("2", "2", 5), ("3", "3", 6), ("1px", "1px", 7), ("96px", "96px", 8), ("1in", "1in", 8),
         ("true", "true", 9), ("false", "false", 10), ("k0", "k0", 11), ("k1", "k1", 12), ("z", "z", 13),
         ("e", "e", 14), ("f", "f", 15)]
BY_INSPECT = {t[1]: i for i, t in enumerate(ATOMS)}
Z = ("a", 16)
K = [("a", 14), ("a", 15)]
SEPNAME = {"s": "space", "c": "comma", "/": "slash", "u": "auto"}


def A(i):
    return ("a", i)


NULL = ("n",)


def L(items, sep, bra=False):
    return ("l", tuple(items), sep, bool(bra))


def M(pairs):
    return ("m", tuple(pairs))


def G(pos, named=(), tc=False):
    return ("g", tuple(pos), tuple(named), bool(tc))


def enc(v):
    t = v[0]
    if t == "a":
        return f"a{v[1]}c{ATOMS[v[1]][2]}"
    if t == "n":
        return "n"
    if t == "l":
        return "l" + v[2] + ("1" if v[3] else "0") + "(" + ",".join(enc(x) for x in v[1]) + ")"
    if t == "m":
        return "m(" + ",".join(enc(k) + ":" + enc(w) for k, w in v[1]) + ")"
    if t == "g":
        return ("g" + ("1" if v[3] else "0") + "(" + ",".join(enc(x) for x in v[1]) + "|" +
                ",".join(enc(k) + ":" + enc(w) for k, w in v[2]) + ")")
    raise ValueError(v)


def scss(v):
    """SCSS expression text building exactly the value `v` (literal syntax wherever one exists;
    the harness built-in `mklist` only for combinations without literal syntax)."""
    t = v[0]
    if t == "a":
        return ATOMS[v[1]][0]
    if t == "n":
        return "null"
    if t == "l":
        items, sep, bra = v[1], v[2], v[3]
        n = len(items)
        its = [scss(x) for x in items]
        if n == 0 and sep == "u":
            return "[]" if bra else "()"
        if n == 1 and sep == "u" and bra and its[0] != "()":
            # (`[()]` is read by rsass' parser as the empty bracketed list — a parser matter outside
            # this property; that one value is built directly with mklist instead)
            return "[" + its[0] + "]"
        if n == 1 and sep == "c":
            return ("[%s,]" if bra else "(%s,)") % its[0]
        if n >= 2 and sep == "s":
            return ("[%s]" if bra else "(%s)") % " ".join(its)
        if n >= 2 and sep == "c":
            return ("[%s]" if bra else "(%s)") % ", ".join(its)
        if n >= 2 and sep == "/" and not bra:
            return "list.slash(" + ", ".join(its) + ")"
        return "mklist(" + ", ".join([SEPNAME[sep], "true" if bra else "false"] + its) + ")"
    if t == "m":
        if not v[1]:
            return "map.remove((a: b), a)"
        return "(" + ", ".join(scss(k) + ": " + scss(w) for k, w in v[1]) + ")"
    if t == "g":
        parts = [scss(x) for x in v[1]] + ["$" + ATOMS[k[1]][0] + ": " + scss(w) for k, w in v[2]]
        return "args(" + ", ".join(parts) + ("," if v[3] and parts else "") + ")"
    raise ValueError(v)


def synthetic(v):
    return v[0] == "l" and scss(v).startswith("mklist(") or \
        (v[0] in "lmg" and any(synthetic(x) for x in (v[1] if v[0] != "m" else [y for p in v[1] for y in p])))


PRELUDE = '@use "sass:list"; @use "sass:map";\n@function args($a...) { @return $a; }\n'
GLOBAL = {"list.length": "length", "list.nth": "nth", "list.set-nth": "set-nth", "list.append": "append",
          "list.join": "join", "list.index": "index", "list.zip": "zip", "list.separator": "list-separator",
          "list.is-bracketed": "is-bracketed"}


def mkcase(fn, fields, call, stratum, note=None, use_global=False):
    if use_global:
        for k, g in GLOBAL.items():
            if call.startswith(k + "("):
                call = g + call[len(k):]
                break
    src = PRELUDE + "a{b: vdump(" + call + ")}\n"
    return Case("\t".join(["lf", fn] + fields + [hx(src)]), stratum, note or {"call": call})


BADIDX = ["1.5", "1px", "x", "null", '"1"']


def idx_text(i, rng):
    return (rng.choice(BADIDX) if rng else "1.5") if i == "bad" else str(i)


def sep_kw(s, rng=None):
    return {"space": "space", "comma": "comma", "slash": "slash", "auto": "auto", "bad": "foo"}[s]


def bra_text(b, rng):
    if b == "auto":
        return "auto"
    if b == "t":
        return rng.choice(["true", "x", "1", "0", '""']) if rng else "true"
    return rng.choice(["false", "null"]) if rng else "false"


def call_length(v): return "list.length(%s)" % scss(v)
def call_sep(v): return "list.separator(%s)" % scss(v)
def call_bra(v): return "list.is-bracketed(%s)" % scss(v)


def cases_for_value(v, rng, stratum, needles, full=True):
    g = rng.random() < 0.25
    e = enc(v)
    yield mkcase("id", [e], scss(v), stratum, use_global=False) if v[0] != "g" else mkcase("length", [e], call_length(v), stratum)
    yield mkcase("length", [e], call_length(v), stratum, use_global=g)
    yield mkcase("separator", [e], call_sep(v), stratum, use_global=g)
    yield mkcase("isbracketed", [e], call_bra(v), stratum, use_global=g)
    n = len(as_list(v)[0])
    idxs = list(range(-n - 2, n + 3)) + ["bad"]
    if not full:
        idxs = sorted(set([-n - 1, -n, -1, 0, 1, n, n + 1]) | {rng.randint(-n, n)}) + ["bad"]
    for i in idxs:
        it = idx_text(i, rng)
        yield mkcase("nth", [e, str(i)], "list.nth(%s, %s)" % (scss(v), it), stratum, use_global=g)
        yield mkcase("setnth", [e, str(i), enc(Z)], "list.set-nth(%s, %s, z)" % (scss(v), it), stratum, use_global=g)
    for s in ["-", "auto", "space", "comma", "slash", "bad"]:
        x = rng.choice(needles) if rng.random() < 0.3 else Z
        if s == "-":
            call = "list.append(%s, %s)" % (scss(v), scss(x))
        elif rng.random() < 0.5:
            call = "list.append(%s, %s, %s)" % (scss(v), scss(x), sep_kw(s))
        else:
            call = "list.append(%s, %s, $separator: %s)" % (scss(v), scss(x), sep_kw(s))
        yield mkcase("append", [e, enc(x), s], call, stratum, use_global=g)
    for x in needles:
        yield mkcase("index", [e, enc(x)], "list.index(%s, %s)" % (scss(v), scss(x)), stratum, use_global=g)


def as_list(v):
    """the Sass list view of a value: (items, separator, brackets)"""
    t = v[0]
    if t == "l":
        return list(v[1]), v[2], v[3]
    if t == "m":
        return [L([k, w], "s") for k, w in v[1]], ("c" if v[1] else "u"), False
    if t == "g":
        return list(v[1]) + [L([k, w], "s") for k, w in v[2]], "c", False
    return [v], "u", False


def py_eq(a, b):
    """Sass `==` on the generated values"""
    if a[0] == "a" and b[0] == "a":
        return ATOMS[a[1]][2] == ATOMS[b[1]][2]
    if a[0] == "n" and b[0] == "n":
        return True
    if a[0] == "l" and b[0] == "l":
        return a[2] == b[2] and a[3] == b[3] and len(a[1]) == len(b[1]) and all(py_eq(x, y) for x, y in zip(a[1], b[1]))
    if a[0] == "m" and b[0] == "m":
        return len(a[1]) == len(b[1]) and all(
            any(py_eq(k, k2) and py_eq(w, w2) for k2, w2 in b[1]) for k, w in a[1])
    if {a[0], b[0]} == {"l", "m"}:
        return len(a[1]) == 0 and len(b[1]) == 0
    return False


def resolve(i, n):
    if i == "bad":
        return None
    if 1 <= i <= n:
        return i - 1
    if -n <= i <= -1:
        return n + i
    return None


def oracle(fn, args):
    """The statement of C28 evaluated directly (reference list model), independent of Lean.
    Returns the expected encoded result."""
    if fn == "id":
        return enc(args[0])
    if fn == "length":
        return "i%d" % len(as_list(args[0])[0])
    if fn == "separator":
        s = as_list(args[0])[1]
        return "k" + ("s" if s == "u" else s)
    if fn == "isbracketed":
        return "b1" if as_list(args[0])[2] else "b0"
    if fn == "nth":
        items, _, _ = as_list(args[0])
        k = resolve(args[1], len(items))
        return "err" if k is None else enc(items[k])
    if fn == "setnth":
        items, sep, bra = as_list(args[0])
        k = resolve(args[1], len(items))
        if k is None:
            return "err"
        items[k] = args[2]
        return enc(L(items, sep, bra))
    if fn == "append":
        items, sep, bra = as_list(args[0])
        s = args[2]
        if s == "bad":
            return "err"
        sep = {"space": "s", "comma": "c", "slash": "/"}.get(s) or (sep if sep != "u" else "s")
        return enc(L(items + [args[1]], sep, bra))
    if fn == "join":
        i1, s1, b1 = as_list(args[0])
        i2, s2, _ = as_list(args[1])
        s, b = args[2], args[3]
        if s == "bad":
            return "err"
        sep = {"space": "s", "comma": "c", "slash": "/"}.get(s) or (s1 if s1 != "u" else (s2 if s2 != "u" else "s"))
        bra = b1 if b in ("auto", "-") else (b == "t")
        return enc(L(i1 + i2, sep, bra))
    if fn == "index":
        items, _, _ = as_list(args[0])
        for i, x in enumerate(items):
            if py_eq(x, args[1]):
                return "i%d" % (i + 1)
        return "n"
    if fn == "zip":
        ls = [as_list(v)[0] for v in args]
        n = min((len(l) for l in ls), default=0)
        return enc(L([L([l[i] for l in ls], "s") for i in range(n)], "c"))
    raise ValueError(fn)


# ---------------------------------------------------------------------------------------
ELEMS = [A(0), A(1), A(2), A(3), A(4), A(5), A(6), A(7), A(9), A(10), A(11), A(12), A(13), NULL]


def rand_elem(rng, depth=0):
    k = rng.random()
    if depth < 2 and k < 0.18:
        n = rng.choice([0, 1, 2, 2, 3])
        return rand_list(rng, n, depth + 1)
    if depth < 1 and k < 0.24:
        return rand_map(rng, rng.randint(0, 3))
    return rng.choice(ELEMS)


def combos(n):
    if n == 0:
        return [("u", False), ("u", True)]
    if n == 1:
        return [("u", True), ("c", False), ("c", True)]
    return [(s, b) for s in "sc/" for b in (False, True)]


def synth_combos(n):
    if n == 0:
        return [(s, b) for s in "sc/" for b in (False, True)]
    if n == 1:
        return [("u", False), ("s", False), ("s", True), ("/", False), ("/", True)]
    return []


def rand_list(rng, n, depth=0, combo=None):
    sep, bra = combo or rng.choice(combos(n))
    return L([rand_elem(rng, depth) for _ in range(n)], sep, bra)


def rand_map(rng, n):
    keys = rng.sample([A(0), A(2), A(3), A(4), A(6), A(7), A(9), A(12)], n)
    return M([(k, rand_elem(rng, 2)) for k in keys])


def rand_arglist(rng, npos, nnamed, tc):
    return G([rand_elem(rng, 1) for _ in range(npos)], [(K[i], rand_elem(rng, 2)) for i in range(nnamed)], tc)


def needles_for(v, rng):
    items = as_list(v)[0]
    out = []
    for x in items[:6]:
        out.append(x)
    # same `==` class, different value
    for x in items:
        if x[0] == "a":
            for j, t in enumerate(ATOMS):
                if t[2] == ATOMS[x[1]][2] and j != x[1]:
                    out.append(A(j))
    # variants of list elements: other separator / bracket flag
    for x in items:
        if x[0] == "l" and len(x[1]) >= 2:
            out.append(L(x[1], x[2], not x[3]))
            out.append(L(x[1], "c" if x[2] != "c" else "s", x[3]))
    # maps as elements: the same map with its entries in another order is `==`
    for x in items:
        if x[0] == "m" and len(x[1]) >= 2:
            out.insert(0, M(tuple(reversed(x[1]))))
    out += [A(17), NULL, L([], "u"), M([])]
    seen, res = set(), []
    for x in out:
        if x[0] == "g":
            continue
        e = enc(x)
        if e not in seen:
            seen.add(e)
            res.append(x)
    return res[:10]


def gen(tier, rng, boost=1):
    quick = tier == "quick"
    reps = (3 if quick else 12) * boost
    # 1. every length 0..6 x every separator/bracket combination (exhaustive), all indices
    for rep in range(reps):
        for n in range(0, 7):
            for combo in combos(n):
                v = rand_list(rng, n, 0, combo)
                yield from cases_for_value(v, rng, "list", needles_for(v, rng))
            for combo in synth_combos(n):
                v = rand_list(rng, n, 0, combo)
                yield from cases_for_value(v, rng, "synthetic-list", needles_for(v, rng), full=False)
    # 2. singleton values
    for rep in range(reps):
        for v in [A(0), A(1), A(6), A(9), A(12), NULL]:
            yield from cases_for_value(v, rng, "singleton", needles_for(v, rng) + [A(1), A(0)])
    # 3. maps and argument lists
    for rep in range(reps):
        for n in range(0, 4):
            v = rand_map(rng, n)
            nd = needles_for(v, rng)
            for k, w in v[1]:
                nd += [L([k, w], "s", True), L([k, w], "c"), L([w, k], "s"), k]
            yield from cases_for_value(v, rng, "map", nd)
        for npos in range(0, 4):
            for nnamed in range(0, 3):
                for tc in (False, True):
                    if tc and npos + nnamed == 0:
                        continue
                    v = rand_arglist(rng, npos, nnamed, tc)
                    yield from cases_for_value(v, rng, "arglist", needles_for(v, rng), full=(npos + nnamed <= 3))
    # 4. join: shape-exhaustive over separator/bracket combinations of both lists
    shapes = []
    for n in (0, 1, 2, 3):
        shapes += [(n, c) for c in combos(n)] + ([(n, ("u", False))] if n == 1 else [])
    seps = ["-", "auto", "space", "comma", "slash", "bad"]
    bras = ["-", "auto", "t", "f"]
    for (n1, c1), (n2, c2) in itertools.product(shapes, shapes):
        picks = [(s, b) for s in seps for b in bras]
        for s, b in (rng.sample(picks, 2 if quick else 8) + ([("-", "-")] if True else [])):
            yield join_case(rng, list_or_single(rng, n1, c1), list_or_single(rng, n2, c2), s, b, "join")
    for _ in range((400 if quick else 3000) * boost):
        v1 = rand_any(rng)
        v2 = rand_any(rng)
        yield join_case(rng, v1, v2, rng.choice(seps), rng.choice(bras), "join-mixed")
    # 5. zip
    for _ in range((600 if quick else 5000) * boost):
        k = rng.choice([0, 1, 2, 2, 3, 3, 4])
        vs = [rand_any(rng) for _ in range(k)]
        call = "list.zip(" + ", ".join(scss(v) for v in vs) + ")"
        yield mkcase("zip", [enc(v) for v in vs], call, "zip", use_global=rng.random() < 0.25)
    # 6. longer random lists with nesting
    for _ in range((60 if quick else 500) * boost):
        v = rand_list(rng, rng.randint(2, 6))
        yield from cases_for_value(v, rng, "list-random", needles_for(v, rng), full=False)


def list_or_single(rng, n, combo):
    if n == 1 and combo == ("u", False):
        return rng.choice(ELEMS)
    return rand_list(rng, n, 1, combo)


def rand_any(rng):
    k = rng.random()
    if k < 0.5:
        return rand_list(rng, rng.randint(0, 6), 1)
    if k < 0.62:
        return rng.choice(ELEMS)
    if k < 0.78:
        return rand_map(rng, rng.randint(0, 3))
    if k < 0.94:
        np_, nn = rng.randint(0, 3), rng.randint(0, 2)
        return rand_arglist(rng, np_, nn, rng.random() < 0.3 and np_ + nn > 0)
    n = rng.choice([0, 1])
    return rand_list(rng, n, 1, rng.choice(synth_combos(n)))


def join_case(rng, v1, v2, s, b, stratum):
    parts = [scss(v1), scss(v2)]
    if s != "-" and b == "-" and rng.random() < 0.5:
        parts.append(sep_kw(s))
    else:
        if s != "-":
            parts.append("$separator: " + sep_kw(s))
        if b != "-":
            parts.append("$bracketed: " + bra_text(b, rng))
    return mkcase("join", [enc(v1), enc(v2), s, b], "list.join(" + ", ".join(parts) + ")", stratum,
                  use_global=rng.random() < 0.25)


# ---------------------------------------------------------------------------------------
LEAF = re.compile(r"v((?:[0-9a-f]{2})*)")


def canon(fn, impl):
    """implementation result -> protocol encoding"""
    if impl.startswith("err:"):
        return "err"
    if not impl.startswith("ok:"):
        return impl
    css = unhx(impl[3:])
    m = re.search(r"b: (.*);\n\}", css, re.S)
    if not m:
        return "nodecl:" + css
    d = m.group(1)
    if fn in ("length", "index") and LEAF.fullmatch(d):
        t = unhx(d[1:])
        if re.fullmatch(r"-?\d+", t):
            return "i" + t
    if fn == "separator" and LEAF.fullmatch(d):
        t = unhx(d[1:])
        return {"space": "ks", "comma": "kc", "slash": "k/"}.get(t, "kw?" + t)
    if fn == "isbracketed" and LEAF.fullmatch(d):
        return {"true": "b1", "false": "b0"}.get(unhx(d[1:]), d)

    def leaf(mm):
        t = unhx(mm.group(1))
        i = BY_INSPECT.get(t)
        return f"a{i}c{ATOMS[i][2]}" if i is not None else mm.group(0)
    return LEAF.sub(leaf, d)


def parse_enc(s):
    """protocol encoding -> python value (inverse of enc)"""
    pos = 0

    def val():
        nonlocal pos
        c = s[pos]
        if c == "n":
            pos += 1
            return NULL
        if c == "a":
            m = re.compile(r"a(\d+)c(\d+)").match(s, pos)
            pos = m.end()
            return A(int(m.group(1)))
        if c == "l":
            sep, bra = s[pos + 1], s[pos + 2] == "1"
            pos += 4
            items = vals(")")
            pos += 1
            return L(items, sep, bra)
        if c == "m":
            pos += 2
            ps = pairs()
            pos += 1
            return M(ps)
        if c == "g":
            tc = s[pos + 1] == "1"
            pos += 3
            p = vals("|")
            pos += 1
            ps = pairs()
            pos += 1
            return G(p, ps, tc)
        raise ValueError(s)

    def vals(end):
        nonlocal pos
        out = []
        while s[pos] not in ")|":
            out.append(val())
            if s[pos] == ",":
                pos += 1
        return out

    def pairs():
        nonlocal pos
        out = []
        while s[pos] != ")":
            k = val()
            pos += 1
            w = val()
            out.append((k, w))
            if s[pos] == ",":
                pos += 1
        return out
    return val()


def parse_case(case):
    f = case.lines[0].split("\t")
    fn, a = f[1], f[2:-1]
    if fn in ("id", "length", "separator", "isbracketed"):
        args = [parse_enc(a[0])]
    elif fn == "nth":
        args = [parse_enc(a[0]), "bad" if a[1] == "bad" else int(a[1])]
    elif fn == "setnth":
        args = [parse_enc(a[0]), "bad" if a[1] == "bad" else int(a[1]), parse_enc(a[2])]
    elif fn == "append":
        args = [parse_enc(a[0]), parse_enc(a[1]), a[2]]
    elif fn == "join":
        args = [parse_enc(a[0]), parse_enc(a[1]), a[2], a[3]]
    elif fn == "index":
        args = [parse_enc(a[0]), parse_enc(a[1])]
    elif fn == "zip":
        args = [parse_enc(x) for x in a]
    else:
        raise ValueError(fn)
    return fn, args


def judge(case, impl, asis, spec):
    fn, args = parse_case(case)
    if impl.startswith(("panic:", "abort:")):
        return Verdict(False, "crash: " + impl[:60])
    got = canon(fn, impl)
    want = oracle(fn, args)
    fails = None
    if got != want:
        fails = f"{fn}: list model demands {want}, implementation gives {got}"
    return Verdict(got == asis, fails)


def nontrivial(case, impl, spec):
    return impl.startswith("ok:") and case.lines[0].split("\t")[1] != "id"


RULE = ("cases = one list-function call on generated values, compiled by the real compiler and dumped structurally "
        "(items, Option<separator>, bracket flag): lists of 0..6 elements x every separator/bracket combination that "
        "has literal syntax (plus the synthetic combinations built directly), singleton values incl. null, maps of "
        "0..3 pairs, argument lists from a real `@function args($a...)` call (0..3 positional, 0..2 named, trailing "
        "comma), every index -n-2..n+2 and non-integer/unit/non-number indices, every $separator/$bracketed argument; "
        "elements are atoms with a known == class (\"a\"==a, 1in==96px), null, nested lists and maps; join is "
        "shape-exhaustive over both lists' separator/bracket combinations; non-trivial = the call returns a value")
TRUSTED = ["harness built-ins vdump/mklist (structural dump of css::Value, direct construction of Value::List)",
           "props/C28.py renderer value -> SCSS text (validated every run by the `id` cases) and reference list model"]
ASSUMPTIONS = ["`==` on list elements is the atom-class equality of the generated values (C12/C13 own number and map equality)",
               "named arguments of an argument list count as trailing key/value pairs, as the statement says"]
LEVEL_TEXT = ("Proof (Lean 4): function-by-function model of sass/functions/list.rs (get_list, index_of, the nine "
              "functions) and Value::iter_items; nth/set-nth/append/join/index/zip/length/map-as-pairs theorems for "
              "all values and indices on the specification model, partial theorems + refutations for the four "
              "deviations of the code; tied to the code by exact structural agreement on every generated call.")
LEVEL_NOTE = ("Trusted: Lean kernel; the harness dump; the Python renderer and reference model. Element equality is an "
              "atom-class relation (number/map equality belong to C12/C13).")
TECHNIQUE = "Lean 4 theorems over a function-by-function model of the list module + structural differential correspondence"
