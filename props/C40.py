"""C40 — The command-line tool mirrors the library."""
import os
import shutil
import subprocess
import time
from tools import vlib
from tools.vlib import Case, Verdict, hx, unhx
from props import scssgen

ID = "C40"
DRIVER = "drv_C40"
THEOREM_MODS = ["RsassModel.Theorems.C40"]
LEVEL = "proof"
RULE = ("each case = one invocation of the built rsass binary (rsass-cli of the tree under test) on a scratch directory "
        "under /verif/.cache with 1..3 input files (generated programs, valid and failing, missing files, unsupported "
        "suffixes), style expanded/compressed (all spellings --style X, --style=X, -t X, -tX), precision 0..12 "
        "(--precision N, --precision=N), optional --load-path/-I, options before/after/between inputs, `--`; load-order "
        "layouts (dependency in the input's directory / in the load path / in both / nowhere, input in the root or a "
        "sub-directory, @import and @use); usage errors (repeated/unknown option, bad value, no input). The harness "
        "computes the library's result in-process for the same files/format/load path; non-trivial = all inputs "
        "compile with non-empty output or the expected load-order marker is printed")
TRUSTED = ["cargo build of rsass-cli from the tree under test (target dir under /verif/.cache)",
           "Python subprocess capture of stdout/stderr/exit status",
           "clap's behaviour is modelled only for the documented argument forms"]
ASSUMPTIONS = ["the library call per input is a parameter of the model; its results come from the harness (in-process "
               "FsContext::for_path + push_path + with_format + transform, the calls of Args::run)",
               "stdout is flushed at process exit (Rust runtime)",
               "sources contain no @debug/@warn (they write to stderr as well)"]
CASE_TIMEOUT = 60

CLI_TARGET = os.path.join(vlib.CACHE, "target-cli") if vlib.REPO == "/repo" else os.path.join(vlib.OUT, "target-cli")
CLI_BIN = os.path.join(CLI_TARGET, "debug", "rsass")
_counter = [0]


def _sweep():
    """scratch trees of this process that a crashed harness worker may have left behind"""
    import glob
    for d in glob.glob(os.path.join(vlib.CACHE, f"c40-{os.getpid()}-*")):
        shutil.rmtree(d, ignore_errors=True)


import atexit
atexit.register(_sweep)


def extract(ctx):
    """B2: build the real CLI binary from the tree under test"""
    lockfile = os.path.join(vlib.REPO, "Cargo.lock")
    if not os.path.exists(lockfile) and vlib.REPO != "/repo":
        shutil.copy("/repo/Cargo.lock", lockfile)  # scratch worktrees lack the untracked lock file
    with vlib.lock("cargo-cli" if vlib.REPO == "/repo" else "cargo-cli-" + os.path.basename(vlib.OUT)):
        t = time.time()
        p = subprocess.run(["cargo", "build", "--offline", "-p", "rsass-cli", "--manifest-path",
                            os.path.join(vlib.REPO, "Cargo.toml"), "--target-dir", CLI_TARGET],
                           env=vlib.env_offline(), stdout=subprocess.PIPE, stderr=subprocess.STDOUT, text=True)
        ctx.log["cli_build_s"] = round(time.time() - t, 1)
        if p.returncode != 0 or not os.path.exists(CLI_BIN):
            raise vlib.InfraError("rsass-cli build failed:\n" + p.stdout[-3000:])


# ---------------------------------------------------------------------------- scenarios
class Scn:
    def __init__(self, files, inputs, style, prec, lp, stratum, note=None, argv_extra=None, usage=False):
        self.files, self.inputs, self.style, self.prec, self.lp = files, inputs, style, prec, lp
        self.stratum, self.note, self.usage = stratum, note or {}, usage
        self.argv_extra = argv_extra  # for usage-error cases: the literal option part of argv
        _counter[0] += 1
        self.dir = f"c40-{os.getpid()}-{_counter[0]}"

    def root(self):
        return os.path.join(vlib.CACHE, self.dir)


def build_argv(s, rng):
    """argv[1..] in one of the spellings clap accepts; inputs as absolute paths"""
    root = s.root()
    opts = []
    if s.style == "c" or rng.random() < 0.3:
        word = "compressed" if s.style == "c" else "expanded"
        opts.append(rng.choice([["--style", word], ["--style=" + word], ["-t", word], ["-t" + word], ["-t=" + word]]))
    if s.prec != 5 or rng.random() < 0.3:
        opts.append(rng.choice([["--precision", str(s.prec)], ["--precision=" + str(s.prec)]]))
    if s.lp is not None:
        p = os.path.join(root, s.lp)
        opts.append(rng.choice([["--load-path", p], ["--load-path=" + p], ["-I", p], ["-I" + p]]))
    rng.shuffle(opts)
    ins = [os.path.join(root, i) for i in s.inputs]
    if rng.random() < 0.15:
        return [a for o in opts for a in o] + ["--"] + ins
    # options may be interleaved with the inputs
    slots = [[] for _ in range(len(ins) + 1)]
    for o in opts:
        slots[rng.choice([0, 0, 0, rng.randrange(len(slots))])].append(o)
    argv = []
    for i, sl in enumerate(slots):
        for o in sl:
            argv += o
        if i < len(ins):
            argv.append(ins[i])
    return argv


def program_text(rng):
    g, prog = scssgen.program(rng, rng.randint(2, 6))
    return scssgen.source(prog, g.uses_math)


FAILING = ["a { b: $undefined; }", "a { b: 1px + 1s; }", "a { b: c", "@include nothing;", "@error \"stop\";",
           "a { b: nth(1 2, 3); }", "}", "@import \"no-such-file\";", "@use \"no-such-module\";", "a { b: (x: y); }"]
SIMPLE = ["a { b: 1.23456789012345; }", "a { b: (1/3); c: 2.5px * 3; }", "x { y: z; }\n\nq { r: s; }", "/* c */\na { b: c; }",
          "a { b: \"é\"; }", "", "$v: 10px; a { w: $v * 1.5; }", "@media print { a { b: c; } }", "a { b: 0.000001; c: 1e-7; }"]


def scenarios(tier, rng, boost):
    n = (140 if tier == "quick" else 8000) * boost
    out = []
    # (1) general invocations
    for _ in range(n):
        k = rng.randint(1, 3)
        files, inputs = {}, []
        will_fail = rng.random() < 0.3
        fail_at = rng.randrange(k) if will_fail else -1
        for i in range(k):
            name = rng.choice(["", "sub/"]) + f"in{i}.scss"
            if i == fail_at:
                kind = rng.random()
                if kind < 0.15:
                    inputs.append(name)      # the file does not exist
                    continue
                if kind < 0.25:
                    name = name[:-5] + ".txt"   # unsupported suffix
                    files[name] = "a { b: c; }"
                    inputs.append(name)
                    continue
                src = rng.choice(FAILING)
                if rng.random() < 0.5:
                    src = program_text(rng) + "\n" + src
            else:
                src = rng.choice(SIMPLE) if rng.random() < 0.3 else program_text(rng)
            files[name] = src
            inputs.append(name)
        lp = None
        if rng.random() < 0.3:
            lp = "lp"
            files["lp/_unused.scss"] = "u { v: w; }"
        out.append(Scn(files, inputs, rng.choice("ec"), rng.choice([0, 1, 2, 3, 5, 5, 10, 12, rng.randint(0, 12)]), lp,
                       "failing" if will_fail else "valid"))
    # (2) load-order layouts: exhaustive over (where the dependency exists) x (input position) x (load path given)
    for sub in ("", "sub/"):
        for in_dir in (None, "dep.scss", "_dep.scss"):
            for in_lp in (None, "dep.scss", "_dep.scss"):
                for give_lp in (False, True):
                    for at_root in (False, True):
                        for how in ("@import \"dep\";", "@use \"dep\";", "@use \"dep\" as d;\nb { c: d.$v; }"):
                            if tier == "quick" and rng.random() < 0.65:
                                continue
                            files = {sub + "in.scss": how + "\nx { y: z; }"}
                            if in_dir:
                                files[sub + in_dir] = "$v: dir; .m { from: dir; }"
                            if in_lp:
                                files["lp/" + in_lp] = "$v: lp; .m { from: lp; }"
                            else:
                                files["lp/_other.scss"] = "o { p: q; }"
                            if at_root and sub:
                                files["dep.scss"] = "$v: cwd; .m { from: cwd; }"   # the process's cwd: never searched
                            expect = "dir" if in_dir else ("lp" if (in_lp and give_lp) else "-")
                            out.append(Scn(files, [sub + "in.scss"], rng.choice("ec"), rng.randint(0, 12),
                                           "lp" if give_lp else None, "load-order",
                                           {"kind": "lo:%s:dep:%s" % ("i" if how.startswith("@import") else "u", expect)}))
    # (2b) stray non-directory / non-file entries that shadow a candidate name in an earlier search directory:
    # a plain file named like the url (so `<url>/index.scss` is "not a directory" there), a directory named
    # `<url>.scss` (not a file), in the input's directory or in the load path
    MOD_DIR, MOD_LP = "$v: dir; .m { from: dir; }", "$v: lp; .m { from: lp; }"
    for how in ("@use \"theme\";", "@import \"theme\";", "@use \"theme\" as t;\nb { c: t.$v; }"):
        for stray_in, real_in, stray_lp, real_lp, give_lp in (
                ("theme", None, None, "theme/_index.scss", True), ("theme", None, None, "theme/index.scss", True),
                ("theme", None, None, "_theme.scss", True), ("theme.scss/keep.txt", None, None, "_theme.scss", True),
                ("theme.scss/keep.txt", None, None, "theme/_index.scss", True), ("theme", "_theme.scss", None, "theme/_index.scss", True),
                (None, "theme/_index.scss", "theme", None, True), (None, None, "theme", None, True),
                ("theme", None, None, None, False), ("theme.scss/keep.txt", "theme/index.scss", None, "theme.scss", True),
                ("theme/_index.scss/keep.txt", None, None, "theme/_index.scss", True)):
            files = {"in/main.scss": how + "\nx { y: z; }"}
            if stray_in:
                files["in/" + stray_in] = "stray"
            if real_in:
                files["in/" + real_in] = MOD_DIR
            if stray_lp:
                files["lp/" + stray_lp] = "stray"
            if real_lp:
                files["lp/" + real_lp] = MOD_LP
            files.setdefault("lp/_other.scss", "o { p: q; }")
            expect = "dir" if real_in else ("lp" if (real_lp and give_lp) else "-")
            out.append(Scn(files, ["in/main.scss"], rng.choice("ec"), rng.randint(0, 12), "lp" if give_lp else None,
                           "load-order-stray", {"kind": "lo:%s:theme:%s" % ("i" if how.startswith("@import") else "u", expect)}))
    # (3) usage errors
    for extra, why in ((["--precision", "2", "--precision", "3"], "repeated option"),
                       (["-I", "lp", "-I", "lp"], "repeated load path"),
                       (["--style", "compressed", "-t", "expanded"], "repeated option"),
                       (["--bogus"], "unknown option"), (["-x"], "unknown option"),
                       (["--precision", "abc"], "bad value"), (["--precision", "-1"], "bad value"),
                       (["--style", "nested"], "bad value"), (["--precision"], "missing value"),
                       (["NOINPUT"], "no input")):
        out.append(Scn({"a.scss": "a { b: c; }"}, ["a.scss"], "e", 5, None, "usage-error", {"why": why},
                       argv_extra=extra, usage=True))
    return out


def run_cli_in(root, files, argv):
    """materialise `files` (name -> bytes) under root, run the real binary, remove the tree again"""
    with vlib.lock("c40-scratch"):   # the harness takes the same lock for the same directory names
        try:
            for name, data in files.items():
                p = os.path.join(root, name)
                os.makedirs(os.path.dirname(p), exist_ok=True)
                with open(p, "wb") as f:
                    f.write(data)
            os.makedirs(root, exist_ok=True)
            p = subprocess.run([CLI_BIN] + argv, cwd=root, stdin=subprocess.DEVNULL, stdout=subprocess.PIPE,
                               stderr=subprocess.PIPE, timeout=60)
            return f"{p.returncode}:{p.stdout.hex()}:{p.stderr.hex()}"
        except subprocess.TimeoutExpired:
            return "timeout::"
        finally:
            shutil.rmtree(root, ignore_errors=True)


def run_cli(s, argv):
    return run_cli_in(s.root(), {n: d.encode("utf-8") for n, d in s.files.items()}, argv)


def observe_again(f):
    """re-run the binary for a protocol line whose recorded observation is stale (a witness or corpus line
    recorded against an earlier state of the code)"""
    files = {}
    for part in f[5].split(","):
        if ":" in part:
            n, h = part.split(":", 1)
            files[n] = bytes.fromhex(h)
    argv = [unhx(a) for a in f[8].split(",") if a]
    if not f[4].startswith("c40-") or "/" in f[4]:
        raise vlib.InfraError("bad scratch directory name in line")
    return run_cli_in(os.path.join(vlib.CACHE, f[4]), files, argv)


def gen(tier, rng, boost=1):
    if not os.path.exists(CLI_BIN):
        raise vlib.InfraError("rsass CLI binary missing: " + CLI_BIN)
    scns = scenarios(tier, rng, boost)
    heads, argvs, obs = [], [], []
    for s in scns:
        if s.usage:
            root = s.root()
            argv = list(s.argv_extra)
            if argv == ["NOINPUT"]:
                argv = []
            elif rng.random() < 0.5:
                argv = argv + [os.path.join(root, "a.scss")]
            else:
                argv = [os.path.join(root, "a.scss")] + argv
        else:
            argv = build_argv(s, rng)
        files = ",".join(f"{n}:{hx(d)}" for n, d in sorted(s.files.items()))
        heads.append(f"c40\t{s.style}\t{s.prec}\t{s.lp or '-'}\t{s.dir}\t{files}\t{','.join(s.inputs)}")
        argvs.append(",".join(hx(a) for a in argv))
        obs.append(run_cli(s, argv))
    # the library's results for the same files (phase 1; the check re-computes them as `impl`)
    lib = vlib.run_impl(heads, CASE_TIMEOUT) if heads else []
    for s, head, argv, ob, lr in zip(scns, heads, argvs, obs, lib):
        kind = "usage" if s.usage else s.note.get("kind", "gen")
        yield Case(f"{head}\t{lr}\t{argv}\t{ob}\t{kind}", s.stratum, s.note)


# ---------------------------------------------------------------------------- oracle
def _files(field):
    out = {}
    for part in field.split(","):
        if ":" in part:
            n, h = part.split(":", 1)
            out[n] = unhx(h)
    return out


def _marker(style, content):
    """what a dependency file of the load-order layouts prints"""
    import re
    m = re.search(r"from: (\w+);", content or "")
    if not m:
        return None
    return ("from:" if style == "c" else "from: ") + m.group(1)


def judge(case, impl, asis, spec):
    f = case.lines[0].split("\t")
    inputs, libres, cli = f[6].split(","), f[7], f[9]
    kind = f[10] if len(f) > 10 else "gen"
    if impl.startswith("infra:") or libres.startswith("infra:"):
        raise vlib.InfraError("scratch directory could not be written: " + vlib.show(impl))
    stale = impl != libres
    if stale:
        # the line was recorded against another state of the code (known-finding witness, corpus):
        # take the library's results of this run and observe the binary again
        libres, cli = impl, observe_again(f)
        asis = None     # the model's answer was computed from the recorded results: no opinion
    code, out_hex, err_hex = cli.split(":")
    stdout = bytes.fromhex(out_hex)
    stderr = bytes.fromhex(err_hex)
    corr = True
    # correspondence 2: the CLI behaves like the model fed with the library's results
    if asis is not None:
        m = asis.split("|")
        if len(m) not in (3, 4):
            corr = False
        else:
            mode, merr = m[2][:1], bytes.fromhex(m[2][1:])
            corr = corr and code == m[0] and out_hex == m[1] and \
                (stderr == merr if mode == "=" else stderr.startswith(merr))
            if len(m) == 4:
                # correspondence 3 (load-order layouts): the file the model resolves the load to is the one printed
                if m[3] == "-":
                    corr = corr and code != "0"
                else:
                    mk = _marker(f[1], _files(f[5]).get(m[3]))
                    corr = corr and code == "0" and mk is not None and mk.encode() in stdout
    if kind == "usage":
        return Verdict(corr, None)
    rs = libres.split(";") if libres else []
    if "panic" in rs or impl.startswith(("panic:", "abort:")):
        return Verdict(True, None)   # rsass itself crashed on this input: C01's business
    if code == "timeout":
        return Verdict(False, "the tool did not finish")
    if all(r.startswith("ok:") for r in rs) and len(rs) != len(inputs):
        raise vlib.InfraError("library results do not cover the inputs: " + case.lines[0][:200])
    fails = None
    if all(r.startswith("ok:") for r in rs):
        want = b"".join(bytes.fromhex(r[3:]) for r in rs)
        if code != "0":
            fails = f"all inputs compile in the library but the tool exits {code}"
        elif stdout != want:
            fails = "stdout is not the concatenation of the library's outputs for this style and precision"
    else:
        if code == "0":
            fails = "an input fails in the library but the tool exits 0"
        elif not any(l.startswith(b"Error:") for l in stderr.split(b"\n")):
            fails = "non-zero exit without an `Error:` message on stderr"
    if fails is None and kind.startswith("lo:"):
        exp = kind.split(":")[3]
        if exp == "-":
            if code == "0":
                fails = "a load that exists neither next to the input nor in --load-path was resolved"
        else:
            marker = ("from:" + exp) if f[1] == "c" else ("from: " + exp)
            if code != "0" or marker.encode() not in stdout:
                fails = f"load not resolved from the expected place ({exp}: the input's directory first, then --load-path)"
    return Verdict(corr, fails)


def nontrivial(case, impl, spec):
    f = case.lines[0].split("\t")
    if len(f) > 10 and f[10] == "usage":
        return False
    rs = f[7].split(";")
    return len(rs) == len(f[6].split(",")) and all(r.startswith("ok:") and r != "ok:" for r in rs)


LEVEL_TEXT = ("Proof (Lean 4) over a model of rsass-cli's main.rs (clap parsing of the documented argument forms, the Args::run "
              "loop, ExitCode mapping): all inputs ok => stdout = concatenation, stderr empty, exit 0; some input fails => exit "
              "non-zero, stderr starts `Error:`, stdout = outputs before the first failure; exit 0 iff all compile; format "
              "pass-through (defaults expanded/5, every spelling); load order = input's directory then --load-path. Tie: the "
              "real binary is built from the tree under test and run on scratch directories; its stdout/stderr/exit status "
              "are compared byte-exactly with the model fed with the library's in-process results for the same files.")
LEVEL_NOTE = ("Trusted: Lean kernel; cargo build; subprocess capture; clap modelled for the documented forms only "
              "(--help/--version/-V not modelled). --load-path is a single Option<PathBuf>: a second -I is a usage error.")
TECHNIQUE = "Lean 4 theorems over a model of the CLI driver + differential run of the real binary against in-process library results"
