"""Value generator shared by C12, C13, C14: one Python object per SassScript value, printed
once as a *term* for the Lean driver / the direct-API harness ops and once as SassScript
*text* for compilation (DESIGN "Line protocol"), so the two sides cannot drift apart.

A value is a tuple:
  ("null",) ("bool", b) ("num", bits, unit_id, spelling) ("str", text, quotes 'n'|'d'|'s')
  ("color", (r,g,b,a) as floats, notation) ("fn", idx) ("list", [items], sep, bracketed)
  ("map", [(k, v)...]) ("arglist", [items])
"""
import struct
from decimal import Decimal
from tools.vlib import hx

# unit ids shared with harness/src/ops/c12.rs `unit_of`
UNITS = {0: "", 1: "px", 2: "in", 3: "cm", 4: "mm", 5: "pt", 6: "pc", 7: "q", 8: "deg", 9: "rad", 10: "grad",
         11: "turn", 12: "s", 13: "ms", 14: "hz", 15: "khz", 16: "em", 17: "rem", 18: "%", 19: "dpi", 20: "dppx",
         21: "u21", 22: "u22"}
# units that the SassScript text path uses (spelled exactly as rsass prints/parses them)
SCSS_UNITS = [0, 1, 2, 3, 4, 5, 6, 8, 9, 10, 11, 12, 13, 16, 17, 18, 21, 22]
# CSS Values: groups of mutually convertible units (the independent comparability oracle)
GROUPS = [{1, 2, 3, 4, 5, 6, 7}, {8, 9, 10, 11}, {12, 13}, {14, 15}, {19, 20}]
BUILTIN_FNS = ["red", "green", "blue", "lighten", "darken", "percentage"]


def css_comparable(ua, ub):
    """both unitless, the same unit, or two units CSS defines a fixed ratio between"""
    return ua == ub or any(ua in g and ub in g for g in GROUPS)


def bits_of(x):
    return struct.unpack("<Q", struct.pack("<d", x))[0]


def float_of(bits):
    return struct.unpack("<d", struct.pack("<Q", bits & (2 ** 64 - 1)))[0]


def step(x, k):
    """x moved by k units in the last place (finite x)"""
    if x != x or x in (float("inf"), float("-inf")):
        return x
    b = bits_of(x)
    sign = b >> 63
    mag = b & (2 ** 63 - 1)
    m = mag + (k if not sign else -k)
    if m < 0:
        return float_of((1 - sign) << 63 | (-m))
    m = min(m, 0x7fefffffffffffff)
    return float_of(sign << 63 | m)


def plain(x):
    """decimal text without exponent that Rust's `str::parse::<f64>` reads back to exactly x"""
    s = format(Decimal(repr(x)), "f")
    return s


def num(x, unit=0, spelling=0):
    return ("num", bits_of(x), unit, spelling)


def is_nan_val(v):
    k = v[0]
    if k == "num":
        x = float_of(v[1])
        return x != x
    if k in ("list", "arglist"):
        return any(is_nan_val(i) for i in v[1])
    if k == "map":
        return any(is_nan_val(a) or is_nan_val(b) for a, b in v[1])
    return False


def term(v, scss=False):
    """term for the model.  scss=True: the value as it is after rsass evaluated the text
    (single quotes are normalised to double quotes by `pref_dquotes`)."""
    k = v[0]
    if k == "null":
        return "null"
    if k == "bool":
        return "true" if v[1] else "false"
    if k == "num":
        return f"n {v[1]} {v[2]}"
    if k == "numa":
        return f"na {v[1]} {v[2]}"
    if k == "str":
        q = v[2]
        if scss and q == "s":
            q = "d"
        return f"s {q} {hx(v[1]) or '-'}"
    if k == "strl":
        q, raw = strraw(v[1])
        return f"s {q} {hx(raw) or '-'}"
    if k == "color":
        return "c " + " ".join(str(bits_of(float(c))) for c in v[1])
    if k == "fn":
        return f"f {v[1]}"
    if k == "list":
        return " ".join([f"l {v[2]} {1 if v[3] else 0} {len(v[1])}"] + [term(i, scss) for i in v[1]])
    if k == "map":
        out = [f"m {len(v[1])}"]
        for a, b in v[1]:
            out += [term(a, scss), term(b, scss)]
        return " ".join(out)
    if k == "arglist":
        return " ".join([f"a {len(v[1])}"] + [term(i, scss) for i in v[1]])
    raise ValueError(k)


def scss(v, top=True):
    """SassScript text evaluating to the value, or None if this object has no text form"""
    k = v[0]
    if k == "null":
        return "null"
    if k == "bool":
        return "true" if v[1] else "false"
    if k == "num":
        x = float_of(v[1])
        u = v[2]
        if u not in SCSS_UNITS:
            return None
        us = UNITS[u]
        if x != x:
            return f"math.div(0{us}, 0)"
        if x == float("inf"):
            return f"math.div(1{us}, 0)"
        if x == float("-inf"):
            return f"math.div(-1{us}, 0)"
        if bits_of(x) == 1 << 63:
            return None  # -0.0 has no literal
        s = plain(x)
        sp = v[3]
        if sp == 1 and "." not in s:
            s += ".0"
        elif sp == 2 and "." in s:
            s += "0"
        elif sp == 3 and s.startswith("0."):
            s = s[1:]
        elif sp == 4 and abs(x) < 1e15 and x == int(x):
            s = repr(float(x)).replace(".0", "") + "e0"
        t = s + us
        return f"({t})" if x < 0 else t
    if k == "strl":
        return v[1]
    if k == "numa":
        # a number NOT marked "calculated": the result of calc() — only meaningful inline
        inner = scss(("num", v[1], v[2], v[3]))
        if inner is None or inner.startswith("math.") or inner.startswith("("):
            return None
        return f"calc({inner})"
    if k == "str":
        t, q = v[1], v[2]
        if any(c in t for c in "\\\"'\n#{}") or any(ord(c) < 32 for c in t):
            return None
        if q == "n":
            ok = t and (t[0].isalpha() or t[0] == "_") and all(c.isalnum() or c in "-_" for c in t)
            if not ok or t in ("true", "false", "null", "not", "and", "or", "red", "blue", "green", "NaN", "infinity"):
                return None
            return t
        return '"' + t + '"' if q == "d" else "'" + t + "'"
    if k == "color":
        return v[2]  # the notation text (or None)
    if k == "fn":
        return f'meta.get-function("{BUILTIN_FNS[v[1]]}")'
    if k == "list":
        items = [scss(i, False) for i in v[1]]
        if any(i is None for i in items):
            return None
        sep, br = v[2], v[3]
        n = len(items)
        if br:
            if n == 0:
                return "[]" if sep == "u" else None
            if n == 1:
                if sep == "u":
                    return f"[{items[0]}]"
                if sep == "c":
                    return f"[{items[0]},]"
                return None
            if sep == "s":
                return "[" + " ".join(items) + "]"
            if sep == "c":
                return "[" + ", ".join(items) + "]"
            return None
        if n == 0:
            return "()" if sep == "u" else None
        if n == 1:
            return f"({items[0]},)" if sep == "c" else None
        # nested lists of the same separator need their own parentheses (items already have them)
        if sep == "s":
            return "(" + " ".join(items) + ")"
        if sep == "c":
            return "(" + ", ".join(items) + ")"
        return None
    if k == "map":
        if not v[1]:
            return "map.remove((a: 1), a)"
        parts = []
        for a, b in v[1]:
            ka, vb = scss(a, False), scss(b, False)
            if ka is None or vb is None:
                return None
            parts.append(f"{ka}: {vb}")
        return "(" + ", ".join(parts) + ")"
    if k == "arglist":
        items = [scss(i, False) for i in v[1]]
        if any(i is None for i in items):
            return None
        return "al(" + ", ".join(items) + ")"
    raise ValueError(k)


# ---------------------------------------------------------------- colours
NAMED = {"red": (255, 0, 0), "blue": (0, 0, 255), "lime": (0, 255, 0), "white": (255, 255, 255),
         "black": (0, 0, 0), "teal": (0, 128, 128), "rebeccapurple": (102, 51, 153)}


def color_variants(r, g, b):
    """all notations of an opaque byte colour"""
    out = [f"#{r:02x}{g:02x}{b:02x}", f"#{r:02X}{g:02X}{b:02X}", f"rgb({r}, {g}, {b})", f"rgba({r}, {g}, {b}, 1)"]
    if all(c % 17 == 0 for c in (r, g, b)):
        out.append(f"#{r // 17:x}{g // 17:x}{b // 17:x}")
    for n, t in NAMED.items():
        if t == (r, g, b):
            out.append(n)
    return out


def gen_color(rng):
    if rng.random() < 0.5:
        r, g, b = rng.choice(list(NAMED.values()))
    else:
        r, g, b = [rng.choice([0, 17, 34, 128, 255, rng.randint(0, 255)]) for _ in range(3)]
    k = rng.random()
    if k < 0.7:
        return ("color", (r, g, b, 1.0), rng.choice(color_variants(r, g, b)))
    if k < 0.85:
        a = rng.choice([0.5, 0.25, 0.0, 0.75])
        return ("color", (r, g, b, a), f"rgba({r}, {g}, {b}, {a})")
    # fractional channel, possibly within the 1e-7 tolerance of the integer
    d = rng.choice([5e-8, 9.9e-8, 1e-7, 1.1e-7, 2e-7, 0.5, 1e-9])
    rr = min(255.0, r + d) if r < 255 else r - d
    return ("color", (rr, g, b, 1.0), f"rgb({plain(rr)}, {g}, {b})")


# ---------------------------------------------------------------- atoms
STR_POOL = ["a", "b", "ab", "foo", "bar", "x1", "a-b", "_u", "é", "a b", "", "1", "A"]
NUM_POOL = [0.0, 1.0, 2.0, -1.0, 0.5, 1.5, 10.0, 100.0, 0.1, 0.30000000000000004, 0.3, 1e-7, 255.0, 3.0,
            1 / 3, 2 / 3, 1e15, 123456.789]


def gen_num(rng, unit=None):
    x = rng.choice(NUM_POOL) if rng.random() < 0.8 else round(rng.uniform(-1000, 1000), rng.randint(0, 6))
    if unit is None:
        unit = rng.choice([0, 0, 0, 1, 1, 2, 3, 12, 13, 8, 16, 18, 21])
    return ("num", bits_of(x), unit, rng.randint(0, 4))


def gen_str(rng):
    return ("str", rng.choice(STR_POOL), rng.choice("nds"))


def gen_atom(rng):
    k = rng.random()
    if k < 0.3:
        return gen_num(rng)
    if k < 0.55:
        return gen_str(rng)
    if k < 0.7:
        return gen_color(rng)
    if k < 0.8:
        return ("bool", rng.random() < 0.5)
    if k < 0.88:
        return ("null",)
    return ("fn", rng.randrange(len(BUILTIN_FNS)))


def gen_value(rng, depth=2):
    k = rng.random()
    if depth <= 0 or k < 0.5:
        return gen_atom(rng)
    if k < 0.72:
        n = rng.choice([0, 1, 2, 2, 3])
        sep = rng.choice("sc") if n >= 2 else rng.choice("uc" if n == 1 else "u")
        br = rng.random() < 0.25
        if n == 1 and sep == "u" and not br:
            sep = "c"
        return ("list", [gen_value(rng, depth - 1) for _ in range(n)], sep, br)
    if k < 0.92:
        return gen_map(rng, depth - 1)
    return ("arglist", [gen_value(rng, depth - 1) for _ in range(rng.choice([0, 1, 2, 3]))])


def same_key(a, b):
    """conservative: may two generated atoms be `==`? (used to keep literal keys distinct)"""
    if a[0] != b[0]:
        return False
    if a[0] == "num":
        return abs(float_of(a[1]) - float_of(b[1])) <= 1e-9 * max(1, abs(float_of(a[1])))
    if a[0] == "str":
        return a[1] == b[1]
    if a[0] == "color":
        return all(abs(x - y) < 1e-6 for x, y in zip(a[1], b[1]))
    if a[0] in ("list", "map", "arglist"):
        return True
    return a[1:] == b[1:]


def gen_map(rng, depth=1, n=None, key_gen=None):
    n = rng.choice([0, 1, 2, 3, 4]) if n is None else n
    keys = []
    tries = 0
    while len(keys) < n and tries < 50:
        tries += 1
        k = (key_gen or gen_atom)(rng)
        if k[0] == "num" and float_of(k[1]) != float_of(k[1]):
            continue
        if not any(same_key(k, o) for o in keys):
            keys.append(k)
    return ("map", [(k, gen_value(rng, depth)) for k in keys])


def respell(v, rng):
    """the same value in a different representation (`1` / `1.0`, `"a"` / `a` / `'a'`, `red` / `#f00`)"""
    k = v[0]
    if k == "num":
        return ("num", v[1], v[2], rng.randint(0, 4))
    if k == "str":
        return ("str", v[1], rng.choice("nds"))
    if k == "strl":
        for c in ESCAPE_CLASSES:
            if v[1] in c:
                return ("strl", rng.choice(c))
        return v
    if k == "color":
        c = v[1]
        if c[3] == 1.0 and all(float(x) == int(x) for x in c[:3]):
            return ("color", c, rng.choice(color_variants(int(c[0]), int(c[1]), int(c[2]))))
        return v
    if k == "list":
        return ("list", [respell(i, rng) for i in v[1]], v[2], v[3])
    if k == "arglist":
        return ("arglist", [respell(i, rng) for i in v[1]])
    if k == "map":
        return ("map", [(respell(a, rng), respell(b, rng)) for a, b in v[1]])
    return v


def units_in(v, acc):
    k = v[0]
    if k in ("num", "numa"):
        acc.add(v[2])
    elif k in ("list", "arglist"):
        for i in v[1]:
            units_in(i, acc)
    elif k == "map":
        for a, b in v[1]:
            units_in(a, acc)
            units_in(b, acc)
    return acc


_STRRAW = {}


def strraw(text):
    """T1 extraction: quote kind and raw value the literal parser stores for a string literal
    (escapes are partly normalised at parse time), read from the running code (harness op `strraw`)"""
    if text not in _STRRAW:
        from tools.vlib import run_impl, unhx
        out = run_impl([f"strraw\t{hx(text)}"])[0]
        q, _, h = out.partition(":")
        if q not in ("n", "d", "s"):
            raise ValueError("strraw failed for " + text + ": " + out)
        _STRRAW[text] = (q, unhx(h) if h else "")
    return _STRRAW[text]


# string literals that are `==` although spelled with different escapes (classes)
ESCAPE_CLASSES = [
    ['"a b"', '"a\\20 b"', "'a b'", "'a\\20 b'"],
    ['"a:b"', '"a\\:b"', "'a:b'"],
    ['"\\-"', '"-"', "'-'", "'\\-'"],
    ["'x\\79 '", "'xy'", "xy", '"x\\79"'],
    ['"a\\\\b"', "'a\\\\b'"],
    ['"\\e9"', '"é"', "é"],
]


def css_unescape(raw):
    """CSS meaning of the text of a quoted string (independent of the Lean model of `unquote`):
    `\\` + 1-6 hex digits (+ one optional space) is that code point, `\\` + any other char is the char"""
    out, i, n = [], 0, len(raw)
    while i < n:
        c = raw[i]
        if c != "\\":
            out.append(c)
            i += 1
            continue
        i += 1
        j = i
        while j < n and j - i < 6 and raw[j] in "0123456789abcdefABCDEF":
            j += 1
        if j > i:
            cp = int(raw[i:j], 16)
            out.append(chr(cp) if 0 < cp < 0x110000 and not 0xD800 <= cp < 0xE000 else "\ufffd")
            i = j + 1 if j < n and raw[j] == " " else j
        elif i < n:
            out.append(raw[i])
            i += 1
    return "".join(out)


_CONV = None


def conv_table():
    """T1 extraction: the conversion factors `UnitSet::scale_to` gives, as f64 bits, read from
    the running code (harness op `c12scale`)."""
    global _CONV
    if _CONV is None:
        from tools.vlib import run_impl
        ids = sorted(UNITS)
        lines = [f"c12scale\t{a}\t{b}" for a in ids for b in ids]
        out = run_impl(lines)
        _CONV = {}
        i = 0
        for a in ids:
            for b in ids:
                if out[i] != "none" and out[i].isdigit():
                    _CONV[(a, b)] = int(out[i])
                i += 1
    return _CONV


def conv_field(*values):
    us = set()
    for v in values:
        units_in(v, us)
    us.discard(0)
    t = conv_table()
    ent = [f"{a}>{b}:{t[(a, b)]}" for a in sorted(us) for b in sorted(us) if a != b and (a, b) in t]
    return ";".join(ent) or "-"


VALUE_FLAGS = {"numEqAsymmetric", "convCmpOneWay", "mapEqOrdered", "mapEqOneSided", "argListNeverEqual",
               "strEqSameQuotesRaw", "ordCalcFlag"}


def live_value_flags(pid):
    """Deviation flags of the shared value model (`Val.ValQuirks`) that belong to open findings of
    OTHER properties: a flag is live iff that finding's witness (a veq/seq line) still fails the
    C12 statement on the harness that was just built.  (A property's own findings are replayed by
    tools/vlib.py; this covers e.g. C13/C14 programs whose as-is model must follow C12's findings.)"""
    import json, os
    from tools.vlib import VERIF, run_impl
    from props import C12
    try:
        kf = json.load(open(os.path.join(VERIF, "known_findings.json")))["findings"]
    except OSError:
        return []
    cand = [f for f in kf if f.get("status") == "open" and f.get("property") != pid
            and set(f.get("flags", [])) & VALUE_FLAGS and f.get("witness", "").split("\t")[0] in ("veq", "seq", "seqin")]
    if not cand:
        return []
    out = run_impl([f["witness"] for f in cand])
    live = set()
    for f, r in zip(cand, out):
        fields = f["witness"].split("\t")
        why = C12.oracle(fields, r)
        if why is None and f.get("property") == "C13":
            from props import C13
            why = C13.judge(type("W", (), {"lines": [f["witness"]], "note": {}})(), r, None, None).fails
        if why is not None:
            live |= set(f["flags"]) & VALUE_FLAGS
    return sorted(live)
