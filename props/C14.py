"""C14 — `not`, `and`, `or` follow Sass truthiness."""
import re
from tools.vlib import Case, Verdict, hx, unhx
from props import _valgen as G
from props._valgen import num
from props.C13 import parse_term

ID = "C14"
DRIVER = "drv_C14"
THEOREM_MODS = ["RsassModel.Theorems.C14"]
LEVEL = "proof"
CASE_TIMEOUT = 60
RULE = ("logic case = an expression tree over not/and/or (depth <= 3) whose leaves are operands of every kind (true, false, "
        "null, 0, 1, NaN, quoted/unquoted/empty strings, empty and non-empty lists, maps, empty map, colours, functions), "
        "written inline or through a variable, or thunks: function calls that append their id to a global log and return a "
        "value, or that `@error`.  Exhaustive part: every operand kind x {not, and, or} x every right operand kind "
        "(value, logging thunk, failing thunk).  The compiled program prints the result as (index in the operand pool via "
        "list.index, meta.type-of) and the log; compared with the Lean evaluator and an independent Python evaluator of the "
        "statement.  Non-trivial = the expression contains a thunk or a non-boolean operand and compiled.")
TRUSTED = ["Python reference evaluator (truthiness, short-circuit, log) as the oracle of the statement",
           "result identification through list.index (==) and meta.type-of inside the compiled program",
           "same value-term generator as C12/C13 (props/_valgen.py)"]
ASSUMPTIONS = ["side effects of an operand are observed as appends to a global list or as a compile error; other effects "
               "(@debug/@warn output) are not generated"]


def __getattr__(name):
    if name == "ALWAYS_QUIRKS":
        return G.live_value_flags(ID)
    raise AttributeError(name)


OPERANDS = [
    ("bool", True), ("bool", False), ("null",), num(0.0), num(1.0), num(float("nan")), num(-1.0), num(0.0, 1),
    ("str", "x", "d"), ("str", "foo", "n"), ("str", "", "d"), ("str", "false", "d"), ("str", "x", "s"),
    ("list", [], "u", False), ("list", [], "u", True), ("list", [num(1.0), num(2.0)], "s", False),
    ("list", [("null",)], "c", False), ("list", [("bool", False)], "u", True),
    ("map", [(("str", "a", "n"), num(1.0))]), ("map", []), ("map", [(("null",), ("bool", False))]),
    ("color", (255, 0, 0, 1.0), "red"), ("color", (0, 0, 0, 0.0), "rgba(0, 0, 0, 0)"), ("fn", 0),
]

PRELUDE = ('@use "sass:map";@use "sass:list";@use "sass:math";@use "sass:meta";\n'
           '@function ix($l, $x) { $i: list.index($l, $x); @return if($i == null, n, $i); }\n'
           '$log: ();\n')


def falsey(v):
    return v == ("bool", False) or v == ("null",)


class Leaf:
    def __init__(self, kind, vi=None, tid=None, inline=False):
        self.kind, self.vi, self.tid, self.inline = kind, vi, tid, inline   # kind: lit | thunk | fail


def gen_leaf(rng, next_id, p_thunk=0.35):
    k = rng.random()
    if k < 1 - p_thunk:
        return Leaf("lit", rng.randrange(len(OPERANDS)), None, rng.random() < 0.5)
    next_id[0] += 1
    if k < 1 - p_thunk / 3:
        return Leaf("thunk", rng.randrange(len(OPERANDS)), next_id[0])
    return Leaf("fail", None, next_id[0])


def gen_expr(rng, depth, next_id):
    k = rng.random()
    if depth <= 0 or k < 0.25:
        return gen_leaf(rng, next_id)
    if k < 0.45:
        return ("not", gen_expr(rng, depth - 1, next_id))
    return (rng.choice(["and", "or"]), gen_expr(rng, depth - 1, next_id), gen_expr(rng, depth - 1, next_id))


def leaves(e):
    if isinstance(e, Leaf):
        return [e]
    return [l for sub in e[1:] for l in leaves(sub)]


def P(e):
    return ("paren", e)


def parenthesised(e):
    """sub-expressions that are written in parentheses: binary ones, and explicit ("paren", e)"""
    return not isinstance(e, Leaf) and e[0] in ("and", "or")


def expr_text(e):
    if isinstance(e, Leaf):
        if e.kind == "lit":
            return G.scss(OPERANDS[e.vi], False) if e.inline else f"$p{e.vi}"
        return f"t{e.tid}()"
    if e[0] == "paren":
        return f"({expr_text(e[1])})"
    if e[0] == "not":
        inner = expr_text(e[1])
        return f"not ({inner})" if parenthesised(e[1]) else f"not {inner}"
    a, b = expr_text(e[1]), expr_text(e[2])
    wa = f"({a})" if parenthesised(e[1]) else a
    wb = f"({b})" if parenthesised(e[2]) else b
    return f"{wa} {e[0]} {wb}"


def expr_term(e, top=True):
    if isinstance(e, Leaf):
        if e.kind == "lit":
            return "L " + G.term(OPERANDS[e.vi], True)
        if e.kind == "thunk":
            return f"T {e.tid} " + G.term(OPERANDS[e.vi], True)
        return f"X {e.tid}"
    if e[0] == "paren":
        return "P " + expr_term(e[1], False)
    if e[0] == "not":
        return "not " + ("P " if parenthesised(e[1]) else "") + expr_term(e[1], False)
    return (f"{e[0]} " + ("P " if parenthesised(e[1]) else "") + expr_term(e[1], False) + " "
            + ("P " if parenthesised(e[2]) else "") + expr_term(e[2], False))


def build(e):
    src = [PRELUDE]
    for i, v in enumerate(OPERANDS):
        src.append(f"$p{i}: {G.scss(v)};")
    src.append("$pool: (" + ", ".join(f"$p{i}" for i in range(len(OPERANDS))) + ");")
    for l in leaves(e):
        if l.kind == "thunk":
            src.append(f"@function t{l.tid}() {{ $log: list.append($log, {l.tid}) !global; @return $p{l.vi}; }}")
        elif l.kind == "fail":
            src.append(f"@function t{l.tid}() {{ $log: list.append($log, {l.tid}) !global; @error \"forced {l.tid}\"; }}")
    src.append("$r: " + expr_text(e) + ";")
    src.append('x { r: "#{ix($pool, $r)}:#{meta.type-of($r)}"; l: "L#{meta.inspect($log)}"; }')
    pool_term = " ".join([f"l c 0 {len(OPERANDS)}"] + [G.term(v, True) for v in OPERANDS])
    conv = G.conv_field(*OPERANDS)
    return "\t".join(["logic", conv, pool_term, expr_term(e), hx("\n".join(src))])


def gen(tier, rng, boost=1):
    quick = tier == "quick"
    nid = [0]
    n = len(OPERANDS)
    # exhaustive: every operand kind x not (inline and through a variable)
    for i in range(n):
        for inline in (False, True):
            yield Case(build(("not", Leaf("lit", i, None, inline))), "not-exhaustive")
            yield Case(build(("not", ("not", Leaf("lit", i, None, inline)))), "not-not")
    # exhaustive: every left operand x and/or x {value, logging thunk, failing thunk}
    for i in range(n):
        for op in ("and", "or"):
            for inline in (False, True):
                right_vals = range(n) if not quick else [0, 1, 2, 3, 8, 13, 18, 19]
                for j in right_vals:
                    yield Case(build((op, Leaf("lit", i, None, inline), Leaf("lit", j, None, not inline))), "binary-exhaustive")
                yield Case(build((op, Leaf("lit", i, None, inline), Leaf("thunk", 4, 1))), "binary-thunk")
                yield Case(build((op, Leaf("lit", i, None, inline), Leaf("fail", None, 1))), "binary-failing-right")
                yield Case(build((op, Leaf("thunk", i, 1), Leaf("fail", None, 2))), "binary-thunk-left")
    # parenthesised operands (a parenthesised null is still null)
    for i in range(n):
        for inline in (False, True):
            lit = Leaf("lit", i, None, inline)
            yield Case(build(("not", P(lit))), "paren")
            for op in ("and", "or"):
                yield Case(build((op, P(lit), Leaf("lit", 4))), "paren")
                yield Case(build((op, P(lit), Leaf("fail", None, 1))), "paren")
                yield Case(build((op, P(("and", Leaf("lit", 4), lit)), Leaf("thunk", 8, 1))), "paren")
    # random trees
    m = (600 if quick else 60000) * boost
    for _ in range(m):
        nid = [0]
        yield Case(build(gen_expr(rng, rng.choice([1, 2, 2, 3]), nid)), "tree")


# ---------------------------------------------------------------- oracle: the statement, executable
def sass_eq(a, b):
    """== on canonical term objects (C13.parse_term), enough for the operand pool"""
    if a == b:
        return not (a[0] == "n" and a[1] == "nan")
    empty = lambda o: (o[0] == "l" and not o[3]) or (o[0] == "m" and not o[1])
    if {a[0], b[0]} == {"l", "m"} and empty(a) and empty(b):
        return True
    return False


TYPE = {"null": "null", "true": "bool", "false": "bool", "n": "number", "s": "string", "c": "color", "f": "function",
        "l": "list", "m": "map", "a": "arglist"}


def ref_eval(toks, i, log):
    """-> (value object or None on error, next index); value objects are canonical terms"""
    t = toks[i]
    if t == "L":
        v, j = parse_term(toks, i + 1)
        return v, j, False
    if t == "T":
        v, j = parse_term(toks, i + 2)
        if log is not None:
            log.append(toks[i + 1])
        return v, j, False
    if t == "X":
        if log is not None:
            log.append(toks[i + 1])
            return None, i + 2, True
        return ("null",), i + 2, False
    if t == "P":
        return ref_eval(toks, i + 1, log)
    if t == "not":
        v, j, err = ref_eval(toks, i + 1, log)
        if err:
            return None, j, True
        if log is None:
            return v, j, False
        return (("true",) if v in (("false",), ("null",)) else ("false",)), j, False
    if t in ("and", "or"):
        va, j, err = ref_eval(toks, i + 1, log)
        if err:
            _, j2, _ = ref_eval(toks, j, None)     # skip the right operand without evaluating it
            return None, j2, True
        if log is None:
            _, j2, _ = ref_eval(toks, j, None)
            return va, j2, False
        truthy = va not in (("false",), ("null",))
        need_b = truthy if t == "and" else not truthy
        if need_b:
            return ref_eval(toks, j, log)
        _, j2, _ = ref_eval(toks, j, None)
        return va, j2, False
    raise ValueError(t)


def reference_from_line(f):
    try:
        pool, _ = parse_term(f[2].split(" "))
        toks = f[3].split(" ")
        log = []
        v, _, err = ref_eval(toks, 0, log)
        if err:
            return "err"
        idx = "n"
        for i, p in enumerate(pool[3]):
            if sass_eq(p, v):
                idx = str(i + 1)
                break
        return f"{idx}:{TYPE[v[0]]}|{','.join(log)}"
    except (ValueError, IndexError, KeyError):
        return None


def canon_css(css):
    r = re.search(r'^\s*r: "?(.*?)"?;$', css, re.M)
    l = re.search(r'^\s*l: "?L(.*?)"?;$', css, re.M)
    if not r or not l:
        return "unparsed:" + css[:80]
    log = l.group(1).strip()
    if log == "()":
        log = ""
    log = log.strip("()").replace(" ", ",").replace(",,", ",")
    return f"{r.group(1)}|{log}"


def judge(case, impl, asis, spec):
    f = case.lines[0].split("\t")
    if impl.startswith("ok:"):
        got = canon_css(unhx(impl[3:]))
    elif impl.startswith("err:"):
        got = "err"
    else:
        got = impl
    exp = reference_from_line(f)
    why = None
    if exp is not None and got != exp:
        why = f"expected {exp} (value index:type|operands evaluated), got {got}"
    return Verdict(asis is None or got == asis, why)


def nontrivial(case, impl, spec):
    f = case.lines[0].split("\t")
    return impl.startswith("ok:") and (" T " in " " + f[3] or " X " in " " + f[3] or "L n " in f[3] or "L s " in f[3] or "L l " in f[3])


LEVEL_TEXT = ("Proof (Lean 4): `not x` is a boolean, true exactly for false/null; value of `and`/`or`; laziness stated on an "
              "evaluation log (a falsey/truthy left operand leaves result and log those of the left operand; forced thunks are a "
              "subset of the expression's thunks, appended in order); refutations for the UnaryOp fall-through (old code) and "
              "for the map residue (code today). Tied to the code by compiled programs with logging / failing operands.")
LEVEL_NOTE = ("Trusted: Lean kernel; Python reference evaluator; observation of side effects through a global list and @error; "
              "result identification via list.index and meta.type-of.")
TECHNIQUE = "Lean 4 theorems over an evaluator with an evaluation log + differential correspondence on generated expression trees"
