"""Shared helpers of the colour family (C31, C32, C33): T1 extraction of the colour-name table,
protocol encoding of colour expressions, an independent exact CSS colour calculator (Fractions)
and an independent CSS colour-token parser.  Nothing here imports or mirrors rsass code."""
import os
import re
import struct
from fractions import Fraction as F
from tools import vlib

GEN = os.path.join(vlib.LEAN, "RsassModel", "Generated", "ColorNames.lean")
CSSREF = os.path.join(vlib.LEAN, "RsassModel", "Color", "CssNames.lean")


def css_names():
    """the committed CSS reference list (Lean data file), name -> 0xRRGGBB"""
    src = open(CSSREF).read()
    out = {}
    for m in re.finditer(r"\(\[((?:'[a-z]',?)+)\], 0x([0-9a-f]{6})\)", src):
        out[m.group(1).replace("'", "").replace(",", "")] = int(m.group(2), 16)
    return out


# names probed in the running code beyond the CSS list (near misses / other colour vocabularies)
EXTRA_PROBES = ["transparent", "currentcolor", "none", "grey0", "gray0", "lightgoldenrod", "navyblue",
                "violetred", "lightslateblue", "darkgray1", "rebeccapurple", "webgray", "x11gray",
                "activeborder", "buttonface", "canvas", "highlight", "windowtext", "foo", "re", "redd"]


def _chars(s):
    return "[" + ",".join("'%s'" % c for c in s) + "]"


def extract_names(ctx):
    """T1: dump the colour-name table from the running code and (re)write Generated/ColorNames.lean"""
    probes = sorted(set(css_names()) | set(EXTRA_PROBES))
    out = ctx.impl(["colornames\t" + ",".join(probes)], timeout=300)[0]
    m = re.fullmatch(r"n2v=(.*);v2n=(.*)", out)
    if not m:
        raise vlib.InfraError("colornames op failed: " + out[:200])
    n2v, special = [], []
    for part in filter(None, m.group(1).split(",")):
        n, v = part.split(":")
        if re.fullmatch(r"[0-9a-f]{6}", v) and re.fullmatch(r"[a-z0-9]+", n):
            n2v.append((n, int(v, 16)))
        else:
            special.append(n)
    v2n = []
    for part in filter(None, m.group(2).split(",")):
        v, n = part.split(":")
        if not re.fullmatch(r"[a-z0-9]+", n):
            raise vlib.InfraError("unexpected colour name in table dump: " + n)
        v2n.append((int(v, 16), n))
    body = ("/-\nGENERATED on every run of ./check C31|C32|C33 by props/_color.py `extract_names` from the RUNNING rsass code\n"
            "(harness op `colornames`): do not edit.\n"
            "  n2v: the answer of `Rgba::from_name` for every probed name that is an opaque byte colour\n"
            "       (probes: the CSS reference list plus near-miss names)\n"
            "  v2n: EVERY 24-bit rgb value for which `Rgba::from_rgb(r,g,b).name()` is `Some(name)`\n"
            "  special: probed names that `from_name` accepts but that are not opaque byte colours\n-/\n"
            "namespace Color.Generated\n\n"
            "def n2v : List (List Char × Nat) := [\n  "
            + ",\n  ".join("(%s, 0x%06x)" % (_chars(n), v) for n, v in n2v) + "]\n\n"
            "def v2n : List (Nat × List Char) := [\n  "
            + ",\n  ".join("(0x%06x, %s)" % (v, _chars(n)) for v, n in v2n) + "]\n\n"
            "def special : List (List Char) := [" + ", ".join(_chars(n) for n in special) + "]\n\n"
            "end Color.Generated\n")
    if not os.path.exists(GEN) or open(GEN).read() != body:
        tmp = GEN + ".tmp%d" % os.getpid()
        open(tmp, "w").write(body)
        os.replace(tmp, GEN)
    ctx.log["colornames"] = {"n2v": len(n2v), "v2n": len(v2n), "special": special}
    return dict(n2v), dict(v2n), special


# ---------------------------------------------------------------------------------------------
# protocol terms.  A term is a tuple:
#   ("hex", "aabbcc") | ("name", "Red") | (head, (x,u), (x,u), (x,u), alpha|None) with head in
#   rgb rgba rgbs rgbas hsl hsla hsls hslas hwb hwbc | ("rgba2", term, (x,u))
#   | ("call", fname, term, [(key, (x,u)), ...]) | ("mix", term, term, (x,u)|None)
# numbers are python floats, units "n" (none), "p" (%), "d" (deg)

def bits(x):
    return struct.unpack("<Q", struct.pack("<d", float(x)))[0]


def enc_num(a):
    return "%d%s" % (bits(a[0]), a[1])


def enc(t):
    h = t[0]
    if h in ("hex", "name"):
        return h + " " + t[1]
    if h == "rgba2":
        return "rgba2 " + enc(t[1]) + " " + enc_num(t[2])
    if h == "call":
        return "call %s %d %s" % (t[1], len(t[3]), enc(t[2])) + "".join(" %s %s" % (k or "_", enc_num(v)) for k, v in t[3])
    if h == "mix":
        return "mix " + enc(t[1]) + " " + enc(t[2]) + " " + ("-" if t[3] is None else enc_num(t[3]))
    return h + " " + " ".join(enc_num(a) for a in t[1:4]) + " " + ("-" if t[4] is None else enc_num(t[4]))


def show_num(a):
    x = float(a[0])
    return "%d" % x if x == int(x) and abs(x) < 1e15 else repr(x)


def show(t):
    """readable SCSS-like text of a term (for notes/replays only)"""
    u = {"n": "", "p": "%", "d": "deg"}
    sn = lambda a: show_num(a) + u[a[1]]
    h = t[0]
    if h == "hex":
        return "#" + t[1]
    if h == "name":
        return t[1]
    if h == "rgba2":
        return "rgba(%s, %s)" % (show(t[1]), sn(t[2]))
    if h == "call":
        return "%s(%s)" % (t[1], ", ".join([show(t[2])] + [("$%s: " % k if k else "") + sn(v) for k, v in t[3]]))
    if h == "mix":
        return "mix(%s)" % ", ".join([show(t[1]), show(t[2])] + ([] if t[3] is None else [sn(t[3])]))
    return "%s(%s%s)" % (h, ", ".join(sn(a) for a in t[1:4]), "" if t[4] is None else " / " + sn(t[4]))


# ---------------------------------------------------------------------------------------------
# independent exact colour calculator (CSS Color 3/4 definitions, Fractions; every channel
# clamped to its range as the property demands).  Returns (r, g, b, a) with r,g,b in 0..255.

def _clamp(x, lo, hi):
    return lo if x < lo else hi if x > hi else x


def _alpha(a):
    if a is None:
        return F(1)
    v = F(a[0])
    return _clamp(v / 100 if a[1] == "p" else v, F(0), F(1))


def hsl_to_rgb(h, s, l):
    """CSS Color 3 §4.2.4 algorithm, h in degrees (any), s,l in 0..1 -> r,g,b in 0..1"""
    h = (h % 360) / 360
    m2 = l * (s + 1) if l <= F(1, 2) else l + s - l * s
    m1 = l * 2 - m2

    def hue(hh):
        hh = hh % 1
        if hh * 6 < 1:
            return m1 + (m2 - m1) * hh * 6
        if hh * 2 < 1:
            return m2
        if hh * 3 < 2:
            return m1 + (m2 - m1) * (F(2, 3) - hh) * 6
        return m1
    return hue(h + F(1, 3)), hue(h), hue(h - F(1, 3))


def hwb_to_rgb(h, w, b):
    """CSS Color 4 §8.2: normalise w+b > 1, then mix the pure hue"""
    if w + b >= 1:
        g = w / (w + b)
        return g, g, g
    r, g, bl = hsl_to_rgb(h, F(1), F(1, 2))
    k = 1 - w - b
    return r * k + w, g * k + w, bl * k + w


def exact_rgba(t, names=None):
    """exact rgba of a constructor term (None for terms this calculator does not cover)"""
    h = t[0]
    if h == "hex":
        d = [int(c, 16) for c in t[1]]
        if len(d) in (3, 4):
            d = [x for c in d for x in (c, c)]
        v = [F(d[i] * 16 + d[i + 1]) for i in range(0, len(d), 2)]
        return v[0], v[1], v[2], (v[3] / 255 if len(v) == 4 else F(1))
    if h == "name":
        n = t[1].lower()
        if n == "transparent":
            return F(0), F(0), F(0), F(0)
        names = names or css_names()
        if n not in names:
            return None
        v = names[n]
        return F(v >> 16), F((v >> 8) & 255), F(v & 255), F(1)
    if h in ("rgb", "rgba", "rgbs", "rgbas"):
        ch = [_clamp(F(a[0]) * 255 / 100 if a[1] == "p" else F(a[0]), F(0), F(255)) for a in t[1:4]]
        return ch[0], ch[1], ch[2], _alpha(t[4])
    if h in ("hsl", "hsla", "hsls", "hslas"):
        r, g, b = hsl_to_rgb(F(t[1][0]), _clamp(F(t[2][0]) / 100, F(0), F(1)), _clamp(F(t[3][0]) / 100, F(0), F(1)))
        return r * 255, g * 255, b * 255, _alpha(t[4])
    if h in ("hwb", "hwbc"):
        r, g, b = hwb_to_rgb(F(t[1][0]), _clamp(F(t[2][0]) / 100, F(0), F(1)), _clamp(F(t[3][0]) / 100, F(0), F(1)))
        return r * 255, g * 255, b * 255, _alpha(t[4])
    if h == "rgba2":
        c = exact_rgba(t[1], names)
        return None if c is None else (c[0], c[1], c[2], _clamp(F(t[2][0]), F(0), F(1)))
    return None


def dec(text):
    """a printed Sass number (optional unit) as an exact Fraction; None if it is not a plain numeral"""
    m = re.fullmatch(r"(-?)(\d*)(?:\.(\d+))?(deg|%)?", text)
    if not m or (m.group(2) == "" and m.group(3) is None):
        return None
    v = F(int(m.group(2) or "0")) + (F(int(m.group(3)), 10 ** len(m.group(3))) if m.group(3) else 0)
    return -v if m.group(1) else v


# ---------------------------------------------------------------------------------------------
# independent CSS colour-token parser (CSS Color 3 §4.2, plus #rgba/#rrggbbaa and `transparent`)
# returns a list of acceptable exact readings (r, g, b, a), r,g,b in 0..255

_NUM = r"[-+]?(?:\d+\.?\d*|\.\d+)(?:[eE][-+]?\d+)?"


def _dec(s):
    m = re.fullmatch(r"([-+]?)(\d*)\.?(\d*)(?:[eE]([-+]?\d+))?", s)
    v = F(int((m.group(2) or "0") + m.group(3)), 10 ** len(m.group(3)))
    if m.group(4):
        v *= F(10) ** int(m.group(4))
    return -v if m.group(1) == "-" else v


def parse_css_color(text, names=None):
    t = text.strip()
    low = t.lower()
    names = names or css_names()
    if low == "transparent":
        return [(F(0), F(0), F(0), F(0))]
    if low in names:
        v = names[low]
        return [(F(v >> 16), F((v >> 8) & 255), F(v & 255), F(1))]
    m = re.fullmatch(r"#([0-9a-f]+)", low)
    if m and len(m.group(1)) in (3, 4, 6, 8):
        d = [int(c, 16) for c in m.group(1)]
        if len(d) in (3, 4):
            d = [x for c in d for x in (c, c)]
        v = [F(d[i] * 16 + d[i + 1]) for i in range(0, len(d), 2)]
        return [(v[0], v[1], v[2], v[3] / 255 if len(v) == 4 else F(1))]
    m = re.fullmatch(r"(rgba?|hsla?)\(\s*(.*?)\s*\)", low)
    if not m:
        return None
    args = [a.strip() for a in m.group(2).split(",")]
    if len(args) not in (3, 4):
        return None
    alpha = F(1)
    if len(args) == 4:
        am = re.fullmatch("(" + _NUM + ")(%?)", args[3])
        if not am:
            return None
        alpha = _clamp(_dec(am.group(1)) / (100 if am.group(2) else 1), F(0), F(1))
    if m.group(1).startswith("rgb"):
        ch = []
        for a in args[:3]:
            cm = re.fullmatch("(" + _NUM + ")(%?)", a)
            if not cm:
                return None
            v = _dec(cm.group(1))
            ch.append(_clamp(v * 255 / 100 if cm.group(2) else v, F(0), F(255)))
        return [(ch[0], ch[1], ch[2], alpha)]
    hm = re.fullmatch("(" + _NUM + ")(deg)?", args[0])
    sm = re.fullmatch("(" + _NUM + ")%", args[1])
    lm = re.fullmatch("(" + _NUM + ")%", args[2])
    if not (hm and sm and lm):
        return None
    h, s, l = _dec(hm.group(1)), _dec(sm.group(1)) / 100, _dec(lm.group(1)) / 100
    out = []
    # CSS Color 3: saturation and lightness are clipped to 0..100% before the conversion;
    # CSS Color 4: only negative saturation is clamped, the converted rgb is clipped afterwards.
    for ss, ll in ((_clamp(s, F(0), F(1)), _clamp(l, F(0), F(1))), (max(s, F(0)), l)):
        r, g, b = hsl_to_rgb(h, ss, ll)
        out.append(tuple(_clamp(x * 255, F(0), F(255)) for x in (r, g, b)) + (alpha,))
    return out


def rgb_to_hsl(r, g, b):
    """CSS Color 4 §7: r,g,b in 0..1 -> (h deg or None, s, l)"""
    mx, mn = max(r, g, b), min(r, g, b)
    l = (mx + mn) / 2
    d = mx - mn
    if d == 0:
        return None, F(0), l
    s = d / (1 - abs(2 * l - 1)) if l not in (0, 1) else F(0)
    if mx == r:
        h = (g - b) / d + (6 if g < b else 0)
    elif mx == g:
        h = (b - r) / d + 2
    else:
        h = (r - g) / d + 4
    return h * 60, s, l


def live_color_flags(ctx, pids):
    """deviation flags of the colour model that are live in the running code: the witnesses of the
    open known findings of the given colour properties are replayed on the implementation"""
    import importlib
    flags, live = set(), []
    for pid in pids:
        fs = [f for f in vlib.load_findings(pid) if f.get("status") == "open"]
        if not fs:
            continue
        mod = importlib.import_module("props." + pid)
        outs = ctx.impl([f["witness"] for f in fs])
        for f, o in zip(fs, outs):
            v = mod.judge(vlib.Case(f["witness"], "witness"), o, None, None)
            if v.fails is not None:
                flags |= set(f.get("flags", []))
                live.append(f["id"])
    ctx.log["live_color_findings"] = live
    return sorted(flags)
