"""C39 — Loader failures are reported, never absorbed."""
import itertools
from tools import vlib
from tools.vlib import Case, Verdict
from props import _load as L
from props import C02 as G

ID = "C39"
DRIVER = "drv_C39"
THEOREM_MODS = ["RsassModel.Theorems.C39"]
LEVEL = "proof"
ALWAYS_QUIRKS = L.FamilyFlags(ID)
EXHAUSTIVE = {"quick": True, "thorough": True}
CASE_TIMEOUT = 60

RULE = ("file graphs of up to 4 files (all 2-file graphs with at most 2 edges over the 4 load kinds; sampled 3- and 4-file "
        "graphs; layouts with a subdirectory importer and two load paths; plain-CSS import fallbacks). For each graph the "
        "fault-free compilation is run first to learn the number of loader calls n; then one case per call index i<n and per "
        "fault kind (lookup error / read error) — exhaustive over the call indices — plus random multi-fault sequences and "
        "faults beyond the last call. Each faulty case also compiles fault-free before and after in the same process. "
        "non-trivial = a fault actually fired")
TRUSTED = ["harness/src/ops/c02.rs: fault-injecting virtual loader (counts the faults that fired independently of rsass)"]
ASSUMPTIONS = ["a read fault scheduled at a call that finds no file is not a failure (nothing is read)",
               "`normal output` of the later compilation = byte-identical to a fault-free compilation of the same input "
               "made earlier in the same process"]


def base_graphs(tier, rng, boost):
    quick = tier == "quick"
    out = []
    for edges in G.all_graphs(2, 2):
        if all(s == 0 for _, _, _, s in edges):
            out.append(G.graph_case(2, edges, "g2").lines[0])
    for n, cnt in ((3, 120 if quick else 600), (4, 120 if quick else 800)):
        for _ in range(cnt * boost):
            edges, seen = [], set()
            for _ in range(rng.randint(2, 5)):
                i, j = rng.randrange(n), rng.randrange(n)
                if rng.random() < 0.8:
                    i, j = min(i, j), max(i, j)
                if i == j or (i, j) in seen:
                    continue
                seen.add((i, j))
                edges.append((i, j, rng.choice("iufl"), rng.choice([0, 0, 0, 1, 2])))
            out.append(G.graph_case(n, edges, "g%d" % n).lines[0])
    lay = [
        ([("in.scss", ["m", "usub/s"]), ("sub/s.scss", ["m", "uq", "ir"]), ("lp1/_q.scss", ["m"]), ("lp2/r.scss", ["m"])], ".,lp1/,lp2/"),
        ([("in.scss", ["m", "iq.css", "ihttp://x/y", "Iurl(z)", "ua"]), ("a.scss", ["m"])], "."),
        ([("in.scss", ["m", "ua", "b1.1", "fb", "la"]), ("a.scss", ["m", "ub", "b1.2"]), ("b.scss", ["m"])], "."),
        ([("in.scss", ["m", "ix"]), ("x/_index.scss", ["m", "uy"]), ("x/y.css", ["m"])], ".,lp1/"),
    ]
    for files, roots in lay:
        out.append(L.line(files, roots=roots))
    return out


def gen(tier, rng, boost=1):
    quick = tier == "quick"
    bases = base_graphs(tier, rng, boost)
    outs = vlib.run_impl(bases, 60)
    for ln, out in zip(bases, outs):
        im = L.Impl(out)
        if im.trace is None or im.cls == "abort":
            continue
        n = len([c for c in im.trace.split(",") if c])
        f = ln.split("\t")
        for i in range(n):
            for kind in "LR":
                g = list(f)
                g[4] = f"{i}{kind}"
                yield Case("\t".join(g), "single-" + kind)
        g = list(f)
        g[4] = f"{n}L,{n + 3}R"
        yield Case("\t".join(g), "beyond")
        for _ in range(2 if quick else 6):
            if n < 2:
                break
            idx = sorted(rng.sample(range(n + 1), rng.randint(2, min(4, n + 1))))
            g = list(f)
            g[4] = ",".join(f"{i}{rng.choice('LR')}" for i in idx)
            yield Case("\t".join(g), "multi")


def statement(pc, im):
    if im.cls in ("abort", "panic", "bad"):
        return "compilation crashed instead of returning an error: " + im.raw[:40]
    if im.fired >= 1 and im.cls not in ("err", "loop"):
        return f"the loader failed ({im.fired} injected fault(s) fired) but the compilation returned {im.cls}" + \
            (" with CSS" if im.markers else "")
    if im.same is not None and im.same != "same":
        return "a later compilation with a working loader differs from the normal output"
    return None


def judge(case, impl, asis, spec):
    pc = L.Parsed(case.lines[0])
    im = L.Impl(impl)
    return Verdict(L.corresponds(im, asis), statement(pc, im))


def nontrivial(case, impl, spec):
    return L.Impl(impl).fired >= 1


LEVEL_TEXT = ("Proof (Lean 4) over the model of Context::find_file/do_find_file, SourceFile::read and the four load sites: a "
              "successful compilation made no loader call at which a fault fired (so any fired fault gives an error), an error "
              "result carries no CSS, and a compilation is a function of its input and loader only (no state survives). Tied "
              "to the code by a fault at every loader-call index of small file graphs, lookup and read faults, plus "
              "multi-fault sequences, each followed by a fault-free compilation in the same process.")
LEVEL_NOTE = ("Trusted: Lean kernel; the fault-injecting loader of the harness; process-wide state of rsass is observed only "
              "through the later compilation's bytes.")
TECHNIQUE = "Lean 4 theorems over a model of lookup/read error propagation + exhaustive single-fault injection at every loader call"
