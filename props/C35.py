"""C35 — Meaning-preserving source rewrites do not change the output (partial)."""
import copy
import glob
import os
import re
from tools import vlib
from tools.vlib import Case, Verdict, hx, unhx
from props import scssgen as G

ID = "C35"
DRIVER = "drv_C35"
THEOREM_MODS = ["RsassModel.Theorems.C35"]
LEVEL = "proof"
RULE = ("pair cases = (original, rewritten) compiled by the same code: generated programs (AST from props/scssgen.py) under a "
        "random sequence of 1..4 rewrites — extra whitespace / silent comments at the token gaps the printer marks safe; "
        "consistent renaming of variables, functions, mixins and per-occurrence swapping of - and _; hoisting a slash-free, "
        "eagerly evaluated sub-expression into a fresh variable declared immediately before the statement; inserting "
        "@debug/@warn with literal arguments at statement boundaries; moving a run of top-level statements into a partial "
        "loaded with @import — plus a sample of spec inputs (string literals of /repo/rsass/tests/spec/**/*.rs) under "
        "whole-file rewrites (leading/trailing blank lines and silent comments, trailing @debug, whole file into a partial); "
        "name cases = Name::from on spellings with -/_; non-trivial = the original compiles to non-empty CSS")
TRUSTED = ["the rewriter operates on the generator's AST (meaning-preserving by construction); its separator fillers are "
           "checked against the Lean `Sep` grammar by the generator's own assertion",
           "the statement over whole programs is decided impl-vs-impl; the Lean theorems cover the modelled pieces only"]
ASSUMPTIONS = ["hoisted expressions contain no `/`, no user-function call, no operand of and/or/if() (lazy), and are not "
               "taken from @else-if conditions, parameter defaults or @while conditions",
               "statement-boundary fillers always end in a newline so that the source column of loud comments is unchanged",
               "error texts are not compared (positions move); only ok/err class and the CSS bytes"]
CASE_TIMEOUT = 60

# ---------------------------------------------------------------------------- rewrites on the AST
WS_SP = [" ", "  ", "\n", "\t", " \n ", " // c35\n", "\n// note: x\n  ", "   "]
WS_SPW = [" ", "  ", "\n", "\t", " \n "]
WS_OPT = ["", "", " ", "\n", "  ", " // c\n", "\n//\n", "\n  "]
WS_OPTW = ["", "", " ", "  "]
WS_NL = ["\n", "\n\n", " \n", "\t\n", "\n// silent\n", " // trailing\n", "\n\n// a\n// b\n", "\n    \n"]
SEP_RE = re.compile(r"(?:[ \t\n\r]|//[^\n]*\n|/\*[^*]*\*/)*\Z")


FILLERS = {"sp": WS_SP, "spw": WS_SPW, "opt": WS_OPT, "optw": WS_OPTW, "nl": WS_NL,
           "optwl": WS_OPTW, "optb": WS_OPT, "spl": WS_SP}
# separator kinds that trigger a known finding (flag -> (kind, predicate on the filler text))
TRIGGERS = {"interpLeadingWs": ("optwl", lambda t: t != ""),
            "bracketLeadingWs": ("optb", lambda t: t != ""),
            "commentAtLogicOp": ("spl", lambda t: "//" in t or "/*" in t)}
IMPORT_FLAG = "importGlobalShadow"   # a partial that assigns with !global (see notes/C35.md)


def make_filler(rng, rate):
    def filler(sep):
        kind = sep[1]
        if rng.random() > rate:
            return G.DEFAULT[sep]
        s = rng.choice(FILLERS[kind])
        assert SEP_RE.match(s) and (G.DEFAULT[sep] == "" or s != ""), repr(s)
        if kind in ("spw", "optw", "optwl"):
            assert "//" not in s
        return s
    return filler


def spelled(prog, header, names):
    toks = G.prog_tokens(prog, header)
    return [G.spell(t, names) if isinstance(t, tuple) and t[0] != "sep" else t for t in toks]


def choose(toks, filler):
    """the filler text of every separator of a token stream, in order"""
    return [(filler(t) if filler else G.DEFAULT[t]) for t in toks if isinstance(t, tuple)]


def render_with(toks, choices, off=()):
    """render; separators whose kind is in `off` fall back to their default when they would trigger a finding"""
    out, i = [], 0
    for t in toks:
        if isinstance(t, tuple):
            c = choices[i]
            i += 1
            for flag in off:
                if flag not in TRIGGERS:
                    continue
                kind, pred = TRIGGERS[flag]
                if t[1] == kind and pred(c):
                    c = G.DEFAULT[t]
            out.append(c)
        else:
            out.append(t)
    return "".join(out)


def triggers_in(toks, choices):
    found, i = set(), 0
    for t in toks:
        if isinstance(t, tuple):
            for flag, (kind, pred) in TRIGGERS.items():
                if t[1] == kind and pred(choices[i]):
                    found.add(flag)
            i += 1
    return found


def make_names(rng, rename_rate, swap_rate):
    table = {}
    counter = [0]

    def names(kind, n):
        key = (kind, n.replace("-", "_"))
        if key not in table:
            if rng.random() < rename_rate:
                counter[0] += 1
                table[key] = f"c35r{rng.choice(['-', '_', ''])}{counter[0]}{rng.choice(['', '-x', '_y'])}"
            else:
                table[key] = n
        out = table[key]
        if swap_rate and rng.random() < swap_rate:
            out = out.replace("-", "\0").replace("_", "-").replace("\0", "_")
        return out
    return names


def all_blocks(prog):
    """every statement list of the program (the top level first)"""
    out = [prog]
    i = 0
    while i < len(out):
        for s in out[i]:
            for b in s.blocks():
                out.append(b)
        i += 1
    return out


def has_slash(e):
    if isinstance(e, G.Bin) and e.op == "/":
        return True
    if isinstance(e, G.Lit) and "/" in e.text and not e.text.startswith(('"', "'")):
        return True
    return any(has_slash(k) for k in e.kids())


def has_user_call(e):
    if isinstance(e, G.Call) and e.kind == "user":
        return True
    return any(has_user_call(k) for k in e.kids())


def hoistable(e):
    return not isinstance(e, G.Var) and not has_slash(e) and not has_user_call(e) and not isinstance(e, G.Map)


def expr_slots(e, setter, out):
    """(expr, setter) for e and every eagerly evaluated sub-expression"""
    if hoistable(e):
        out.append((e, setter))
    if e.lazy_ctx or (isinstance(e, G.Bin) and e.op == "/"):
        return
    for i, k in enumerate(e.kids()):
        expr_slots(k, (lambda v, e=e, i=i: e.set_kid(i, v)), out)


def stmt_slots(s):
    out = []
    if isinstance(s, (G.VarDecl, G.Return, G.Diag, G.Each)):
        expr_slots(s.e, lambda v: setattr(s, "e", v), out)
    elif isinstance(s, G.Decl):
        expr_slots(s.e, lambda v: setattr(s, "e", v), out)
        if s.pi is not None:
            expr_slots(s.pi.e, lambda v: setattr(s.pi, "e", v), out)
    elif isinstance(s, G.Include):
        for i, a in enumerate(s.args):
            expr_slots(a, (lambda v, i=i: s.args.__setitem__(i, v)), out)
    elif isinstance(s, G.If):
        c0, b0 = s.branches[0]
        expr_slots(c0, lambda v: s.branches.__setitem__(0, (v, s.branches[0][1])), out)
    elif isinstance(s, G.For):
        expr_slots(s.a, lambda v: setattr(s, "a", v), out)
        expr_slots(s.b, lambda v: setattr(s, "b", v), out)
    return out


def rw_hoist(prog, rng, state):
    cands = []
    for b in all_blocks(prog):
        for i, s in enumerate(b):
            for e, setter in stmt_slots(s):
                cands.append((b, s, e, setter))
    if not cands:
        return False
    b, s, e, setter = rng.choice(cands)
    state["n"] += 1
    name = f"c35h{rng.choice(['-', '_'])}{state['n']}"
    setter(G.Var(name))
    b.insert(b.index(s), G.VarDecl(name, e))
    return True


def rw_diag(prog, rng, state):
    blocks = all_blocks(prog)
    b = rng.choice(blocks)
    e = rng.choice([G.Lit('"c35"', "str"), G.Lit("42", "num"), G.Bin("+", G.Lit("1", "num"), G.Lit("2", "num"), "num"),
                    G.Lit("note", "str"), G.SList([G.Lit("a", "str"), G.Lit("1px", "num")])])
    b.insert(rng.randint(0, len(b)), G.Diag(rng.choice(["debug", "warn"]), e))
    return True


def rw_partial(prog, rng, state):
    if not prog:
        return False
    i = rng.randrange(len(prog))
    j = rng.randint(i + 1, min(len(prog), i + 4))
    frag = prog[i:j]
    state["p"] += 1
    name = f"c35p{state['p']}"
    state["partials"].append((name, frag))
    prog[i:j] = [G.ImportPartial(name, frag)]
    return True


REWRITES = {"hoist": rw_hoist, "diag": rw_diag, "partial": rw_partial}


def rewritten(rng, prog, uses_math):
    """apply a random sequence of rewrites to a deep copy; returns (build, triggers, rewrite names) where
    build(off) renders (main source, files) with the separators that trigger the findings in `off` reset"""
    prog = copy.deepcopy(prog)
    state = {"n": 0, "p": 0, "partials": []}
    applied = []
    for _ in range(rng.randint(1, 4)):
        k = rng.choice(["ws", "names", "hoist", "hoist", "diag", "partial"])
        if k in REWRITES:
            if REWRITES[k](prog, rng, state):
                applied.append(k)
        else:
            applied.append(k)
    filler = make_filler(rng, rng.choice([0.15, 0.5, 1.0])) if "ws" in applied else None
    names = make_names(rng, rng.choice([0.0, 0.5, 1.0]), rng.choice([0.0, 0.3])) if "names" in applied else None
    streams = []     # (file name or None for the main file, tokens, choices)
    for name, frag in state["partials"]:
        toks = spelled(frag, [], names)
        if any(isinstance(t, str) and "math." in t for t in toks):
            toks = ['@use "sass:math";', G.NL] + toks
        streams.append((rng.choice(["_", ""]) + name + ".scss", toks, None))
    header = ['@use "sass:math";'] if uses_math else []
    streams.append((None, spelled(prog, header, names), None))
    streams = [(n, t, choose(t, filler)) for n, t, _ in streams]
    # the same program with every partial printed in place again (the move undone)
    G.INLINE_IMPORTS[0] = True
    try:
        inl = spelled(prog, header, names)
    finally:
        G.INLINE_IMPORTS[0] = False
    inl_choices = choose(inl, filler)

    def build(off=()):
        if IMPORT_FLAG in off:
            return render_with(inl, inl_choices, off), {}
        files, main = {}, None
        for n, t, c in streams:
            text = render_with(t, c, off)
            if n is None:
                main = text
            else:
                files[n] = text
        return main, files

    trig = set()
    for n, t, c in streams:
        trig |= triggers_in(t, c)
        if n is not None and any(isinstance(x, str) and "!global" in x for x in t):
            trig.add(IMPORT_FLAG)
    if IMPORT_FLAG in trig:
        trig |= triggers_in(inl, inl_choices)
    return build, sorted(trig), applied


def pair_line(style, prec, src0, src1, files=None):
    line = f"c35pair\t{style}\t{prec}\t{hx(src0)}\t{hx(src1)}"
    if files:
        line += "\t" + ",".join(f"{n}:{hx(d)}" for n, d in sorted(files.items()))
    return line


# ---------------------------------------------------------------------------- spec inputs
_spec_cache = []


def spec_inputs():
    """SCSS inputs of the spec suite: the string literal of every `runner().ok("…")` in tests/spec/**/*.rs"""
    if _spec_cache:
        return _spec_cache
    root = os.path.join(vlib.REPO, "rsass", "tests", "spec")
    for path in sorted(glob.glob(os.path.join(root, "**", "*.rs"), recursive=True)):
        try:
            text = open(path, encoding="utf-8").read()
        except OSError:
            continue
        for m in re.finditer(r"\.ok\(\s*\"", text):
            i = m.end()
            out = []
            ok = True
            while i < len(text):
                c = text[i]
                if c == '"':
                    break
                if c == "\\":
                    d = text[i + 1]
                    if d == "\n":
                        i += 2
                        while i < len(text) and text[i] in " \t\n\r":
                            i += 1
                        continue
                    if d == "u":
                        mm = re.match(r"\{([0-9a-fA-F]+)\}", text[i + 2:])
                        if not mm:
                            ok = False
                            break
                        out.append(chr(int(mm.group(1), 16)))
                        i += 2 + mm.end()
                        continue
                    if d == "x":
                        out.append(chr(int(text[i + 2:i + 4], 16)))
                        i += 4
                        continue
                    esc = {"n": "\n", "t": "\t", "r": "\r", "0": "\0", "\\": "\\", '"': '"', "'": "'"}.get(d)
                    if esc is None:
                        ok = False
                        break
                    out.append(esc)
                    i += 2
                    continue
                out.append(c)
                i += 1
            if ok:
                _spec_cache.append("".join(out))
    return _spec_cache


def whole_file_rewrite(rng, src):
    """rewrites that are safe without knowing the structure of the file; returns (src, files, name) or None"""
    k = rng.choice(["trail-ws", "trail-comment", "lead", "debug-end", "partial"])
    body = src.rstrip()
    if k == "trail-ws":
        return src + rng.choice(["\n", "\n\n", " \n", "\t\n  \n"]), {}, k
    if k == "trail-comment":
        return src + "\n// c35 trailing\n", {}, k
    if k == "lead":
        if src.startswith(("﻿", "@charset")):
            return None
        return rng.choice(["\n", "// c35 leading\n", "\n\n", "  \n"]) + src, {}, k
    if k == "debug-end":
        if not body.endswith(("}", ";")):
            return None
        return src + "\n" + rng.choice(["@debug 1;", "@warn \"c35\";", "@debug a b;"]) + "\n", {}, k
    if re.search(r"@use|@forward|@import|load-css|@charset|﻿", src):
        return None
    return '@import "c35whole";\n', {"_c35whole.scss": src}, k


def gen(tier, rng, boost=1):
    n = (260 if tier == "quick" else 2500) * boost
    for _ in range(n):
        g, prog = G.program(rng)
        src0 = G.source(prog, g.uses_math)
        build, trig, applied = rewritten(rng, prog, g.uses_math)
        st, prec = rng.choice("ec"), rng.choice([10, 10, 5, 3])
        src1, files = build()
        note = {"rewrites": applied, "triggers": trig, "variants": {}}
        # for every subset of the known-finding triggers present: the same rewrite without them
        for mask in range(1, 1 << len(trig)):
            sub = [f for k, f in enumerate(trig) if mask >> k & 1]
            v1, vf = build(sub)
            note["variants"][",".join(sub)] = pair_line(st, prec, src0, v1, vf)
        yield Case(pair_line(st, prec, src0, src1, files), "gen:" + "+".join(sorted(set(applied))), note)
    specs = spec_inputs()
    m = (160 if tier == "quick" else 2000) * boost
    for _ in range(min(m, len(specs) * 3)):
        src = rng.choice(specs)
        r = whole_file_rewrite(rng, src)
        if r is None:
            continue
        src1, files, k = r
        st = rng.choice("ec")
        note = {"rewrites": [k]}
        if k == "partial" and "!global" in src:
            note.update(triggers=[IMPORT_FLAG], variants={IMPORT_FLAG: pair_line(st, 10, src, src)})
        yield Case(pair_line(st, 10, src, src1, files), "spec:" + k, note)
    for a, b in [("foo-bar", "foo_bar"), ("a-b_c", "a_b-c"), ("x", "x"), ("x-y", "x-z"), ("-a", "_a"), ("a--b", "a__b"),
                 ("a-b", "ab"), ("A-b", "a-b"), ("", ""), ("é-x", "é_x")]:
        yield Case(f"c35name\t{hx(a)}\t{hx(b)}", "name")
    for _ in range(40 * boost):
        a = "".join(rng.choice("ab-_c1") for _ in range(rng.randint(1, 8)))
        b = "".join((rng.choice("-_") if c in "-_" else c) for c in a) if rng.random() < 0.7 else \
            "".join(rng.choice("ab-_c1") for _ in range(len(a)))
        yield Case(f"c35name\t{hx(a)}\t{hx(b)}", "name")


# ---------------------------------------------------------------------------- oracle
_variant_results = {}     # variant line -> harness result (filled in one batch)
_variant_pending = set()


def klass(r):
    if r.startswith("ok:"):
        return r
    return r.split(":", 1)[0]


def judge(case, impl, asis, spec):
    if case.lines[0].startswith("c35name"):
        # the model is the oracle (Name normalisation is the statement itself)
        return Verdict(impl == asis, None if impl == spec else "Name normalisation of - and _ differs from the specification")
    parts = impl.split("\t")
    if len(parts) != 2:
        return Verdict(True, None)      # the whole op crashed: C01's business
    a, b = klass(parts[0]), klass(parts[1])
    if a in ("panic", "abort") and b in ("panic", "abort"):
        return Verdict(True, None)
    if a == b:
        return Verdict(True, None)
    what = "+".join(case.note.get("rewrites", []))
    for v in case.note.get("variants", {}).values():
        if v not in _variant_results:
            _variant_pending.add(v)      # compiled in one batch when `explained` is first asked
    if a.startswith("ok:") and b.startswith("ok:"):
        return Verdict(True, f"output changes under a meaning-preserving rewrite ({what})")
    return Verdict(True, f"compilation result class changes under a meaning-preserving rewrite ({what}): {a[:5]} vs {b[:5]}")


def explained(case, r, live):
    """a failing pair is explained by known findings iff it stops failing once exactly the separators that
    trigger the *live* findings are reset (everything else of the rewrite stays)"""
    if case.note.get("finding") in {f["id"] for f in live}:
        return True     # the witness of a live finding itself
    flags = {fl for f in live for fl in f.get("flags", [])}
    sub = [t for t in case.note.get("triggers", []) if t in flags]
    if not sub:
        return False
    line = case.note.get("variants", {}).get(",".join(sub))
    if line is None:
        return False
    if line not in _variant_results:
        todo = sorted(_variant_pending | {line})
        for l, r_ in zip(todo, vlib.run_impl(todo, CASE_TIMEOUT)):
            _variant_results[l] = r_
        _variant_pending.clear()
    return judge(Case(line), _variant_results[line], None, None).fails is None


def nontrivial(case, impl, spec):
    if case.lines[0].startswith("c35name"):
        return True
    return impl.startswith("ok:") and not impl.startswith("ok:\t")


def shrink(case, still_fails):
    return None


LEVEL_TEXT = ("Proof (Lean 4), partial: name_norm_dash_underscore / name_norm_any_mix (Name::from identifies exactly - and _), "
              "ws_comment_insensitive (opt_spacelike skips every blank/silent-comment separator), value_to_variable "
              "(substitution lemma on a small evaluator, any context), debug_warn_noop (state and output unchanged). The "
              "statement over whole programs is decided impl-vs-impl: original vs rewritten source under random sequences "
              "of the listed rewrites on generated programs and whole-file rewrites on spec inputs.")
LEVEL_NOTE = ("Partial: renaming (alpha-invariance) and import inlining are not proved, only explored; the evaluator of the "
              "substitution lemma is a small fragment. Rewrites are applied on the generator's AST, never on raw text.")
TECHNIQUE = "Lean 4 theorems on the modelled lexer/name/evaluator pieces + impl-vs-impl differential run under AST-level rewrites"
