"""C05 — Compilation is deterministic and isolated (partial)."""
import glob
import os
import re
from tools import vlib
from tools.vlib import Case, Verdict, hx, unhx

ID = "C05"
DRIVER = "drv_C05"
THEOREM_MODS = ["RsassModel.Theorems.C05"]
LEVEL = "proof"
CASE_TIMEOUT = 600
RULE = ("histories of 1..50 compilations inside one harness process (sequential, and the same on 16 threads where every "
        "thread compiles all sources in a rotated order), sources drawn (with repetition) from a pool of: hand-written "
        "attacks on process-wide state (math.$pi: .., @use \"sass:math\" with, @forward with, load-css with, @use as *, "
        "user functions named like built-ins, !global, module-functions/-variables order, deprecated constructs), "
        "modelled statement programs rendered from a small op grammar, and inputs sampled from rsass/tests/spec that "
        "do not call random/unique-id; every result compared byte-for-byte with the same source compiled ALONE in a "
        "FRESH process (one process spawn per pool entry); non-trivial = at least one source compiled successfully")
TRUSTED = ["harness op history (ops/c05.rs); fresh results come from separate OS processes started by vlib.run_impl",
           "regular-expression extraction of the spec inputs and of the statics inventory",
           "OS scheduler for the sampled interleavings (16 threads x rotated order + yield_now, no hooks in /repo)"]
ASSUMPTIONS = ["the theorems cover the logical process-wide state only; data races, allocator and scheduler behaviour are "
               "runtime matters — the property is claimed partial",
               "statement-level interleaving in the concurrency model (each Mutex-protected map operation is atomic)"]
EXTRA_OBLIGATIONS = ["statics_accounted (T3 inventory of every static / interior-mutable item in rsass/src)"]

USES = "".join(f'@use "sass:{m}";' for m in ("math", "meta", "list", "map", "string", "color"))

ATTACKS = [
    '@use "sass:math"; math.$pi: 3; a{b: math.$pi}',
    '@use "sass:math"; a{b: math.$pi; c: math.$e}',
    '@use "sass:math" with ($pi: 3); a{b: math.$pi}',
    '@use "sass:math" as m with ($e: 1); a{b: m.$e}',
    '@forward "sass:math" with ($pi: 3); a{b: c}',
    '@forward "sass:math"; a{b: c}',
    '@forward "sass:math" as m-*; a{b: c}',
    '@use "sass:meta"; @include meta.load-css("sass:math", $with: (pi: 3)); a{b: c}',
    '@use "sass:meta"; @include meta.load-css("sass:math"); a{b: c}',
    '@use "sass:math" as *; $pi: 4; a{b: $pi}',
    '@use "sass:math" as *; a{b: $pi; c: percentage(0.5)}',
    '@use "sass:math" as *; $pi: 4 !global; a{b: $pi}',
    '@use "sass:math"; math.$nope: 1; a{b: c}',
    '@use "sass:math"; math.$pi: 3 !default; a{b: math.$pi}',
    '@use "sass:math"; math.$pi: 3 !global; a{b: math.$pi}',
    '@use "sass:list"; list.$x: 1; a{b: c}',
    '@function str-length($s){@return 42} a{b: str-length("abc")}',
    'a{b: str-length("abc")}',
    '@use "sass:string"; @function length($s){@return 42} a{b: string.length("abc"); c: length(1 2 3)}',
    '@use "sass:string"; a{b: string.length("abc"); c: length(1 2 3)}',
    '@function percentage($n){@return $n} a{b: percentage(0.5)}',
    'a{b: percentage(0.5)}',
    '@mixin load-css($u){x: $u} a{@include load-css(1)}',
    '$x: 1 !global; a{b: $x}',
    'a{b: $x}',
    'a{$y: 2 !global} b{c: $y}',
    'b{c: $y}',
    '@use "sass:meta"; a{b: meta.inspect(meta.module-functions("math"))}',
    '@use "sass:meta"; @use "sass:math"; a{b: meta.inspect(meta.module-variables("math"))}',
    '@use "sass:meta"; @use "sass:string"; a{b: meta.inspect(meta.module-functions("string"))}',
    '@use "sass:meta"; @use "sass:color"; a{b: meta.inspect(map-keys(meta.module-functions("color")))}',
    '@use "sass:meta"; a{b: meta.module-functions("nope")}',
    'a{b: call("nth", (x y z), 2)}',
    'a{b: call("nth", (x y z), 2); c: call("str-length", "ab")}',
    '@use "sass:meta"; a{b: meta.call(meta.get-function("nth"), (x y z), 2)}',
    'a{b: red; c: #f00; d: rgb(255, 0, 0); e: rebeccapurple; f: #663399}',
    'a{b: lighten(red, 10%); c: mix(red, blue)}',
    '%p{x: y} a{@extend %p} b{@extend %p}',
    'a{b{c{d: e}}} @media print{a{b: c}}',
    'a{&:hover{b: c} .x &{d: e}}',
    '@debug "dbg"; @warn "wrn"; a{b: c}',
    '@error "stop";',
    'a{b: 1px + 1s}',
    'a{b: nth((), 1)}',
    'a{b: }',
    'a{b: math.div(1, 3)}',
    '@use "sass:math"; a{b: math.div(1, 3); c: math.sqrt(2); d: math.pow(2, 0.5)}',
    '@use "sass:map"; $m: (a: 1, b: 2, c: 3); a{b: map.keys($m); c: meta.inspect(map.merge($m, (d: 4)))}',
    '@use "sass:map"; @use "sass:meta"; $m: (z: 1, a: 2, m: 3); a{b: meta.inspect(map.remove($m, a))}',
    '@use "sass:selector"; a{b: selector.unify(".a.b", ".c"); c: selector.extend(".a .b", ".b", ".c")}',
    '@each $k, $v in (z: 1, a: 2, m: 3) {.#{$k}{v: $v}}',
    '@for $i from 1 through 5 {.i#{$i}{w: $i * 10px}}',
    '@function f($a, $b: 2, $r...){@return $a + $b + length($r)} a{b: f(1); c: f(1, 3, 4, 5); d: f($b: 1, $a: 2)}',
    '@mixin m($a: 1){x: $a; @content} a{@include m{y: z}} b{@include m(2)}',
    '@import "nope"; a{b: c}',
    '@use "nope"; a{b: c}',
    '@use "sass:nope"; a{b: c}',
    '@use "sass:math" as m; @use "sass:math" as n; a{b: m.$pi == n.$pi}',
]

# ---------------------------------------------------------------------------------------------
# modelled programs: (scss, term) from the op grammar of Glue/Globals.lean / Driver/C05.lean


def model_program(r):
    uses, body, term_u, term_b = [], [], [], []
    bound = {}
    need_meta = False
    for _ in range(r.randint(0, 2)):
        url = r.choice(["sass:math", "sass:math", "sass:list", "sass:string", "nope"])
        ns = r.choice(["m", "n", "math", "l"])
        n = r.choice([0, 0, 0, 1])
        kind = r.choice(["U", "U", "U", "F"])
        if kind == "U":
            if ns in bound:
                continue
            uses.append(f'@use "{url}" as {ns}' + (" with ($x: 1)" if n else "") + ";")
            term_u.append(f"U:{url}:{ns}:{n}")
            bound[ns] = url
        else:
            uses.append(f'@forward "{url}"' + (" with ($x: 1)" if n else "") + ";")
            term_u.append(f"F:{url}:{n}")
    for _ in range(r.randint(1, 4)):
        k = r.random()
        ns = r.choice(list(bound) + ["m", "q"]) if r.random() < 0.8 else "_"
        x = r.choice(["pi", "e", "nope", "x", "epsilon"])
        if k < 0.35:
            d = r.choice([0, 0, 1])
            body.append((f"{ns}.${x}: 7" if ns != "_" else f"${x}: 7") + (" !default" if d else "") + ";")
            term_b.append(f"A:{ns}:{x}:{d}")
        elif k < 0.7:
            body.append("a{v: " + (f"{ns}.${x}" if ns != "_" else f"${x}") + "}")
            term_b.append(f"V:{ns}:{x}")
        elif k < 0.8:
            n = r.choice([0, 1])
            url = r.choice(["sass:math", "sass:list", "nope"])
            need_meta = True
            body.append(f'@include meta.load-css("{url}"' + (", $with: (x: 1)" if n else "") + ");")
            term_b.append(f"L:{url}:{n}")
        elif k < 0.9:
            f = r.choice(["nth", "percentage", "zz"])
            body.append(f"@function {f}($a){{@return $a}}")
            term_b.append(f"D:{f}")
        else:
            body.append('a{w: call("nth", (p q), 1)}')
            term_b.append("W:1")
    pre = '@use "sass:meta";' if need_meta else ""
    return pre + "".join(uses) + "".join(body), ",".join(term_u + term_b)


# ---------------------------------------------------------------------------------------------
# spec inputs

_RUST_STR = re.compile(r'runner\(\)\s*\.(?:ok|err)\(\s*"((?:[^"\\]|\\.)*)"', re.S)


def rust_unescape(s):
    s = re.sub(r"\\\n\s*", "", s)
    out, i = [], 0
    while i < len(s):
        c = s[i]
        if c == "\\" and i + 1 < len(s):
            n = s[i + 1]
            if n == "n":
                out.append("\n")
            elif n == "t":
                out.append("\t")
            elif n == "r":
                out.append("\r")
            elif n == "0":
                out.append("\0")
            elif n == "u":
                m = re.match(r"\\u\{([0-9a-fA-F]+)\}", s[i:])
                if m:
                    out.append(chr(int(m.group(1), 16)))
                    i += len(m.group(0))
                    continue
                out.append("u")
            else:
                out.append(n)
            i += 2
        else:
            out.append(c)
            i += 1
    return "".join(out)


def spec_inputs(rng, k):
    files = sorted(glob.glob(os.path.join(vlib.REPO, "rsass/tests/spec/**/*.rs"), recursive=True))
    rng.shuffle(files)
    res = []
    for f in files:
        try:
            txt = open(f, encoding="utf-8").read()
        except (OSError, UnicodeDecodeError):
            continue
        if "mock_file" in txt:
            continue
        for m in _RUST_STR.finditer(txt):
            src = rust_unescape(m.group(1))
            if re.search(r"random|unique-id|unique_id", src) or len(src) > 4000 or "\0" in src:
                continue
            res.append(src)
            if len(res) >= k:
                return res
    return res


def hline(mode, threads, style, term, srcs):
    return "\t".join(["history", mode, str(threads), style, term] + [hx(s) for s in srcs])


_FRESH = {}


def fresh(src, style):
    """the same source compiled alone in a brand-new process"""
    key = (src, style)
    if key not in _FRESH:
        _FRESH[key] = vlib.run_impl([hline("seq", 1, style, "-", [src])], CASE_TIMEOUT)[0]
    return _FRESH[key]


def gen(tier, rng, boost=1):
    quick = tier == "quick"
    pool = [(s if s.startswith("@use") or "math." not in s else s, "-") for s in ATTACKS]
    progs = [model_program(rng) for _ in range((50 if quick else 300) * boost)]
    spec = [(s, "-") for s in spec_inputs(rng, (80 if quick else 1000) * boost)]
    # modelled histories: every source has a term
    for _ in range((14 if quick else 60) * boost):
        n = rng.randint(1, 50)
        hs = [rng.choice(progs) for _ in range(n)]
        mode, th = rng.choice([("seq", 1), ("par", 16), ("par", rng.randint(2, 8))])
        yield Case(hline(mode, th, rng.choice("ec"), "|".join(t for _, t in hs), [s for s, _ in hs]), "model-" + mode,
                   {"style": None})
    allp = pool + spec + progs
    # the attacks in order, then twice, then on threads
    for style in "ec":
        yield Case(hline("seq", 1, style, "-", [s for s, _ in pool]), "attacks-seq")
        yield Case(hline("seq", 1, style, "-", [s for s, _ in pool + pool[::-1]]), "attacks-seq")
        yield Case(hline("par", 16, style, "-", [s for s, _ in pool]), "attacks-par16")
    for _ in range((16 if quick else 120) * boost):
        n = rng.randint(1, 50)
        hs = [rng.choice(allp if rng.random() < 0.7 else pool) for _ in range(n)]
        if rng.random() < 0.3 and n > 2:      # A, B, A patterns
            hs[-1] = hs[0]
        mode, th = rng.choice([("seq", 1), ("seq", 1), ("par", 16), ("par", rng.choice([2, 4, 8]))])
        yield Case(hline(mode, th, rng.choice("ec"), "-", [s for s, _ in hs]), "mixed-" + mode)


def judge(case, impl, asis, spec):
    f = case.lines[0].split("\t")
    style, term, srcs = f[3], f[4], [unhx(x) for x in f[5:]]
    res = impl.split("\t")
    if impl.startswith(("panic:", "abort:")) or len(res) != len(srcs):
        return Verdict(True, f"history did not complete: {impl[:80]}")
    fails = None
    for i, (s, r) in enumerate(zip(srcs, res)):
        want = fresh(s, style)
        if r != want:
            what = "two compilations inside the history disagree" if r.startswith("DIFF:") else \
                "result differs from the same source compiled alone in a fresh process"
            fails = (f"source #{i} ({s[:60]!r}): {what}: in history {vlib.show(r.split('|')[0].replace('DIFF:', ''))[:120]!r} "
                     f"vs fresh {vlib.show(want)[:120]!r}")
            break
    corr = True
    if asis is not None:
        want_cls = [x.split(":")[0] for x in asis.split(";")]
        got_cls = ["ok" if x.startswith("ok:") else "err" for x in res]
        corr = want_cls == got_cls
        if not corr:
            k = next(i for i, (a, b) in enumerate(zip(want_cls, got_cls)) if a != b) if len(want_cls) == len(got_cls) else -1
            case.note["corr"] = f"source #{k}: model {asis.split(';')[k] if k >= 0 else asis[:80]} vs impl {vlib.show(res[k])[:100] if k >= 0 else ''} :: {srcs[k] if k >= 0 else ''}"
    return Verdict(corr, fails)


def nontrivial(case, impl, spec):
    return any(x.startswith("ok:") for x in impl.split("\t"))


# ---------------------------------------------------------------------------------------------
# T3: inventory of process-wide / interior-mutable items

EXPECTED_STATICS = sorted([
    ("output/format.rs", "INDENT", "&str"),
    ("sass/functions/macros.rs", "WARN", "Once"),
    ("sass/functions/macros.rs", "WARN", "Once"),
    ("sass/functions/meta.rs", "IMPLEMENTED_FEATURES", "&[&str]"),
    ("sass/functions/mod.rs", "FUNCTIONS", "LazyLock<FunctionMap>"),
    ("sass/functions/mod.rs", "MODULES", "LazyLock<BTreeMap<&'static str, Scope>>"),
    ("sass/functions/string.rs", "CALL_ID", "LazyLock<Mutex<u64>>"),
    ("value/colors/rgba.rs", "LOOKUP", "LazyLock<Lookup>"),
    ("variablescope.rs", "ROOT", "LazyLock<SelectorCtx>"),
])
# interior mutability outside statics: the fields of `Scope` (built-in module scopes are static!)
EXPECTED_INTERIOR = sorted([
    ("variablescope.rs", "modules: Mutex<BTreeMap<String, ScopeRef>>"),
    ("variablescope.rs", "variables: Mutex<BTreeMap<Name, Value>>"),
    ("variablescope.rs", "mixins: Mutex<BTreeMap<Name, MixinDecl>>"),
    ("variablescope.rs", "functions: Mutex<BTreeMap<Name, Function>>"),
    ("variablescope.rs", "forward: Mutex<Option<ScopeRef>>"),
    ("variablescope.rs", "content: ArcSwapOption<MixinDecl>"),
    # since /repo 17cd11e/23c2f01: names configured by `with` and not yet met by a `!default` declaration.
    # Per-compilation: `configure` is only called on the fresh `ScopeRef::new_global` module of a user file
    # (built-in urls return ConfigBuiltin first); `config_used` runs on the scope executing `$x: v !default`
    # and its parents (user scopes; built-in module scopes execute no statements and are nobody's parent).
    ("variablescope.rs", "config: Mutex<BTreeSet<Name>>"),
])
# methods of `Scope` that write one of those fields (each is accounted for in Glue/Globals.lean's header)
EXPECTED_WRITERS = sorted(["define_module", "declare", "define", "define_global", "restore_local_values", "define_mixin",
                           "define_function", "forward", "define_content", "configure", "config_used", "assign"])
# History of this list: until /repo 2e77b95 `set_variable` wrote itself; then `assign`/`define`; since 72b9cb5 new
# variables go through `declare` (walks up through `import` sub-scopes of USER scopes) and `assign`'s in-place update;
# 17cd11e/23c2f01 added `configure`/`config_used`.  `set_variable` still refuses built-in modules in its module-path
# branch (unchanged) before any of them is reached; a built-in module scope is never the parent of another scope.
EXPECTED_DEP_WARN_SITES = 4

_STATIC = re.compile(r"^\s*(?:pub(?:\([^)]*\))?\s+)?static\s+(?:mut\s+)?([A-Za-z_][A-Za-z_0-9]*)\s*:\s*(.+?)\s*=", re.M | re.S)
_INTERIOR = re.compile(r"(Mutex<|RwLock<|ArcSwap\w*<|RefCell<|\bCell<|OnceLock|OnceCell|thread_local!|lazy_static!|Atomic[A-Z]\w*|UnsafeCell|static\s+mut\b)")


def strip_rust_comments(s):
    s = re.sub(r"/\*.*?\*/", "", s, flags=re.S)
    return re.sub(r"//[^\n]*", "", s)


def inventory():
    root = os.path.join(vlib.REPO, "rsass/src")
    statics, interior, writers, dep = [], [], [], 0
    for f in sorted(glob.glob(os.path.join(root, "**/*.rs"), recursive=True)):
        rel = os.path.relpath(f, root)
        src = strip_rust_comments(open(f, encoding="utf-8").read())
        for m in _STATIC.finditer(src):
            ty = re.sub(r"\s+", " ", m.group(2)).strip()
            if "\n" in m.group(2) and len(ty) > 80:
                continue
            statics.append((rel, m.group(1), ty))
        for line in src.split("\n"):
            if _INTERIOR.search(line) and not re.match(r"\s*use\s", line) and not re.search(r"\bstatic\s", line):
                interior.append((rel, re.sub(r"\s+", " ", line).strip().rstrip(",")))
        dep += len(re.findall(r"\bdep_warn!\s*\(", src)) if not rel.endswith("macros.rs") else 0
        if rel == "variablescope.rs":
            # functions of `impl Scope` whose body writes a field
            for m in re.finditer(r"\bfn\s+([a-z_0-9]+)\s*(?:<[^>]*>)?\s*\(\s*&self[^{]*\{", src):
                body, depth, i = "", 1, m.end()
                while i < len(src) and depth:
                    depth += {"{": 1, "}": -1}.get(src[i], 0)
                    i += 1
                body = src[m.end():i]
                flat = re.sub(r"\s+", "", body)
                guards = re.findall(r"letmut(\w+)=\w+\.\w+\.lock\(\)\.unwrap\(\);", flat)
                wr = r"\.(insert|remove|get_or_insert_with|clear|extend|retain|append|pop\w*)\("
                if re.search(r"self\.\w+\.lock\(\)\.unwrap\(\)" + wr, flat) or "self.content.store(" in flat \
                        or any(re.search(r"\b" + g + wr, flat) for g in guards) \
                        or re.search(r"\*self\.\w+\.lock\(\)\.unwrap\(\)=", flat):
                    writers.append(m.group(1))
    return sorted(statics), sorted(interior), sorted(set(writers)), dep


def static_checks(ctx):
    statics, interior, writers, dep = inventory()
    probs = []
    if statics != EXPECTED_STATICS:
        new = [x for x in statics if x not in EXPECTED_STATICS]
        gone = [x for x in EXPECTED_STATICS if x not in statics]
        probs.append(f"statics_accounted: statics of rsass/src changed: new {new} missing {gone}")
    if interior != EXPECTED_INTERIOR:
        new = [x for x in interior if x not in EXPECTED_INTERIOR]
        gone = [x for x in EXPECTED_INTERIOR if x not in interior]
        probs.append(f"statics_accounted: interior-mutable items changed: new {new} missing {gone}")
    if writers != EXPECTED_WRITERS:
        probs.append(f"statics_accounted: Scope methods that write scope maps changed: now {writers}, modelled {EXPECTED_WRITERS}")
    if dep != EXPECTED_DEP_WARN_SITES:
        probs.append(f"statics_accounted: dep_warn! sites: {dep}, modelled {EXPECTED_DEP_WARN_SITES}")
    ctx.log["inventory"] = {"statics": len(statics), "interior": len(interior), "writers": writers, "dep_warn_sites": dep}
    return probs


def extra_coverage(ctx, res):
    return {"inventory": ctx.log.get("inventory"), "fresh_process_compilations": len(_FRESH)}


LEVEL_TEXT = ("Proof (Lean 4), partial: on a model of the process-wide state (MODULES, FUNCTIONS, CALL_ID, dep_warn flags) and of "
              "every statement that comes near it (ns.$x assignment, @use/@forward/load-css with configuration, @use as *, "
              "user definitions shadowing built-ins) — built-ins are never changed by any stylesheet, history or schedule; the "
              "result of a compilation is a function of the stylesheet and the built-ins only, hence independent of every "
              "earlier compilation (unique-id excluded, with a refutation showing the exclusion is needed). Tied to the code by "
              "a source inventory of every static / interior-mutable item and Scope writer method (a new one breaks the "
              "obligation), and by histories of 1..50 compilations (sequential and on 16 threads) compared byte-for-byte with "
              "each source compiled alone in a fresh process.")
LEVEL_NOTE = ("Partial: data races, allocator and scheduler are outside the model; per-thread independence under interleaving is "
              "proved for the built-ins invariant only (each compilation's own state is thread-local by construction of the "
              "model). The model's statement semantics is tied by ok/error class agreement on generated statement programs.")
TECHNIQUE = "Lean 4 invariant/purity theorems over a process-state model + source inventory guard + fresh-process differential histories"
