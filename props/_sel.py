"""Selector ASTs shared by the C19 / C22 / C25 property modules.

One Python object is printed twice: as SCSS/CSS text for rsass (`scss()`) and as a prefix
term for the Lean drivers (`term()`, grammar in lean/RsassModel/Sel/Term.lean), so the two
sides cannot drift apart.  `text()` is an independent printer of the canonical expanded
text used by the Python oracles (it never looks at the Lean model).
"""
import re
from tools.vlib import hx

REL_TXT = {"a": " ", "p": " > ", "s": " ~ ", "j": " + "}
REL_SYM = {"a": "", "p": ">", "s": "~", "j": "+"}


def xs(s):
    return "x" + hx(s)


def opt(s):
    return "-" if s is None else xs(s)


class Attr:
    def __init__(self, name, op="", val="", quotes="n", mod=None):
        self.name, self.op, self.val, self.quotes, self.mod = name, op, val, quotes, mod

    def term(self):
        return f"A {xs(self.name)} {xs(self.op)} {xs(self.val)} {self.quotes} {opt(self.mod)}"

    def text(self):
        q = {"n": "", "d": '"', "s": "'"}[self.quotes]
        return "[" + self.name + self.op + q + self.val + q + ((" " + self.mod) if self.mod else "") + "]"

    def scss(self, rng=None):
        sp = (lambda: rng.choice(["", " "])) if rng else (lambda: "")
        q = {"n": "", "d": '"', "s": "'"}[self.quotes]
        if not self.op:
            return "[" + sp() + self.name + sp() + "]"
        m = ""
        if self.mod:
            m = (" " if self.quotes == "n" else sp()) + self.mod + sp()
        return "[" + sp() + self.name + sp() + self.op + sp() + q + self.val + q + m + "]"


class Pseudo:
    """arg: None | ("O", text) | ("L", [Sel,...])"""

    def __init__(self, name, element=False, arg=None):
        self.name, self.element, self.arg = name, element, arg

    def term(self):
        if self.arg is None:
            a = "N"
        elif self.arg[0] == "O":
            a = "O " + xs(self.arg[1])
        else:
            a = selset_term(self.arg[1])
        return f"P {xs(self.name)} {1 if self.element else 0} {a}"

    def _arg(self, f):
        if self.arg is None:
            return ""
        if self.arg[0] == "O":
            return "(" + self.arg[1] + ")"
        return "(" + ", ".join(f(s) for s in self.arg[1]) + ")"

    def text(self):
        t = ("::" if self.element else ":") + self.name
        a = self._arg(lambda s: s.text())
        if self.name in ("nth-child", "nth-last-child", "nth-last-of-type", "nth-of-type"):
            a = a.replace(" + ", "+", 1)
        return t + a

    def scss(self, rng=None):
        return ("::" if self.element else ":") + self.name + self._arg(lambda s: s.scss(rng))

    def has_amp(self):
        return self.arg is not None and self.arg[0] == "L" and any(s.has_amp() for s in self.arg[1])

    def has_ph(self):
        return self.arg is not None and self.arg[0] == "L" and any(s.has_ph() for s in self.arg[1])


class Compound:
    def __init__(self, backref=False, elem=None, phs=(), classes=(), id=None, attrs=(), pseudos=()):
        self.backref, self.elem, self.phs, self.classes = backref, elem, list(phs), list(classes)
        self.id, self.attrs, self.pseudos = id, list(attrs), list(pseudos)

    def is_empty(self):
        return not (self.backref or self.elem is not None or self.phs or self.classes or self.id is not None
                    or self.attrs or self.pseudos)

    def term(self):
        def lst(l, f):
            return " ".join([str(len(l))] + [f(x) for x in l])
        return " ".join(["C", "1" if self.backref else "0", opt(self.elem), lst(self.phs, xs), lst(self.classes, xs),
                         opt(self.id), lst(self.attrs, Attr.term), lst(self.pseudos, Pseudo.term)])

    def text(self, amp="&"):
        t = amp if self.backref else ""
        if self.elem is not None and (self.elem not in ("*", "*|*") or not (self.classes or self.phs or self.id is not None
                                                                            or self.pseudos)):
            t += self.elem
        t += "".join("%" + p for p in self.phs)
        if self.id is not None:
            t += "#" + self.id
        for c in self.classes:
            t += "." + (("\\%x " % ord(c[0])) + c[1:] if c[:1].isascii() and c[:1].isdigit() else c)
        t += "".join(a.text() for a in self.attrs)
        t += "".join(p.text() for p in self.pseudos)
        return t

    def scss(self, rng=None):
        """source text; with an rng the simple selectors are interleaved in random order
        (each category keeps its own order, so the AST is the same)"""
        head = ("&" if self.backref else "") + (self.elem or "")
        groups = [["%" + p for p in self.phs], ["#" + self.id] if self.id is not None else [],
                  ["." + c for c in self.classes], [a.scss(rng) for a in self.attrs], [p.scss(rng) for p in self.pseudos]]
        if rng is None or rng.random() < 0.6:
            return head + "".join("".join(g) for g in groups)
        out = []
        groups = [g for g in groups if g]
        while groups:
            g = rng.choice(groups)
            out.append(g.pop(0))
            if not g:
                groups.remove(g)
        return head + "".join(out)

    def has_amp(self):
        return self.backref or any(p.has_amp() for p in self.pseudos)

    def has_ph(self):
        return bool(self.phs) or any(p.has_ph() for p in self.pseudos)


class Sel:
    """first compound + [(rel, compound), ...]; rel in a p s j.  A leading combinator is an
    empty first compound, a trailing one an empty last compound."""

    def __init__(self, first, steps=()):
        self.first, self.steps = first, list(steps)

    def compounds(self):
        return [self.first] + [c for _, c in self.steps]

    def term(self):
        t = "S " + self.first.term()
        for k, c in self.steps:
            t = f"R {k} {t} {c.term()}"
        return t

    def text(self):
        t = self.first.text()
        left_empty = self.first.is_empty()
        for k, c in self.steps:
            if k == "a":
                t += " "
            else:
                t += ("" if left_empty else " ") + REL_SYM[k] + " "
            t += c.text()
            left_empty = c.is_empty()
        return t

    def scss(self, rng=None):
        t = self.first.scss(rng)
        for k, c in self.steps:
            if k == "a":
                t += " " if rng is None else rng.choice([" ", "  "])
            else:
                t += REL_TXT[k] if rng is None else rng.choice([REL_TXT[k], REL_SYM[k], " " + REL_SYM[k], REL_SYM[k] + " "])
            t += c.scss(rng)
        return t

    def has_amp(self):
        return any(c.has_amp() for c in self.compounds())

    def has_top_amp(self):
        return any(c.backref for c in self.compounds())

    def has_ph(self):
        return any(c.has_ph() for c in self.compounds())

    def has_top_ph(self):
        return any(c.phs for c in self.compounds())


def selset_term(sels):
    return " ".join(["L", str(len(sels))] + [s.term() for s in sels])


def selset_text(sels):
    return ", ".join(s.text() for s in sels)


def selset_scss(sels, rng=None):
    sep = ", " if rng is None else rng.choice([", ", ",", " , "])
    return sep.join(s.scss(rng) for s in sels)


# ---------------------------------------------------------------------------------------
# rule trees


class Decl:
    def __init__(self, name):
        self.name = name

    def term(self):
        return "D " + xs(self.name)

    def scss(self, rng=None):
        return self.name + ": v;"


class Rule:
    def __init__(self, sels, body, at_root=False):
        self.sels, self.body, self.at_root = sels, body, at_root

    def term(self):
        return " ".join(["T" if self.at_root else "U", selset_term(self.sels), str(len(self.body))] + [b.term() for b in self.body])

    def scss(self, rng=None):
        return ("@at-root " if self.at_root else "") + selset_scss(self.sels, rng) + " { " + " ".join(b.scss(rng) for b in self.body) + " }"

    def depth(self):
        return 1 + max([b.depth() for b in self.body if isinstance(b, Rule)] + [0])


def sheet_term(rules):
    return " ".join(["K19", str(len(rules))] + [r.term() for r in rules])


def sheet_scss(rules, rng=None):
    return "\n".join(r.scss(rng) for r in rules) + "\n"


# ---------------------------------------------------------------------------------------
# reading rsass' CSS output back into `header{d1;d2;}` lines


def css_blocks(css, style):
    """[(header text, [declaration names])] of a flat CSS text (no at-rules)."""
    out = []
    pos = 0
    while True:
        i = css.find("{", pos)
        if i < 0:
            break
        j = css.find("}", i)
        if j < 0:
            break
        head = css[pos:i]
        if style == "c":
            head = head.lstrip("\n")
        else:
            head = head.lstrip("\n")
            if head.endswith(" "):
                head = head[:-1]
        names = []
        for d in css[i + 1:j].split(";"):
            d = d.strip()
            if d:
                names.append(d.split(":", 1)[0].strip())
        out.append((head, names))
        pos = j + 1
    return out


def render_blocks(blocks):
    return "".join(h + "{" + "".join(n + ";" for n in ns) + "}\n" for h, ns in blocks)
