"""C22 — Placeholder selectors never reach the output."""
from tools.vlib import Case, Verdict, hx, unhx
from props._sel import Attr, Pseudo, Compound, Sel, Decl, Rule, sheet_term, sheet_scss, css_blocks, render_blocks
from props.C19 import Orc, NotApplicable, fix_attr, g_attr, ELEMS, CLASSES, IDS, PLAIN_PSEUDO

ID = "C22"
DRIVER = "drv_C22"
THEOREM_MODS = ["RsassModel.Theorems.C22"]
LEVEL = "proof"
CASE_TIMEOUT = 60
RULE = ("rule trees nested 1..3 levels (no `&`); selector lists of 1..4 complex selectors mixing placeholder-free "
        "selectors, selectors with `%name` in any compound, and selector pseudo-classes (:not, :is, :where, :has, "
        ":matches, :any, vendor-prefixed -moz-any / -webkit-any, nested :not(:is(..)) / :is(:not(..)), and every other "
        "selector-taking pseudo: ::slotted, ::cue, :current, :host, :host-context, :nth-child(2n+1 of S), unknown names) whose argument "
        "lists mix placeholders and normal selectors; rules whose selectors are all placeholders; both styles. "
        "Non-trivial = some placeholder occurs.")
TRUSTED = ["props/_sel.py: the AST object printed as SCSS text (for rsass) and as a term (for the model)",
           "python oracle of the statement (second implementation of the filter on the Python AST)"]
ASSUMPTIONS = ["`similar arguments` = every pseudo-class with a selector-list argument other than :not: a member with a "
               "placeholder is removed, an emptied list makes the enclosing complex selector match nothing; an emptied "
               ":not() matches everything and is dropped; a compound left without simple selectors is the universal selector",
               "no `&` is generated (C19's subject); names are plain identifiers"]

PHS = ["p", "q", "ph-x"]
SELPSEUDO = ["not", "not", "is", "is", "where", "has", "matches", "any", "-moz-any", "-webkit-any", "-x-not"]
# selector-taking pseudo-classes and pseudo-elements beyond the is/not family: (name, is `::element`)
OTHERSEL = [("slotted", True), ("cue", True), ("current", False), ("host", False), ("host-context", False),
            ("-vendor-any", False), ("foo", False), ("part-like", True), ("nth-child", False), ("nth-last-of-type", False)]


def g_compound(rng, ph_p, depth=0):
    c = Compound()
    k = rng.random()
    if k < 0.4:
        c.elem = rng.choice(ELEMS)
    elif k < 0.45:
        c.elem = "*"
    if rng.random() < ph_p:
        c.phs.append(rng.choice(PHS))
        if rng.random() < 0.15:
            c.phs.append(rng.choice(PHS))
    n = rng.choice([0, 1, 1, 2]) if (c.elem or c.phs) else rng.choice([1, 1, 2])
    for _ in range(n):
        j = rng.random()
        if j < 0.4:
            c.classes.append(rng.choice(CLASSES))
        elif j < 0.46 and c.id is None:
            c.id = rng.choice(IDS)
        elif j < 0.54:
            c.attrs.append(fix_attr(g_attr(rng)))
        elif j < 0.64:
            c.pseudos.append(Pseudo(rng.choice(PLAIN_PSEUDO)))
        elif j < 0.68:
            c.pseudos.append(Pseudo(rng.choice(["before", "after"]), True))
        elif depth < 2:
            if rng.random() < 0.45:
                nm, elem = rng.choice(OTHERSEL)
            else:
                nm, elem = rng.choice(SELPSEUDO), False
            arg = []
            for _ in range(rng.choice([1, 1, 2, 3])):
                first = g_compound(rng, 0.45, depth + 1)
                steps = [(rng.choice("ap"), g_compound(rng, 0.2, depth + 1))] if rng.random() < 0.2 else []
                if nm.startswith("nth-"):
                    # `2n+1 of S`: the argument is the complex selector `2n + 1 of S`
                    steps = [("j", Compound(elem="1")), ("a", Compound(elem="of")), ("a", first)] + steps
                    first = Compound(elem="2n")
                arg.append(Sel(first, steps))
            c.pseudos.append(Pseudo(nm, elem, ("L", arg)))
        else:
            c.classes.append(rng.choice(CLASSES))
    if c.is_empty():
        c.classes.append(rng.choice(CLASSES))
    return c


def g_sel(rng, ph_p, lead=False):
    n = rng.choice([1, 1, 2, 2, 3])
    first = g_compound(rng, ph_p)
    steps = [(rng.choice("aaapsj"), g_compound(rng, ph_p)) for _ in range(n - 1)]
    if lead and rng.random() < 0.15:
        steps = [(rng.choice("psj"), first)] + steps
        first = Compound()
    return Sel(first, steps)


class Gen:
    def __init__(self, rng):
        self.rng, self.n = rng, 0

    def decl(self):
        self.n += 1
        return Decl("d%d" % self.n)

    def rule(self, level, maxlevel):
        rng = self.rng
        mode = rng.random()
        k = rng.choice([1, 2, 2, 3, 4])
        if mode < 0.15:
            sels = [g_sel(rng, 1.0, level > 0) for _ in range(k)]       # all placeholders (mostly)
        elif mode < 0.3:
            sels = [g_sel(rng, 0.0, level > 0) for _ in range(k)]       # none at top level
        else:
            sels = [g_sel(rng, rng.choice([0.0, 0.0, 0.35, 1.0]), level > 0) for _ in range(k)]
        body = [self.decl()] if rng.random() < 0.85 else []
        if level + 1 < maxlevel:
            for _ in range(rng.choice([1, 1, 2])):
                body.append(self.rule(level + 1, maxlevel))
                if rng.random() < 0.3:
                    body.append(self.decl())
        if not body:
            body.append(self.decl())
        return Rule(sels, body)


def mk_case(rules, style, stratum, rng=None):
    src = sheet_scss(rules, rng)
    line = "compile\tscss\t" + style + "\t10\tin.scss\t" + hx(src) + "\t" + sheet_term(rules)
    return Case(line, stratum, {"oracle": oracle_blocks(rules)})


def fixed_cases():
    C, S, P = Compound, Sel, Pseudo
    ph = lambda n="p", **kw: C(phs=[n], **kw)
    el = lambda e, **kw: C(elem=e, **kw)
    sel = lambda n, *args: P(n, False, ("L", list(args)))
    out = []

    def add(name, rules):
        for st in "ec":
            out.append(mk_case(rules, st, "fixed:" + name))
    add("mix", [Rule([S(ph()), S(el("a")), S(el("b"), [("a", ph("q"))]), S(el("c"))], [Decl("x")])])
    add("all-removed", [Rule([S(ph()), S(el("a", phs=["q"]))], [Decl("x")]), Rule([S(el("z"))], [Decl("y")])])
    add("not", [Rule([S(el("a", pseudos=[sel("not", S(ph()))]))], [Decl("x")])])
    add("not-mixed", [Rule([S(el("a", pseudos=[sel("not", S(ph()), S(el("b")))]))], [Decl("x")])])
    add("is", [Rule([S(el("a", pseudos=[sel("is", S(ph()))])), S(el("k"))], [Decl("x")])])
    add("is-mixed", [Rule([S(el("a", pseudos=[sel("is", S(ph()), S(el("b")))]))], [Decl("x")])])
    add("not-alone", [Rule([S(el("a"), [("a", C(pseudos=[sel("not", S(ph()))]))])], [Decl("x")])])
    add("not-is", [Rule([S(el("a", pseudos=[sel("not", S(C(pseudos=[sel("is", S(ph()))])))]))], [Decl("x")])])
    add("is-not", [Rule([S(el("a", pseudos=[sel("is", S(C(pseudos=[sel("not", S(ph()))])))]))], [Decl("x")])])
    sele = lambda n, *args: P(n, True, ("L", list(args)))
    add("slotted-alone", [Rule([S(C(pseudos=[sele("slotted", S(ph()))]))], [Decl("x")]), Rule([S(el("z"))], [Decl("y")])])
    add("slotted-list", [Rule([S(C(classes=["x"])), S(el("b", pseudos=[sele("slotted", S(ph()), S(C(classes=["c"])))])),
                               S(ph("q"), [("a", C(classes=["y"]))]), S(C(classes=["z"]))], [Decl("x")])])
    add("current", [Rule([S(C(pseudos=[sel("current", S(ph()))]), [("a", el("d"))])], [Decl("x")])])
    add("cue", [Rule([S(el("video", pseudos=[sele("cue", S(ph()), S(el("i")))]))], [Decl("x")])])
    add("not-slotted", [Rule([S(el("e", pseudos=[sel("not", S(C(pseudos=[sele("slotted", S(ph()))])))]))], [Decl("x")])])
    add("nth-of", [Rule([S(el("li", pseudos=[sel("nth-child", S(C(elem="2n"), [("j", C(elem="1")), ("a", C(elem="of")), ("a", ph())]))])),
                         S(el("k"))], [Decl("x")])])
    add("unknown-name", [Rule([S(el("a", pseudos=[sel("foo", S(ph()), S(el("b")))]))], [Decl("x")])])
    add("nested", [Rule([S(el("a")), S(ph())], [Decl("x"), Rule([S(ph("r"), [("p", el("b"))]), S(el("c"))], [Decl("y")])])])
    return out


def gen(tier, rng, boost=1):
    yield from fixed_cases()
    n = (900 if tier == "quick" else 12000) * boost
    for i in range(n):
        g = Gen(rng)
        maxlevel = rng.choice([1, 2, 2, 3])
        rules = [g.rule(0, maxlevel) for _ in range(rng.choice([1, 1, 2]))]
        style = "c" if rng.random() < 0.25 else "e"
        yield mk_case(rules, style, "depth%d" % maxlevel, rng if rng.random() < 0.5 else None)


# ---------------------------------------------------------------------------------------
# oracle: the statement evaluated on the Python AST (independent of the Lean model)


def name_in(name, known):
    if name.startswith("-"):
        return any(name.endswith("-" + k) for k in known)
    return name in known


def strip_compound(c):
    """None = matches nothing; otherwise the compound without what a placeholder makes vacuous"""
    if c.phs:
        return None
    ps = []
    for p in c.pseudos:
        if p.arg is not None and p.arg[0] == "L":
            kept = [k for k in (strip_sel(s) for s in p.arg[1]) if k is not None]
            if name_in(p.name, ["not"]):
                if not kept:
                    continue            # :not(nothing) matches everything
            elif not kept:
                return None             # :is(nothing) matches nothing
            ps.append(Pseudo(p.name, p.element, ("L", kept)))
        else:
            ps.append(p)
    r = Compound(c.backref, c.elem, [], c.classes, c.id, c.attrs, ps)
    if r.is_empty() and not c.is_empty():
        r.elem = "*"
    return r


def strip_sel(s):
    cs = [strip_compound(c) for c in s.compounds()]
    if any(c is None for c in cs):
        return None
    return Sel(cs[0], [(k, c) for (k, _), c in zip(s.steps, cs[1:])])


def oracle_blocks(rules):
    blocks = []

    def walk(rule, outers):
        res = Orc().nest_list(rule.sels, outers)
        kept = [k for k in (strip_sel(s) for s in res) if k is not None]
        untouched = [s.text() for s in res if not s.has_ph()]
        cur = None
        for b in rule.body:
            if isinstance(b, Decl):
                if cur is None:
                    cur = [[k.text() for k in kept], untouched, []]
                    blocks.append(cur)
                cur[2].append(b.name)
            else:
                n = len(blocks)
                walk(b, res)
                if len(blocks) != n:
                    cur = None

    try:
        for r in rules:
            walk(r, None)
    except NotApplicable:
        return None
    return blocks


def check_oracle(blocks, got, style):
    exp = [b for b in blocks if b[0]]
    if len(exp) != len(got):
        return f"{len(got)} rules emitted, {len(exp)} expected (a rule whose selectors are all removed is not emitted)"
    for (texts, untouched, names), (head, gnames) in zip(exp, got):
        if "%" in head:
            return f"placeholder in emitted selector `{head}`"
        if names != gnames:
            return f"declarations {gnames} under `{head}`, expected {names}"
        if style == "e":
            if ", ".join(texts) != head:
                return f"selector `{head}`, expected `{', '.join(texts)}`"
    return None


def judge(case, impl, asis, spec):
    f = case.lines[0].split("\t")
    style = f[2]
    if not impl.startswith("ok:"):
        return Verdict(False, "compilation failed: " + impl[:60])
    blocks = css_blocks(unhx(impl[3:]), style)
    got = render_blocks(blocks)
    corr = got == unhx(asis)
    orc = case.note.get("oracle")
    if orc is not None:
        why = check_oracle(orc, blocks, style)
        if why is None and style == "c" and got != unhx(spec):
            why = "emitted rules differ from the specification model"
    else:
        why = None if got == unhx(spec) else "emitted rules differ from the specification model"
    return Verdict(corr, why)


def nontrivial(case, impl, spec):
    return "25" in case.lines[0].split("\t")[5] and impl.startswith("ok:")


LEVEL_TEXT = ("Proof (Lean 4) over a function-by-function model of no_placeholder on SelectorSet/Selector/Compound/Pseudo, "
              "Opt::collect_pos/collect_neg and Rule::write's skip: the emitted list is the order-preserving sub-list of the "
              "selectors that survive, selectors without placeholders survive unchanged, a rule whose selectors all carry a "
              "placeholder is not emitted, :not inverts (:not(%p) is dropped, :is(%p) removes the selector); tied to the code by "
              "exact agreement of the emitted rule headers on generated rule trees plus an independent Python oracle of the statement.")
LEVEL_NOTE = ("Trusted: Lean kernel; generator printing one AST as SCSS and as a term; the SCSS selector front end and nesting "
              "without `&` (validated by the correspondence; proved in C19).")
TECHNIQUE = "Lean 4 theorems over a structural model of the placeholder filter + exact differential correspondence on generated rule trees"
