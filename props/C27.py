"""C27 — Strings keep their content through escaping and quoting."""
import re
from tools.vlib import Case, Verdict, hx, unhx

ID = "C27"
DRIVER = "drv_C27"
THEOREM_MODS = ["RsassModel.Theorems.C27"]
LEVEL = "proof"
RULE = ("double-quoted SCSS literals assembled from pieces: plain ASCII (hex-looking and not), spaces, raw non-ASCII "
        "(2/3/4-byte, combining, private-use U+E000/U+F8FF/U+100000), `'`, `#`, `\\\"`, `\\\\`, `\\'`, `\\-`, `\\ `, "
        "backslash + other character, backslash + newline, hex escapes of control / ASCII / quote / backslash / space "
        "/ non-ASCII / astral / private-use / NUL code points in four forms (minimal digits, minimal + space, "
        "six digits, six digits + space); quick ~6 000 literals, thorough ~120 000; observed: the emitted value token "
        "and str-length; non-trivial = the literal contains at least one escape or non-ASCII character")
TRUSTED = ["harness op `strlit` (writes the literal into one rule and reads the declarations back)",
           "python CSS Syntax 3 string-token decoder (independent of the Lean model) applied to the emitted bytes"]
ASSUMPTIONS = ["tabs and form feeds are not generated (rsass ends a hex escape only at a space; CSS at any white space)",
               "quote(unquote(s)) and interpolation are proved on the model but not observed on the implementation: "
               "the output formatter rewrites raw newlines and the value keeps escapes (finding C27-keeps-escapes), "
               "so only the literal's own token and its length are judged",
               "single-quoted literals and interpolation inside literals are outside the generator"]

HEXD = "0123456789abcdefABCDEF"


# ---- independent CSS Syntax 3 decoder for the content of a string token ----

def css_decode(s):
    out = []
    i, n = 0, len(s)
    while i < n:
        c = s[i]
        if c != "\\":
            out.append(c)
            i += 1
            continue
        i += 1
        if i >= n:
            break
        c = s[i]
        if c == "\n":
            i += 1
            continue
        if c in HEXD:
            j = i
            while j < n and j - i < 6 and s[j] in HEXD:
                j += 1
            v = int(s[i:j], 16)
            i = j
            if i < n and s[i] in " \t\n":
                i += 1
            if v == 0 or 0xD800 <= v <= 0xDFFF or v > 0x10FFFF:
                v = 0xFFFD
            out.append(chr(v))
        else:
            out.append(c)
            i += 1
    return "".join(out)


def token_content(text):
    """`"..."` or `'...'` -> (content, None) or (None, reason); the token must be closed by an unescaped quote
    that is the last character"""
    if len(text) < 2 or text[0] not in "\"'":
        return None, "value is not a quoted string token"
    q = text[0]
    i = 1
    while i < len(text):
        c = text[i]
        if c == "\\":
            i += 2
            continue
        if c == q:
            break
        if c == "\n":
            return None, "raw newline inside the string token"
        i += 1
    if i != len(text) - 1:
        return None, "string token is not terminated where the value ends (broken escaping)"
    return text[1:-1], None


PLAIN = ["a", "b", "f", "0", "9", "x", "g", "Z", " ", "  ", "-", "_", ".", "!", "\u00e9", "\u00df", "\u4e2d",
         "\U0001f600", "\u0301", "\ue000", "\uf8ff", "\U00100000", "'", "#", "ab", "xyz", "A1"]
CODEPOINTS = [0x1, 0x9, 0xa, 0x10, 0x1f, 0x20, 0x22, 0x27, 0x2d, 0x30, 0x41, 0x5c, 0x61, 0x7f, 0x80, 0x9f, 0xa0, 0xe9,
              0x41b, 0x4e2d, 0xe000, 0xf8ff, 0xfffd, 0x1f600, 0xe000a, 0x100000, 0x10ffff, 0x0]
BADCP = [0xd800, 0xdfff, 0x110000, 0xffffff]
SIMPLE_ESC = ['\\"', "\\\\", "\\'", "\\-", "\\ ", "\\x", "\\!", "\\g", "\\é", "\\😀", "\\\n", "\\#"]


def hex_escape(rng, cp, next_is_hexish):
    form = rng.randrange(4)
    h = "%x" % cp
    if rng.random() < 0.3:
        h = h.upper()
    if form == 0 and not next_is_hexish and len(h) < 6:
        return "\\" + h, "min"
    if form == 1 or (form == 0):
        return "\\" + h + " ", "min+space"
    if form == 2:
        return "\\" + h.rjust(6, "0"), "six"
    return "\\" + h.rjust(6, "0") + " ", "six+space"


def rand_literal(rng, npieces, allow_bad):
    pieces = []
    kinds = []
    for _ in range(npieces):
        k = rng.random()
        if k < 0.40:
            pieces.append(("plain", rng.choice(PLAIN)))
        elif k < 0.60:
            pieces.append(("simple", rng.choice(SIMPLE_ESC)))
        elif k < 0.97 or not allow_bad:
            pieces.append(("hex", rng.choice(CODEPOINTS)))
        else:
            pieces.append(("hex", rng.choice(BADCP)))
    out = ""
    for idx, (kind, v) in enumerate(pieces):
        if kind == "hex":
            nxt = pieces[idx + 1] if idx + 1 < len(pieces) else None
            hexish = nxt is not None and nxt[0] == "plain" and nxt[1][:1] in HEXD + " "
            # a following space or hex digit would be swallowed/merged: the minimal form is then not used
            s, form = hex_escape(rng, v, hexish or nxt is None and False)
            out += s
            kinds.append("hex-" + form)
        else:
            out += v
            kinds.append(kind)
    # `#{` would start an interpolation
    out = out.replace("#{", "#")
    return out, kinds


def mk(content, stratum):
    return Case("strlit\td\t" + hx(content), stratum)


def gen(tier, rng, boost=1):
    fixed = ["abc", "\\10x", "\\10  x", "\\10 x", "a\\\nb", "\\41 B", "\\41B", "\\e000a", 'a\\"b', "a'b", "\\22", "\\\\",
             "\\-", "\\ ", "x\\ y", "a b", "\\0", "\\a", "\\9", "é\\e9", "\\1F600", "a", "\\e000 a", "", "\\a  b",
             "\\a \\a", "\\a\\a", "\\61\\62", "\\61 \\62 ", "\\000061b", "\\000061 b", "#", "a#b", "\\27", "\\27\\22"]
    for c in fixed:
        yield mk(c, "fixed")
    # every single simple escape / code point in every form, alone and before a plain character
    for cp in CODEPOINTS:
        h = "%x" % cp
        for esc in ("\\" + h, "\\" + h + " ", "\\" + h.rjust(6, "0"), "\\" + h.rjust(6, "0") + " "):
            for tail in ("", "x", "a", " ", " a", "  x", "\\" + h):
                if len(h) < 6 and esc == "\\" + h and tail[:1] in tuple(HEXD):
                    continue
                yield mk(esc + tail, "one-hex-escape")
    for e in SIMPLE_ESC:
        for tail in ("", "x", "a", " ", " a"):
            yield mk(e + tail, "one-simple-escape")
            yield mk("q" + e + tail, "one-simple-escape")
    n = (5000 if tier == "quick" else 120000) * boost
    for _ in range(n):
        content, kinds = rand_literal(rng, rng.randint(1, 6), allow_bad=True)
        yield mk(content, "random")


def parse_impl(impl):
    """-> (kind, token text, length text)"""
    if impl.startswith(("panic:", "abort:")):
        return "crash", impl, None
    if not impl.startswith("ok:"):
        return "err", None, None
    f = impl[3:].split("\t")
    return "ok", unhx(f[0]), unhx(f[1])


def parse_asis(a):
    if a is None:
        return None
    if a == "err":
        return ("err", None, None)
    h, _, n = a[3:].partition("|")
    return ("ok", unhx(h), n)


def parse_spec(s):
    h, _, n = s[4:].partition("|")
    return unhx(h), int(n)


def oracle(content, kind, text, length):
    """the property's statement on the implementation's own output (python decoder only)"""
    denoted = css_decode(content)
    if kind == "crash":
        return "crash"
    if kind == "err":
        return "a well-formed string literal is rejected"
    tok, why = token_content(text)
    if tok is None:
        return why
    back = css_decode(tok)
    if back != denoted:
        return f"emitted token denotes {back!r}, the literal denotes {denoted!r}"
    if length != str(len(denoted)):
        return f"str-length is {length}, the literal denotes {len(denoted)} code points"
    return None


def judge(case, impl, asis, spec):
    content = unhx(case.lines[0].split("\t")[2])
    kind, text, length = parse_impl(impl)
    if spec is not None:
        den, n = parse_spec(spec)
        if den != css_decode(content):
            raise RuntimeError(f"checker inconsistency: lean decodeCss {den!r} != python css_decode "
                               f"{css_decode(content)!r} on {content!r}")
    a = parse_asis(asis)
    corr_ok = a is None or (a[0] == kind and (kind != "ok" or (a[1] == text and a[2] == length)))
    return Verdict(corr_ok, oracle(content, kind, text, length))


def explained(case, r, live):
    """explained only if the as-is model reproduces the implementation exactly and itself violates the statement"""
    if not live or not r["v"].corr_ok or r["asis"][0] is None:
        return False
    content = unhx(case.lines[0].split("\t")[2])
    a = parse_asis(r["asis"][0])
    return oracle(content, a[0], a[1], a[2]) is not None


def nontrivial(case, impl, spec):
    content = unhx(case.lines[0].split("\t")[2])
    return "\\" in content or any(ord(c) > 127 for c in content)


def extra_coverage(ctx, res):
    forms = {}
    for r in res:
        content = unhx(r["case"].lines[0].split("\t")[2])
        for name, pat in (("hex-escape", r"\\[0-9a-fA-F]"), ("escaped-quote", r'\\"'), ("escaped-backslash", r"\\\\"),
                          ("line-continuation", r"\\\n"), ("private-use-raw", "[\ue000-\uf8ff\U000f0000-\U0010fffd]"),
                          ("non-ascii-raw", r"[^\x00-\x7f]")):
            if re.search(pat, content):
                forms[name] = forms.get(name, 0) + 1
    return {"literal_features": forms}


LEVEL_TEXT = ("Proof (Lean 4): CSS Syntax 3 string decoding, the reference serializer and the theorem decodeCss (emitSpec s) "
              "= s for all code-point lists; model of rsass's literal parser (escaped_char, normalized_escaped_char_q, "
              "cleanup_escape_ws), CssString Display, unquote and quote with deviation flags and refutations; tied to the "
              "code by exact agreement of the emitted token and str-length on generated literals and judged by an "
              "independent Python CSS tokenizer on the emitted bytes.")
LEVEL_NOTE = ("Trusted: Lean kernel; harness declaration extraction; Python decoder. quote(unquote(s)) and interpolation "
              "are covered by theorems on the model only.")
TECHNIQUE = "Lean 4 theorems over escape/unescape models + differential correspondence + independent decoder oracle"
