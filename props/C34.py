"""C34 — Global and module function forms agree."""
import glob
import os
import re
import subprocess
from tools import vlib
from tools.vlib import Case, Verdict, hx, unhx

ID = "C34"
DRIVER = "drv_C34"
THEOREM_MODS = ["RsassModel.Theorems.C34"]
LEVEL = "proof"
GEN_FILE = os.path.join(vlib.LEAN, "RsassModel", "Generated", "FnRegistry.lean")
DOC_FILE = os.path.join(vlib.LEAN, "RsassModel", "Glue", "FnDocPairs.lean")
RULE = ("T1: the registry of built-in function objects (7 modules, every global name found in the sources) is extracted "
        "from the running code each run and the theorems are re-checked against it. Cases: for EVERY documented "
        "global/module pair, argument tuples generated per parameter type (colors, numbers with units, lists, maps, "
        "strings incl. non-ASCII, selectors, indices, booleans, null; optional parameters present or absent), each "
        "evaluated in up to 8 forms: global/module x positional/named(shuffled)/mixed, and "
        "meta.call(meta.get-function(..)) for both names; plus a shadowed-name stratum: in scopes where an unqualified name "
        "is shadowed (`@use \"sass:<m>\" as *` for members colliding with a global of different meaning — string.length/"
        "index, selector.append, math.round/abs/max/min, color.grayscale — or a user @function of the same name) the direct "
        "call name(args) vs meta.call(meta.get-function(name), args), positional and named; results compared through meta.inspect; "
        "non-trivial = all forms returned a value")
TRUSTED = ["harness op fnreg/fnsame (uses Function::get_builtin, get_global_module, Scope::functions_map and `==`)",
           "candidate global names = every name!(..)/def!(..) identifier in rsass/src/sass/functions/**/*.rs",
           "the list of documented pairs and parameter names was transcribed by hand from the Sass documentation"]
ASSUMPTIONS = ["same function object => same result needs built-in bodies to be pure functions of (arguments, calling scope): "
               "that is C05's statement; unique-id()/random() are compared by shape only",
               "defaults of built-in formals are constants (modelled as already evaluated)"]

USES = "".join(f'@use "sass:{m}";' for m in ("color", "list", "map", "math", "meta", "selector", "string"))
PRELUDE = (USES + "$v: 1;@function uf($x){@return $x}@mixin um{}"
           "@function kwg($args...){@return keywords($args)}@function kwm($args...){@return meta.keywords($args)}")

# ---------------------------------------------------------------------------------------------
# documented pairs: (global, module, function, params, options)
# params: list of (name, type[, "?"]) in documented order; options: kw (keyword-only params), va (type of rest
# arguments, positional only), nondet, special
P = []


def pair(g, m, f, params=(), **opt):
    P.append({"g": g, "m": m, "f": f, "params": list(params), **opt})


COLOR_KW = [("red", "byte"), ("green", "byte"), ("blue", "byte"), ("hue", "deg"), ("saturation", "pct"),
            ("lightness", "pct"), ("alpha", "unit")]
pair("adjust-color", "color", "adjust", [("color", "color")], kw=COLOR_KW)
pair("alpha", "color", "alpha", [("color", "color")])
pair("opacity", "color", "opacity", [("color", "color")])
pair("blue", "color", "blue", [("color", "color")])
pair("change-color", "color", "change", [("color", "color")], kw=[("red", "ubyte"), ("green", "ubyte"), ("blue", "ubyte"),
                                                                 ("hue", "deg"), ("saturation", "upct"), ("lightness", "upct"),
                                                                 ("alpha", "uunit")])
pair("complement", "color", "complement", [("color", "color")])
pair("grayscale", "color", "grayscale", [("color", "color")])
pair("green", "color", "green", [("color", "color")])
pair("hue", "color", "hue", [("color", "color")])
pair("ie-hex-str", "color", "ie-hex-str", [("color", "color")])
pair("invert", "color", "invert", [("color", "color"), ("weight", "upct", "?")])
pair("lightness", "color", "lightness", [("color", "color")])
pair("mix", "color", "mix", [("color1", "color"), ("color2", "color"), ("weight", "upct", "?")])
pair("red", "color", "red", [("color", "color")])
pair("saturation", "color", "saturation", [("color", "color")])
pair("scale-color", "color", "scale", [("color", "color")], kw=[("red", "pct"), ("green", "pct"), ("blue", "pct"),
                                                               ("saturation", "pct"), ("lightness", "pct"), ("alpha", "pct")])
pair("append", "list", "append", [("list", "list"), ("val", "any"), ("separator", "sep", "?")])
pair("index", "list", "index", [("list", "list"), ("value", "any")])
pair("is-bracketed", "list", "is-bracketed", [("list", "list")])
pair("join", "list", "join", [("list1", "list"), ("list2", "list"), ("separator", "sep", "?"), ("bracketed", "brk", "?")])
pair("length", "list", "length", [("list", "list")])
pair("list-separator", "list", "separator", [("list", "list")])
pair("nth", "list", "nth", [("list", "list"), ("n", "idx")])
pair("set-nth", "list", "set-nth", [("list", "list"), ("n", "idx"), ("value", "any")])
pair("zip", "list", "zip", [], va="list")
pair("map-get", "map", "get", [("map", "map"), ("key", "key")], va="key", va_max=2)
pair("map-has-key", "map", "has-key", [("map", "map"), ("key", "key")], va="key", va_max=2)
pair("map-keys", "map", "keys", [("map", "map")])
pair("map-merge", "map", "merge", [("map1", "map"), ("map2", "map")])
pair("map-remove", "map", "remove", [("map", "map")], va="key", va_max=3)
pair("map-values", "map", "values", [("map", "map")])
pair("ceil", "math", "ceil", [("number", "num")])
pair("floor", "math", "floor", [("number", "num")])
pair("round", "math", "round", [("number", "num")])
pair("abs", "math", "abs", [("number", "num")])
pair("max", "math", "max", [], va="num", va_min=1)
pair("min", "math", "min", [], va="num", va_min=1)
pair("comparable", "math", "compatible", [("number1", "num"), ("number2", "num")])
pair("unitless", "math", "is-unitless", [("number", "num")])
pair("unit", "math", "unit", [("number", "num")])
pair("percentage", "math", "percentage", [("number", "plain")])
pair("random", "math", "random", [("limit", "limit", "?")], nondet="number")
pair("call", "meta", "call", [], special="call")
pair("content-exists", "meta", "content-exists", [], special="content")
pair("feature-exists", "meta", "feature-exists", [("feature", "feature")])
pair("function-exists", "meta", "function-exists", [("name", "fname"), ("module", "modname", "?")])
pair("get-function", "meta", "get-function", [("name", "fname"), ("css", "bool", "?"), ("module", "modname", "?")])
pair("global-variable-exists", "meta", "global-variable-exists", [("name", "vname"), ("module", "modname", "?")])
pair("inspect", "meta", "inspect", [("value", "any")])
pair("keywords", "meta", "keywords", [], special="keywords")
pair("mixin-exists", "meta", "mixin-exists", [("name", "mname"), ("module", "modname", "?")])
pair("type-of", "meta", "type-of", [("value", "any")])
pair("variable-exists", "meta", "variable-exists", [("name", "vname")])
pair("is-superselector", "selector", "is-superselector", [("super", "sel"), ("sub", "sel")])
pair("selector-append", "selector", "append", [], va="selsfx", va_min=1)
pair("selector-extend", "selector", "extend", [("selector", "sel"), ("extendee", "simplesel"), ("extender", "sel")])
pair("selector-nest", "selector", "nest", [], va="sel", va_min=1)
pair("selector-parse", "selector", "parse", [("selector", "sel")])
pair("selector-replace", "selector", "replace", [("selector", "sel"), ("original", "simplesel"), ("replacement", "sel")])
pair("selector-unify", "selector", "unify", [("selector1", "sel"), ("selector2", "sel")])
pair("simple-selectors", "selector", "simple-selectors", [("selector", "compound")])
pair("quote", "string", "quote", [("string", "str")])
pair("str-index", "string", "index", [("string", "str"), ("substring", "str")])
pair("str-insert", "string", "insert", [("string", "str"), ("insert", "str"), ("index", "idx")])
pair("str-length", "string", "length", [("string", "str")])
pair("str-slice", "string", "slice", [("string", "str"), ("start-at", "idx"), ("end-at", "idx", "?")])
pair("to-upper-case", "string", "to-upper-case", [("string", "str")])
pair("to-lower-case", "string", "to-lower-case", [("string", "str")])
pair("unique-id", "string", "unique-id", [], nondet="ident")
pair("unquote", "string", "unquote", [("string", "str")])

SEPARATELY_DEFINED = {("grayscale", "color", "grayscale"), ("invert", "color", "invert"),
                      ("round", "math", "round"), ("abs", "math", "abs"),
                      ("max", "math", "max"), ("min", "math", "min")}

# ---------------------------------------------------------------------------------------------
# value generators (SCSS text)


def g_num(r):
    k = r.random()
    if k < 0.3:
        v = str(r.randint(-20, 20))
    elif k < 0.7:
        v = f"{r.uniform(-50, 50):.{r.randint(1, 4)}f}"
    elif k < 0.85:
        v = r.choice(["0", "1", "-1", "0.5", "-0.5", "2.5", "-2.5", "1.5", "100", "0.0001"])
    else:
        v = str(r.randint(-10 ** 6, 10 ** 6))
    return v + r.choice(["", "", "", "px", "%", "em", "deg", "s", "in", "cm"])


def g_plain(r):
    return r.choice([str(r.randint(-5, 5)), f"{r.uniform(-3, 3):.3f}", "0.5", "1", "0", "0.333"])


def g_color(r):
    k = r.random()
    if k < 0.3:
        return r.choice(["red", "blue", "transparent", "rebeccapurple", "white", "black", "#abc", "#fff8"])
    if k < 0.6:
        return "#%06x" % r.getrandbits(24)
    if k < 0.75:
        return f"rgba({r.randint(0, 255)}, {r.randint(0, 255)}, {r.randint(0, 255)}, {r.choice(['0', '0.25', '0.5', '1'])})"
    if k < 0.9:
        return f"hsl({r.randint(0, 360)}deg, {r.randint(0, 100)}%, {r.randint(0, 100)}%)"
    return "#%08x" % r.getrandbits(32)


def g_str(r):
    return r.choice(['"abc"', "abc", '"hello world"', '""', '"héllo wörld"', '"a b c"', "x-y", '"ABC def"', '"日本語"',
                     '"a\\"b"', '"Straße"', "foo", '"1234567890"'])


def g_any(r):
    k = r.random()
    if k < 0.25:
        return g_num(r)
    if k < 0.45:
        return g_str(r)
    if k < 0.6:
        return g_color(r)
    if k < 0.75:
        return g_list(r)
    if k < 0.85:
        return g_map(r)
    return r.choice(["true", "false", "null", "b", "a"])


def g_list(r):
    k = r.random()
    items = [r.choice(["a", "b", "c", "1", "2px", '"s"', "red", "true", "null"]) for _ in range(r.randint(1, 4))]
    if k < 0.35:
        return "(" + " ".join(items) + ")"
    if k < 0.6:
        return "(" + ", ".join(items) + ("," if len(items) == 1 else "") + ")"
    if k < 0.75:
        return "[" + r.choice([" ", ", "]).join(items) + "]"
    if k < 0.85:
        return r.choice(["()", "[]", "a", "1px", "(a b, c d)", "((a b) (c d))"])
    return g_map(r)


def g_map(r):
    keys = r.sample(["a", "b", '"k"', "1", "c"], r.randint(0, 3))
    if not keys:
        return "()"
    return "(" + ", ".join(f"{k}: {r.choice(['1', '2px', 'x', '(p: q)', 'null', 'red'])}" for k in keys) + ")"


SELS = ['".a"', '".a .b"', '"a > b"', '".x, .y"', '"a.b"', '"#i"', '".a:hover"', '"a b c"', '"ul li"', '".a.b"', "c", '"d, e f"']
GEN = {
    "num": g_num, "plain": g_plain, "color": g_color, "str": g_str, "any": g_any, "list": g_list, "map": g_map,
    "byte": lambda r: str(r.randint(-255, 255)), "ubyte": lambda r: str(r.randint(0, 255)),
    "deg": lambda r: f"{r.randint(-360, 360)}deg", "pct": lambda r: f"{r.randint(-100, 100)}%",
    "upct": lambda r: f"{r.randint(0, 100)}%", "unit": lambda r: f"{r.uniform(-1, 1):.2f}",
    "uunit": lambda r: f"{r.uniform(0, 1):.2f}",
    "sep": lambda r: r.choice(["comma", "space", "slash", "auto", '"comma"']),
    "brk": lambda r: r.choice(["true", "false", "auto"]),
    "idx": lambda r: str(r.choice([1, 2, 3, -1, -2, 1, 2, 4, 0, 7, -5])),
    "key": lambda r: r.choice(["a", "b", '"k"', "1", "c", "nope", "p"]),
    "limit": lambda r: r.choice(["1", "1", "5", "100", "null"]),
    "feature": lambda r: r.choice(['"global-variable-shadowing"', '"extend-selector-pseudoclass"', '"at-error"', '"nope"',
                                   '"custom-property"', '"units-level-3"']),
    "fname": lambda r: r.choice(['"uf"', '"nth"', '"nope"', '"str-length"', '"percentage"', '"kwg"', '"rgb"']),
    "vname": lambda r: r.choice(['"v"', '"nope"', '"w"']),
    "mname": lambda r: r.choice(['"um"', '"nope"']),
    "modname": lambda r: r.choice(['"math"', '"list"', '"nope"', "null", '"string"']),
    "bool": lambda r: r.choice(["true", "false"]),
    "sel": lambda r: r.choice(SELS),
    "selsfx": lambda r: r.choice(['".a"', '"-x"', '":hover"', '".b, .c"', '"__e"', "c"]),
    "simplesel": lambda r: r.choice(['".a"', '"a"', '".b"', '"#i"', '".x"', "c"]),
    "compound": lambda r: r.choice(['".a.b"', '"a.b:hover"', '"#i.x"', '"a"', '".a"', '"a#i.c"']),
}


def src_of(expr, wrap=None):
    body = f"a{{b:meta.inspect({expr})}}"
    if isinstance(wrap, tuple):      # ("shadow", prelude): a scope in which a global name is shadowed
        return '@use "sass:meta";' + wrap[1] + body
    if wrap == "mixin-block":
        body = f"@mixin m{{{body}}}@include m{{c:d}}"
    elif wrap == "mixin-noblock":
        body = f"@mixin m{{{body}}}@include m;"
    return PRELUDE + body




def forms(p, r):
    """list of (label, expr) for one generated argument tuple of pair p"""
    g, m, f = p["g"], p["m"], p["f"]
    mf = f"{m}.{f}"
    sp = p.get("special")
    if sp == "call":
        tgt, args = r.choice([("nth", "(a b c), 2"), ("str-length", '"abcd"'), ("uf", "7"), ("percentage", "0.5"),
                              ("map-get", "(a: 1), a"), ("nope", "1, 2"), ("join", "(a b), (c d), $separator: comma")])
        fn_g = f'get-function("{tgt}")'
        fn_m = f'meta.get-function("{tgt}")'
        out = [("g-pos", f"call({fn_g}, {args})"), ("m-pos", f"meta.call({fn_m}, {args})"),
               ("g-x", f"call({fn_m}, {args})"), ("m-x", f"meta.call({fn_g}, {args})"),
               ("g-meta", f'meta.call(meta.get-function("call"), {fn_g}, {args})'),
               ("m-meta", f'meta.call(meta.get-function("call", $module: "meta"), {fn_m}, {args})')]
        return [(a, b, None) for a, b in out]
    if sp == "content":
        w = r.choice(["mixin-block", "mixin-noblock", None])
        return [("g-pos", "content-exists()", w), ("m-pos", "meta.content-exists()", w)]
    if sp == "keywords":
        kws = r.sample(["a", "b", "c-d", "e_f"], r.randint(0, 3))
        args = ", ".join([r.choice(["1", "x"]) for _ in range(r.randint(0, 2))] + [f"${k}: {GEN['any'](r)}" for k in kws])
        return [("g-pos", f"kwg({args})", None), ("m-pos", f"kwm({args})", None)]
    params = p["params"]
    req = [q for q in params if len(q) == 2]
    opt = [q for q in params if len(q) == 3]
    nopt = r.randint(0, len(opt))
    used = req + opt[:nopt]
    vals = [GEN[q[1]](r) for q in used]
    names = [q[0] for q in used]
    extra = []
    if "va" in p:
        extra = [GEN[p["va"]](r) for _ in range(r.randint(p.get("va_min", 0), p.get("va_max", 3)))]
    kw = []
    if "kw" in p:
        ks = r.sample(p["kw"], r.randint(0, 3))
        kw = [(k, GEN[t](r)) for k, t in ks]
    kwtxt = [f"${k}: {v}" for k, v in kw]
    pos = ", ".join(vals + extra + kwtxt)
    out = [("g-pos", f"{g}({pos})", None), ("m-pos", f"{mf}({pos})", None)]
    if not extra and (used or kw):
        named = [f"${n}: {v}" for n, v in zip(names, vals)] + kwtxt
        sh = named[:]
        r.shuffle(sh)
        out += [("g-named", f"{g}({', '.join(sh)})", None), ("m-named", f"{mf}({', '.join(sh)})", None)]
        if len(used) >= 2:
            j = r.randint(1, len(used) - 1)
            tail = named[j:]
            r.shuffle(tail)
            mixed = ", ".join(vals[:j] + tail)
            out += [("g-mixed", f"{g}({mixed})", None), ("m-mixed", f"{mf}({mixed})", None)]
    out += [("g-meta", f'meta.call(meta.get-function("{g}"){", " if pos else ""}{pos})', None),
            ("m-meta", f'meta.call(meta.get-function("{f}", $module: "{m}"){", " if pos else ""}{pos})', None)]
    return out


# scopes in which an unqualified name does NOT mean the global built-in: `@use "sass:<m>" as *` for module members that
# collide with a global name of different meaning, and user-defined functions named like a built-in.
# (global name, module, module function, prelude, params, va type)
SHADOWS = [
    ("length", "string", "length", '@use "sass:string" as *;', [("string", "str")], None),
    ("index", "string", "index", '@use "sass:string" as *;', [("string", "str"), ("substring", "str")], None),
    ("append", "selector", "append", '@use "sass:selector" as *;', [], "selsfx"),
    ("round", "math", "round", '@use "sass:math" as *;', [("number", "num")], None),
    ("abs", "math", "abs", '@use "sass:math" as *;', [("number", "num")], None),
    ("max", "math", "max", '@use "sass:math" as *;', [], "num"),
    ("min", "math", "min", '@use "sass:math" as *;', [], "num"),
    ("grayscale", "color", "grayscale", '@use "sass:color" as *;', [("color", "color")], None),
    ("length", "list", "length", "@function length($list){@return 42}", [("list", "list")], None),
    ("nth", "list", "nth", "@function nth($list, $n){@return $n}", [("list", "list"), ("n", "idx")], None),
    ("percentage", "math", "percentage", "@function percentage($number){@return $number}", [("number", "plain")], None),
    ("str-length", "string", "length", "@function str-length($string){@return 42}", [("string", "str")], None),
    ("map-get", "map", "get", "@function map-get($map, $key){@return $key}", [("map", "map"), ("key", "key")], None),
    ("length", "list", "length", '@use "sass:string" as *;@function length($x){@return 7}', [("x", "any")], None),
]


def shadow_forms(sh, r):
    g, _, _, pre, params, va = sh
    vals = [GEN[t](r) for _, t in params]
    extra = [GEN[va](r) for _ in range(r.randint(1, 3))] if va else []
    pos = ", ".join(vals + extra)
    w = ("shadow", pre)
    out = [("s-direct-pos", f"{g}({pos})", w), ("s-call-pos", f'meta.call(meta.get-function("{g}"), {pos})', w)]
    if params and not va:
        named = [f"${n}: {v}" for (n, _), v in zip(params, vals)]
        r.shuffle(named)
        nm = ", ".join(named)
        out += [("s-direct-named", f"{g}({nm})", w), ("s-call-named", f'meta.call(meta.get-function("{g}"), {nm})', w)]
    return out


def gen(tier, rng, boost=1):
    for sh in SHADOWS:
        for _ in range((12 if tier == "quick" else 150) * boost):
            fs = shadow_forms(sh, rng)
            line = "\t".join(["forms", sh[0], sh[1], sh[2]] + [hx(src_of(e, w)) for _, e, w in fs])
            yield Case(line, "shadowed-name", {"pair": f"{sh[0]} shadowed by {sh[3][:40]}", "forms": [a for a, _, _ in fs],
                                               "exprs": [e for _, e, _ in fs]})
    per = (60 if tier == "quick" else 1200) * boost
    for p in P:
        for _ in range(per if not p.get("special") else max(6, per // 2)):
            fs = forms(p, rng)
            line = "\t".join(["forms", p["g"], p["m"], p["f"]] + [hx(src_of(e, w)) for _, e, w in fs])
            yield Case(line, p["m"], {"pair": f"{p['g']} / {p['m']}.{p['f']}", "forms": [a for a, _, _ in fs],
                                       "exprs": [e for _, e, _ in fs], "nondet": p.get("nondet")})


IDENT = re.compile(r"-?[A-Za-z_][-A-Za-z0-9_]*\Z")


def value_of(res):
    """ok:<hex css> -> the inspected text; else None"""
    if not res.startswith("ok:"):
        return None
    css = unhx(res[3:])
    m = re.search(r"b: (.*);\n\}", css, re.S)
    return m.group(1) if m else css


def judge(case, impl, asis, spec):
    parts = impl.split("\t")
    if impl.startswith(("panic:", "abort:")) or len(parts) < 2:
        return Verdict(True, "crash: " + impl[:80])
    corr = asis is None or parts[0] == asis
    res = parts[1:]
    fld = case.lines[0].split("\t")
    case.note.setdefault("pair", f"{fld[1]} / {fld[2]}.{fld[3]}")
    labels = case.note.get("forms") or [("g-" if i % 2 == 0 else "m-") + str(i // 2) for i in range(len(res))]
    case.note["split"] = None
    if any(x.startswith(("panic:", "abort:")) for x in res):
        bad = [l for l, x in zip(labels, res) if x.startswith(("panic:", "abort:"))]
        return Verdict(corr, f"crash in form(s) {bad}")
    oks = [x.startswith("ok:") for x in res]
    if any(oks) and not all(oks):
        bad = [l for l, o in zip(labels, oks) if not o]
        good = [l for l, o in zip(labels, oks) if o]
        if all(l.startswith("m-") for l in bad) and all(l.startswith("g-") for l in good):
            case.note["split"] = "global-vs-module"
            errs = [unhx(x[4:]) for x, o in zip(res, oks) if not o]
            kept = [value_of(x) or "" for x, o in zip(res, oks) if o]
            case.note["minmax_fallback"] = all("ncompatible" in e for e in errs) and \
                all(k.startswith((fld[1] + "(")) for k in kept)
        return Verdict(corr, f"{case.note['pair']}: forms {bad} fail while {good} succeed")
    if not any(oks):
        return Verdict(corr, None)
    vals = [value_of(x) for x in res]
    nd = case.note.get("nondet")
    if nd == "ident":
        badv = [v for v in vals if not IDENT.match(v or "")]
        return Verdict(corr, f"unique-id forms returned a non-identifier {badv[:1]}" if badv else None)
    if nd == "number":
        badv = [v for v in vals if not re.fullmatch(r"-?[0-9]*\.?[0-9]+", v or "")]
        return Verdict(corr, f"random forms returned a non-number {badv[:1]}" if badv else None)
    if len(set(vals)) > 1:
        groups = {}
        for l, v in zip(labels, vals):
            groups.setdefault(v, []).append(l)
        if len(groups) == 2 and all(len({l[:2] for l in ls}) == 1 for ls in groups.values()):
            case.note["split"] = "global-vs-module"
        return Verdict(corr, f"{case.note['pair']}: forms disagree: " + "; ".join(f"{ls} -> {v!r}" for v, ls in list(groups.items())[:3]))
    return Verdict(corr, None)


# known findings of impl-vs-impl kind: deviation flag -> global name of the pair it concerns
FINDING_PAIRS = {"grayscaleGlobalRgbFormat": ["grayscale"], "minMaxCssFallback": ["max", "min"]}


def explained(case, r, live):
    """a failure is explained only if a live finding names this pair and the disagreement is exactly
    global forms vs module forms (all spellings of each name still agree among themselves)"""
    g = case.lines[0].split("\t")[1]
    flags = {fl for f in live for fl in f.get("flags", [])}
    if not r["v"].corr_ok or case.note.get("split") != "global-vs-module":
        return False
    why = r["v"].fails or ""
    if "grayscaleGlobalRgbFormat" in flags and g == "grayscale" and "forms disagree" in why:
        return True
    # min/max: only "every module form fails with an incompatible-units error while every global form is kept as css"
    if "minMaxCssFallback" in flags and g in ("max", "min") and case.note.get("minmax_fallback"):
        return True
    return False


def nontrivial(case, impl, spec):
    return all(x.startswith("ok:") for x in impl.split("\t")[1:])


# ---------------------------------------------------------------------------------------------
# T1 extraction


def candidates():
    names = set()
    for f in glob.glob(os.path.join(vlib.REPO, "rsass/src/sass/functions/**/*.rs"), recursive=True):
        s = open(f).read()
        names |= set(re.findall(r"name!\(\s*([A-Za-z0-9_]+)\s*\)", s))
        names |= set(re.findall(r"def(?:_va)?!\(\s*\w+\s*,\s*([A-Za-z0-9_]+)\s*\(", s))
    names |= {p["g"].replace("-", "_") for p in P}
    return sorted(n.replace("_", "-") for n in names)


def chars(s):
    return "[" + ",".join("'" + ("\\'" if c == "'" else c) + "'" for c in s) + "]"


def read_registry(ctx):
    out = ctx.impl(["fnreg\t" + ",".join(candidates())])[0]
    if not out.startswith("mods="):
        raise vlib.InfraError("fnreg extraction failed: " + out[:200])
    mods_t, globs_t = out.split("\t")
    mods = {}
    for part in mods_t[5:].split(";"):
        m, fs = part.split(":", 1)
        mods[m] = [x for x in fs.split(",") if x]
    globs = {}
    for part in globs_t[8:].split(","):
        if part:
            g, same = part.split("=", 1)
            globs[g] = [tuple(x.split(".", 1)) for x in same.split("|") if x]
    return mods, globs


def table_of(mods, globs):
    """ids: identical objects share an id"""
    ids, nxt = {}, 1
    for m in sorted(mods):
        for f in mods[m]:
            ids[(m, f)] = nxt
            nxt += 1
    # a global identical to several module functions merges their ids
    for g, same in globs.items():
        for mf in same[1:]:
            old, new = ids[mf], ids[same[0]]
            for k in ids:
                if ids[k] == old:
                    ids[k] = new
    gids = {}
    for g in sorted(globs):
        if globs[g]:
            gids[g] = ids[globs[g][0]]
        else:
            gids[g] = nxt
            nxt += 1
    return ids, gids


def extract(ctx):
    mods, globs = read_registry(ctx)
    ids, gids = table_of(mods, globs)
    ctx.log["registry"] = {"modules": {m: len(v) for m, v in mods.items()}, "globals": len(globs),
                           "shared_globals": sum(1 for g in globs if globs[g])}
    ctx.registry = (mods, globs)
    out = ["/- GENERATED by props/C34.py `extract` from the running code (harness op `fnreg`): every built-in",
           "   function object of the seven `sass:` modules and every global name; identical objects",
           "   (`Function ==`, i.e. `Arc::ptr_eq` of the body + equal formals/position) share an id.  Do not edit. -/",
           "import RsassModel.Glue.FnRegistry", "namespace Generated.FnRegistry", "open Glue.FnReg", "",
           "def table : IdTable := {", "  globals := ["]
    out.append(",\n".join(f"    ({chars(g)}, {gids[g]})" for g in sorted(gids)))
    out += ["  ],", "  modules := ["]
    ml = []
    for m in sorted(mods):
        ml.append(f"    ({chars(m)}, [\n" + ",\n".join(f"      ({chars(f)}, {ids[(m, f)]})" for f in mods[m]) + "])")
    out.append(",\n".join(ml))
    out += ["  ] }", "", "end Generated.FnRegistry", ""]
    text = "\n".join(out)
    os.makedirs(os.path.dirname(GEN_FILE), exist_ok=True)
    if not os.path.exists(GEN_FILE) or open(GEN_FILE).read() != text:
        open(GEN_FILE, "w").write(text)


def unshared(ctx):
    mods, globs = getattr(ctx, "registry", None) or read_registry(ctx)
    probs = []
    for p in P:
        key = (p["g"], p["m"], p["f"])
        exists = p["g"] in globs and p["f"] in mods.get(p["m"], [])
        shared = exists and (p["m"], p["f"]) in globs[p["g"]]
        if key in SEPARATELY_DEFINED:
            if not exists or shared:
                probs.append(f"exception list not tight: {p['g']} / {p['m']}.{p['f']} is " + ("shared now" if shared else "missing"))
        elif not shared:
            probs.append(f"documented pair {p['g']} / {p['m']}.{p['f']} is " +
                         ("no longer one function object (separately defined)" if exists else "missing in the registry"))
    return probs


def on_broken_build(ctx, out):
    probs = unshared(ctx)
    broken = [f"theorem documented_pairs_shared / separately_defined_tight no longer checks: {x}" for x in probs]
    if not broken:
        broken = ["lake build of RsassModel.Theorems.C34 failed: " + out[-600:]]
    # the driver only needs the generated table; make sure it is there for the search
    subprocess.run(["lake", "build", DRIVER], cwd=vlib.LEAN, stdout=subprocess.DEVNULL, stderr=subprocess.DEVNULL)
    return broken


def static_checks(ctx):
    """the committed Lean list of documented pairs is the list this module generates cases for"""
    src = vlib.strip_comments(open(DOC_FILE).read())

    def parse(block):
        res = []
        for m in re.finditer(r"⟨\[([^\]]*)\],\s*\[([^\]]*)\],\s*\[([^\]]*)\]⟩", block):
            res.append(tuple("".join(re.findall(r"'(.)'", x)) for x in m.groups()))
        return res
    a = src.index("def documentedPairs")
    b = src.index("def separatelyDefined")
    c = src.index("def docPairsOk")
    doc, sep = parse(src[a:b]), parse(src[b:c])
    probs = []
    if doc != [(p["g"], p["m"], p["f"]) for p in P]:
        probs.append("Glue/FnDocPairs.lean documentedPairs differs from props/C34.py P")
    if set(sep) != SEPARATELY_DEFINED:
        probs.append("Glue/FnDocPairs.lean separatelyDefined differs from props/C34.py SEPARATELY_DEFINED")
    return probs


def extra_coverage(ctx, res):
    return {"registry": ctx.log.get("registry"), "documented_pairs": len(P), "separately_defined": sorted(map(list, SEPARATELY_DEFINED))}


LEVEL_TEXT = ("Proof (Lean 4): the table of built-in function objects is extracted from the running code every run "
              "(Function::get_builtin vs the module's function, compared with rsass's own `==` = Arc::ptr_eq) and the kernel "
              "re-checks `documented_pairs_shared` (each of the 70 documented global/module pairs is one shared object, "
              "except 4 listed, justified, separately defined ones, and that list is tight); on a model of call dispatch: "
              "same object => same result for all arguments and calling scopes, positional = named = mixed argument passing "
              "for every formal list and every split point (model of FormalArgs::eval), meta.call(meta.get-function(..)) = "
              "direct call. Every pair (incl. the 4 separately defined) is compared impl-vs-impl on generated argument tuples "
              "in up to 8 forms.")
LEVEL_NOTE = ("Trusted: Lean kernel; the extractor op; the hand transcription of the documented pairs/parameter names. For "
              "grayscale, invert, round, abs (separate global definitions) agreement rests on the generated cases only. "
              "Invariance under permutation of named arguments is exercised by the cases, not proved.")
TECHNIQUE = "T1 table extraction + kernel-decided table theorem + dispatch/binding model theorems + impl-vs-impl differential"
