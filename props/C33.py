"""C33 — Emitted color text denotes the computed color."""
import re
from fractions import Fraction as F
from tools.vlib import Case, Verdict, unhx
from props import _color as C
from props import C31

ID = "C33"
DRIVER = "drv_C33"
THEOREM_MODS = ["RsassModel.Theorems.C33"]
LEVEL = "proof"
RULE = ("cfmt: a colour expression — every constructor of C31 (hex 3/4/6/8 digits, all CSS names, rgb()/rgba(), "
        "hsl()/hsla(), hwb(), rgba($c,$a)) or an adjustment function of C32 applied to one (complement, grayscale, "
        "invert, adjust-hue, lighten, darken, saturate, desaturate, opacify, transparentize, mix, adjust-color, "
        "scale-color, change-color), nested up to depth 2 — printed through a declaration in expanded or "
        "compressed style at precision 10/5/3/1; the emitted token is decoded by an independent CSS colour parser "
        "(names via the committed CSS list) and compared with the colour's own channel reports; every byte colour "
        "that has a name is printed in both styles.  Non-trivial = the expression is not a literal (literals are "
        "echoed as written) and compiles.")
TRUSTED = ["python CSS colour-token parser and Fraction hsl<->rgb (props/_color.py)",
           "C10 number formatter model prints the numbers inside rgb()/rgba()/hsl()/hsla()",
           "Lean Float = IEEE f64 (validated by exact text agreement)",
           "extraction harness op `colornames` (enumerates all 2^24 byte colours through Rgba::name)"]
ASSUMPTIONS = ["names accepted by Rgba::from_name outside the probed list (CSS names + near misses) cannot be enumerated "
               "through the public API; every name the code can EMIT is enumerated exhaustively",
               "a colour whose channels are within 1e-7 of bytes is printed as those bytes (rsass's own equality "
               "tolerance); decoding is compared with tolerance 1e-7 + half a unit of the printed precision",
               "red()/green()/blue() report rounded channels: the rgb reading of the text is required to round to them, "
               "and to reproduce the unrounded hue/saturation/lightness reports where those are well conditioned",
               "hsl() text with saturation/lightness outside 0..100% is accepted under the CSS Color 3 reading "
               "(clipped first) or the CSS Color 4 reading (converted, then clipped)"]
ALWAYS_QUIRKS = []          # set per run by extract(): the live deviation flags of C31/C32


def extract(ctx):
    global ALWAYS_QUIRKS
    C.extract_names(ctx)
    ALWAYS_QUIRKS = C.live_color_flags(ctx, ["C31", "C32"])


def on_broken_build(ctx, out):
    """B3 failed after regenerating the table: name the table theorem and the entries that changed"""
    cssn = C.css_names()
    n2v, v2n, special = C.extract_names(ctx)
    bad = []
    for n, v in sorted(n2v.items()):
        if cssn.get(n) != v:
            bad.append(f"from_name({n}) = #{v:06x}, CSS says {('#%06x' % cssn[n]) if n in cssn else 'no such colour'}")
    for n, v in sorted(cssn.items()):
        if n not in n2v:
            bad.append(f"CSS colour {n} is not accepted by from_name")
    for v, n in sorted(v2n.items()):
        if cssn.get(n) != v:
            bad.append(f"#{v:06x} is emitted as `{n}`, which CSS defines as {('#%06x' % cssn[n]) if n in cssn else 'nothing'}")
    if bad:
        return ["theorem colorNames_match_css fails on the table extracted from the running code: " + "; ".join(bad[:8])]
    return ["lake build of the C33 theorems failed: " + out[-500:].replace("\n", " ")]


def changed_name_cases():
    """cases for every table entry that disagrees with CSS (used by gen when the table theorem is broken)"""
    cssn = C.css_names()
    try:
        src = open(C.GEN).read()
    except OSError:
        return []
    out = []
    for m in re.finditer(r"\(0x([0-9a-f]{6}), \[((?:'[a-z0-9]',?)+)\]\)", src):
        v, n = int(m.group(1), 16), m.group(2).replace("'", "").replace(",", "")
        if cssn.get(n) != v:
            t = ("rgba2", ("hex", "%06x" % v), (1.0, "n"))
            out += [Case("cfmt\t%s\t10\t%s" % (st, C.enc(t)), "table-diff") for st in "ec"]
    for m in re.finditer(r"\(\[((?:'[a-z0-9]',?)+)\], 0x([0-9a-f]{6})\)", src.split("def v2n")[0]):
        n, v = m.group(1).replace("'", "").replace(",", ""), int(m.group(2), 16)
        if cssn.get(n) != v:
            t = ("rgba2", ("name", n), (1.0, "n"))
            out += [Case("cfmt\t%s\t10\t%s" % (st, C.enc(t)), "table-diff") for st in "ec"]
    return out


# ------------------------------------------------------------------------------------------ generator

def amt(rng):
    return (C31.num(rng, 0, 100) if rng.random() < .7 else float(rng.choice([0, 100, 50, 10])), rng.choice("pn"))


def fnterm(rng, names, depth=0):
    base = C31.ctor(rng, names) if depth > 0 or rng.random() < .8 else fnterm(rng, names, depth + 1)
    k = rng.randrange(14)
    p = lambda lo=-100, hi=100: (C31.num(rng, lo, hi), "p")
    if k == 0:
        return ("call", "complement", base, [])
    if k == 1:
        return ("call", "grayscale", base, [])
    if k == 2:
        return ("call", "invert", base, [] if rng.random() < .5 else [(None, amt(rng))])
    if k == 3:
        return ("call", "adjust-hue", base, [(None, (C31.hue(rng), rng.choice("nd")))])
    if k in (4, 5, 6, 7):
        return ("call", ["lighten", "darken", "saturate", "desaturate"][k - 4], base, [(None, amt(rng))])
    if k in (8, 9):
        return ("call", rng.choice(["opacify", "fade-in", "transparentize", "fade-out"]), base,
                [(None, (round(rng.random(), 3), "n"))])
    if k == 10:
        return ("mix", base, C31.ctor(rng, names), None if rng.random() < .3 else amt(rng))
    sp = rng.choice(["rgb", "hsl", "hwb"])
    if k == 11:
        if sp == "rgb":
            ks = [("red", (C31.num(rng, -255, 255), "n")), ("green", (C31.num(rng, -255, 255), "n")), ("blue", p())]
        elif sp == "hsl":
            ks = [("hue", (C31.hue(rng), rng.choice("nd"))), ("saturation", p()), ("lightness", p())]
        else:
            ks = [("hue", (C31.hue(rng), "d")), ("whiteness", p()), ("blackness", p())]
        al, f = ("alpha", (round(rng.uniform(-1, 1), 3), "n")), "adjust-color"
    elif k == 12:
        if sp == "rgb":
            ks = [("red", p()), ("green", p()), ("blue", p())]
        elif sp == "hsl":
            ks = [("saturation", p()), ("lightness", p())]
        else:
            ks = [("whiteness", p()), ("blackness", p())]
        al, f = ("alpha", p()), "scale-color"
    else:
        if sp == "rgb":
            ks = [("red", (C31.num(rng, 0, 255), "n")), ("green", (C31.num(rng, 0, 255), "n")), ("blue", p(0, 100))]
        elif sp == "hsl":
            ks = [("hue", (C31.hue(rng), rng.choice("nd"))), ("saturation", p(0, 100)), ("lightness", p(0, 100))]
        else:
            ks = [("hue", (C31.hue(rng), "d")), ("whiteness", p(0, 100)), ("blackness", p(0, 100))]
        al, f = ("alpha", (round(rng.random(), 3), "n")), "change-color"
    ks = [x for x in ks if rng.random() < .6]
    if rng.random() < .4:
        ks.append(al)
    rng.shuffle(ks)
    return ("call", f, base, ks)


def gen(tier, rng, boost=1):
    cssn = C.css_names()
    names = sorted(cssn) + ["transparent"]
    yield from changed_name_cases()
    # every named colour as a computed value (not a literal), both styles; and as literal
    for n in names:
        t = ("rgba2", ("name", n), (1.0, "n")) if n != "transparent" else ("rgba2", ("hex", "000"), (0.0, "n"))
        for st in "ec":
            yield Case("cfmt\t%s\t10\t%s" % (st, C.enc(t)), "named-value", {"scss": C.show(t)})
        yield Case("cfmt\t%s\t10\t%s" % (rng.choice("ec"), C.enc(("name", C31.randcase(rng, n)))), "literal")
    # near-bytes and short-hex boundaries
    for v in (0.0, 255.0, 17.0, 16.0, 254.9999999, 255.0000001, 17.00000005, 16.9999999, 127.5, 0.00000001):
        for src in ("rgb", "hsl"):
            t = ("rgb", (v, "n"), (17.0, "n"), (34.0, "n"), None)
            if src == "hsl":
                t = ("call", "adjust-color", t, [("red", (0.0, "n"))])
            for st in "ec":
                yield Case("cfmt\t%s\t10\t%s" % (st, C.enc(t)), "near-byte", {"scss": C.show(t)})
    n = (2500 if tier == "quick" else 60000) * boost
    for i in range(n):
        k = rng.random()
        if k < 0.55:
            t, s = fnterm(rng, names), "fn"
        elif k < 0.9:
            t, s = C31.ctor(rng, names), "ctor"
        else:
            # byte colours: names / short hex / long hex selection
            v = rng.choice(list(cssn.values())) if rng.random() < .5 else rng.choice([0x112233, 0xaabbcc, 0xffffff, 0, 0x123456, 0xfe0000, 0xff0001])
            v ^= rng.choice([0, 0, 0, 1, 0x100, 0x10000])
            t, s = ("rgba2", ("hex", "%06x" % v), (1.0, "n")), "bytes"
            if rng.random() < .3:
                t = ("rgb", (float(v >> 16), "n"), (float((v >> 8) & 255), "n"), (float(v & 255), "n"), None)
        s += "-" + (t[1] if t[0] == "call" else t[0]).rstrip("sa2c") if s in ("fn", "ctor") else ""
        yield Case("cfmt\t%s\t%d\t%s" % (rng.choice("ec"), rng.choice([10, 10, 10, 5, 3, 1]), C.enc(t)), s, {"scss": C.show(t)})


# ------------------------------------------------------------------------------------------ judging

def judge(case, impl, asis, spec):
    f = case.lines[0].split("\t")
    if impl.startswith(("panic:", "abort:")):
        return Verdict(False, "crash: " + impl[:60])
    if impl.startswith("err:"):
        return Verdict(asis == "err", None)
    parts = impl[3:].split("|")
    text = unhx(parts[0])
    corr = asis == "ok:" + parts[0]
    prec = int(f[2])
    reads = C.parse_css_color(text)
    if not reads:
        return Verdict(corr, "emitted colour text is not a CSS colour token: " + text[:60])
    rep = [C.dec(x) for x in parts[1:10]]
    if any(x is None for x in rep):
        return Verdict(corr, None)     # non-finite channel: outside the statement (no colour to denote)
    red, green, blue, hue, sat, lig, _, _, alpha = rep
    unit = F(1, 2) / 10 ** prec                 # half a unit of the last printed place
    eps = F(1, 10 ** 7)                         # the code's own byte / equality tolerance
    why = None
    hm = re.fullmatch(r"hsla?\(\s*([^,]+),\s*([^,%]+)%,\s*([^,%]+)%(?:,\s*([^)]+))?\)", text.strip().lower())
    if hm:
        # functional hsl notation: its three numbers are directly the colour's hue/saturation/lightness reports
        th, ts, tl = C.dec(hm.group(1).strip()), C.dec(hm.group(2).strip()), C.dec(hm.group(3).strip())
        if None in (th, ts, tl):
            return Verdict(corr, "hsl() arguments are not plain numbers: " + text[:60])
        dh = abs(th - hue) % 360
        if min(dh, 360 - dh) > unit + eps:
            why = f"text says hue {hm.group(1)} but hue() = {float(hue):.10g}"
        elif abs(ts - sat) > unit + eps * max(1, abs(sat)):
            why = f"text says saturation {hm.group(2)}% but saturation() = {float(sat):.10g}%"
        elif abs(tl - lig) > unit + eps:
            why = f"text says lightness {hm.group(3)}% but lightness() = {float(lig):.10g}%"
        rgb_tol = F(1, 2) + 12 * 2 * unit + eps   # 255 * (dl*2 + ds + dh/60) / 100, doubled
    else:
        rgb_tol = F(1, 2) + unit + eps
    for r, g, b, a in ([] if why else reads):
        why = None
        if abs(a - alpha) > unit + eps:
            why = f"alpha of the text ({float(a):.10g}) differs from alpha() = {float(alpha):.10g}"
        elif 0 <= sat <= 100 and 0 <= lig <= 100 and any(abs(x - y) > rgb_tol for x, y in ((r, red), (g, green), (b, blue))):
            why = (f"text denotes rgb({float(r):.8g}, {float(g):.8g}, {float(b):.8g}) but the colour reports "
                   f"rgb({red}, {green}, {blue})")
        elif not hm:
            # rgb-type notation: cross-check at full precision through the unrounded hsl reports, where well conditioned
            d = max(r, g, b) - min(r, g, b)
            tie = "maxTieRedGreen" in ALWAYS_QUIRKS and abs(r - g) < F(1, 1000) and r > b
            if d >= 10 and 0 <= sat <= 100 and 0 <= lig <= 100 and not tie:
                h2, s2, l2 = C.rgb_to_hsl(r / 255, g / 255, b / 255)
                t2 = (unit + eps) * 4 / d
                dh = abs(h2 - hue) % 360
                denom = 1 - abs(2 * l2 - 1)
                if min(dh, 360 - dh) > 60 * t2 + F(1, 10 ** 6):
                    why = f"text denotes hue {float(h2):.8g} but hue() = {float(hue):.8g}"
                elif abs(l2 * 100 - lig) > 100 * (unit + eps) / 255 * 2 + F(1, 10 ** 6):
                    why = f"text denotes lightness {float(l2 * 100):.8g}% but lightness() = {float(lig):.8g}%"
                elif denom > F(1, 20) and abs(s2 * 100 - sat) > 100 * t2 / denom + F(1, 10 ** 6):
                    why = f"text denotes saturation {float(s2 * 100):.8g}% but saturation() = {float(sat):.8g}%"
        if why is None:
            break
    return Verdict(corr, why)


def nontrivial(case, impl, spec):
    f = case.lines[0].split("\t")
    return impl.startswith("ok:") and not f[3].startswith(("hex ", "name "))


LEVEL_TEXT = ("Proof (Lean 4): the colour-name table extracted from the running code on every run equals the CSS "
              "named-colour list in both directions and every name the code can emit denotes the byte colour it is "
              "emitted for (`decide +kernel` over the complete table); hex and short-hex texts read back to the bytes "
              "for all bytes; the notation chosen by the printers (name / hex / short hex / rgb() / rgba() / hsl() / "
              "hsla() / transparent, per style) decodes to the colour's rgba within the code's 1e-7 byte tolerance, "
              "for every colour.  Tied to the code by exact text agreement with the Float-instantiated model and an "
              "independent CSS colour parser applied to the emitted token.")
LEVEL_NOTE = ("Trusted: Lean kernel; Float = f64; the C10 formatter model for the digits inside functional notations "
              "(number rounding itself is C10's statement); Python CSS parser; table extraction op.")
TECHNIQUE = "Lean 4 theorems over the printer model + T1 table extraction (decide +kernel) + differential text correspondence"
