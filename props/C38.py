"""C38 — Library entry points agree with each other."""
import os
import re
from tools import vlib
from tools.vlib import Case, Verdict, hx, unhx
from props import scssgen

ID = "C38"
DRIVER = "drv_C38"
THEOREM_MODS = ["RsassModel.Theorems.C38"]
LEVEL = "proof"
RULE = ("c38s cases = generated SCSS programs (variables, rules, mixins, functions, control flow, @media, comments; "
        "plus strata with failing sources, non-ASCII text, plain-CSS imports and loads of non-existent files), each run "
        "through compile_scss, FsContext::for_cwd().with_format().transform(scss_bytes(.., root('-'))) and "
        "compile_scss_path on a scratch file, style e/c, precision 0..12; c38v cases = generated closed value "
        "expressions (numbers/units/arithmetic, strings with escapes and interpolation, colours, lists, calls, special "
        "forms, null, maps, newline-bearing texts) through compile_value and through the declaration x { y: v }; "
        "non-trivial = all entry points succeed with non-empty output / the value is valid CSS and printed")
TRUSTED = ["the composition model of lib.rs is tied to the source text by the T3 guard in static_checks (normalised "
           "bodies of compile_value / compile_scss / compile_scss_path)",
           "Python comparison of the entry points' returned bytes (impl-vs-impl)"]
ASSUMPTIONS = ["parser, evaluator, value formatter and file system are parameters of the model (World); the theorems hold "
               "for every World",
               "the declaration `x { y: v }` evaluates v exactly as compile_value does (same parser value_expression, "
               "same Value::evaluate, global scope vs. rule scope differ only for `&`, which is not generated)",
               "error texts are not compared between compile_scss_path and compile_scss (they name the source file)",
               "phase 1 of the value generator asks the implementation for the formatted text of each value; the model "
               "then predicts both the compile_value result and the complete declaration document from that text"]
EXTRA_OBLIGATIONS = ["T3 lib.rs compile_value body", "T3 lib.rs compile_scss body", "T3 lib.rs compile_scss_path body"]
CASE_TIMEOUT = 60

# ---------------------------------------------------------------------------- T3 guard
_CV_HEAD = "pubfncompile_value(input:&[u8],format:Format)->Result<Vec<u8>,Error>{" \
           "letscope=ScopeRef::new_global(format);letvalue=parse_value_data(input)?.evaluate(scope)?;"
# the two bodies of compile_value the model knows: the repaired one (spec: `replNl` applied, fix 605a7fd) and the
# earlier one, which is the as-is model under the deviation flag of finding C38-value-newline
# (all whitespace is removed by the normalisation, also the blank inside the string literal `" "`; that the
# replacement text is one blank is what the byte-exact correspondence of the `c38v` cases checks)
COMPILE_VALUE_SPEC = _CV_HEAD + r"""Ok(value.format(format).to_string().replace('\n',"").into_bytes())}"""
COMPILE_VALUE_OLD = _CV_HEAD + "Ok(value.format(format).to_string().into_bytes())}"
EXPECTED_BODIES = {
    "compile_value": COMPILE_VALUE_SPEC,
    "compile_scss":
        "pubfncompile_scss(input:&[u8],format:Format)->Result<Vec<u8>,Error>{"
        "FsContext::for_cwd().with_format(format).transform("
        "input::SourceFile::scss_bytes(input,SourceName::root(\"-\")))}",
    "compile_scss_path":
        "pubfncompile_scss_path(path:&Path,format:Format)->Result<Vec<u8>,Error>{"
        "let(context,source)=FsContext::for_path(path)?;"
        "context.with_format(format).transform(source)}",
}


def _strip_rust_comments(src):
    out = []
    for line in src.split("\n"):
        s = line.strip()
        if s.startswith("//"):
            continue
        # a trailing line comment (none of the guarded bodies has `//` inside a string)
        m = re.search(r"\s//(?!/)", line)
        if m and '"' not in line[m.start():]:
            line = line[:m.start()]
        out.append(line)
    src = "\n".join(out)
    return re.sub(r"/\*.*?\*/", "", src, flags=re.S)


def extract_fn(src, name):
    """normalised text of `pub fn name ... { body }` (comments and all whitespace removed)"""
    src = _strip_rust_comments(src)
    m = re.search(r"pub\s+fn\s+" + re.escape(name) + r"\s*\(", src)
    if not m:
        return None
    i = src.index("{", m.end())
    depth, j = 0, i
    while j < len(src):
        if src[j] == "{":
            depth += 1
        elif src[j] == "}":
            depth -= 1
            if depth == 0:
                break
        j += 1
    text = re.sub(r"\s+", "", src[m.start():j + 1])
    return text.replace(",)", ")")


def static_checks(ctx):
    path = os.path.join(vlib.REPO, "rsass", "src", "lib.rs")
    try:
        src = open(path).read()
    except OSError as e:
        return [f"cannot read {path}: {e}"]
    problems = []
    newline_open = any(f.get("id") == "C38-value-newline" and f.get("status") == "open" for f in vlib.load_findings(ID))
    for name, want in EXPECTED_BODIES.items():
        got = extract_fn(src, name)
        if name == "compile_value" and got == COMPILE_VALUE_OLD and newline_open:
            continue    # the body of the as-is model; the witness replay switches the deviation flag on
        if got != want:
            problems.append(f"lib.rs `{name}` is no longer the composition the model assumes: {got!r}")
    return problems


# ---------------------------------------------------------------------------- generators
NEWLINE_VALUES = ['unquote("a\\a b")', 'unquote("x\\a")', 'unquote("\\a y")', 'a unquote("b\\a c") d',
                  'unquote("l1\\a l2\\a l3")', 'foo(unquote("p\\a q"))', 'unquote("a\\a b"), c',
                  '#{"i\\a j"}', 'w-#{"k\\a l"}', 'unquote("a\\d b")', 'unquote("a\\c b")']
SPECIAL_VALUES = ['null', '()', '(null null)', 'a null b', '(a: b)', '(a: 1, b: 2)', '1px*1px', '1px*1em', '1/2', '1px/2px',
                  '10px + 4px', '10px 4px', '!important', 'a !important', 'url(a/b.png)', 'url("a b")', 'calc(1px + 2%)',
                  'calc(100% - #{10px})', 'var(--x)', 'var(--x, 1px)', '"é"', 'é', '"\\e9"', '\\e9', '"\\""', "'\\''",
                  '"a\\a b"', '"tab\\9"', '"\\\\"', 'a\\ b', '#{1 + 1}', 'a#{1 + 1}b', '"q#{1 + 1}r"', '[a b]', '[a, b]',
                  '[]', '(a,)', '(a b,)', 'a,b,c', '(a, b) (c, d)', 'true', 'false', 'not true', 'true and false',
                  '1 == 1', '1 < 2', '-1', '+1', '- 1', '-a', '+a', 'a - b', 'a -b', 'a-b', '1 - 1', '1 -1', '1-1',
                  '10%', '1e3', '1E-2', '.5', '0.0', '-0', '1.', '1.0px', '1000000000000', '0.00000000001',
                  '1.23456789012345', '#abc', '#AABBCC', '#aabbccdd', 'rgb(1, 2, 3)', 'rgba(1, 2, 3, 0.5)',
                  'hsl(120, 50%, 50%)', 'red', 'RED', 'transparent', 'lighten(red, 10%)', 'if(true, a, b)',
                  'type-of(1)', 'inspect((a: b))', 'inspect(null)', 'length(a b c)', 'nth(a b c, 2)',
                  'join(a b, c d)', 'append(a, b, comma)', 'zip(a b, c d)', 'percentage(0.5)', 'round(1.5)',
                  'min(1px, 2px)', 'max(1, 2)', 'abs(-1)', 'str-index("abc", "b")', 'quote(a)', 'unquote("a b")',
                  'to-upper-case(abc)', 'U+0-7F', 'progid:foo', 'a=b', 'foo(a, b)', 'foo(a b)', 'translate(1px, 2px)',
                  '1 +', '+', '1 2 +', '(', ')', '"unterminated', '$undefined', 'nth(a, 5)', '1px + 1s',
                  'undefined-fn(1px + 1s)', 'a b c d e f g h', '1 2 3, 4 5 6', '((a))', '(1 + 2) * 3', '1 + 2 * 3',
                  '10 % 3', '2 * 3px', '6px / 2', '(6px / 2)', 'math.div(6px, 2)', '1em + 2em', '"a" + "b"', 'a + b',
                  '"a" + b', 'a + "b"', '1 + a', 'a + 1', '#{a}', '#{"a"}', '#{a b}', '#{(a, b)}', '&', 'a/b', 'a / b',
                  '1 / 2', '1 /2', '(1/2)', '1/2/3', 'a, b / c']


def value_lines(tier, rng, boost):
    n = (700 if tier == "quick" else 30000) * boost
    vals = []
    for v in NEWLINE_VALUES:
        vals.append((v, "newline-text"))
    for v in SPECIAL_VALUES:
        if v != "&":      # `&` depends on the rule the declaration sits in: not a closed value
            vals.append((v, "special"))
    for _ in range(n):
        k = rng.random()
        if k < 0.85:
            vals.append((scssgen.closed_value(rng, rng.randint(1, 3)), "generated"))
        elif k < 0.93:
            # a generated value with a newline-bearing unquoted string somewhere in a list
            a = scssgen.closed_value(rng, 1)
            vals.append((rng.choice([a + " " + rng.choice(NEWLINE_VALUES[:6]), rng.choice(NEWLINE_VALUES[:6]) + ", " + a]),
                         "newline-text"))
        else:
            a, b = rng.choice(SPECIAL_VALUES), rng.choice(SPECIAL_VALUES)
            if "&" in (a, b):
                continue
            vals.append((rng.choice(["(%s) (%s)", "(%s), (%s)", "foo((%s), (%s))", "[(%s) (%s)]"]) % (a, b), "special-pair"))
    out = []
    for v, stratum in vals:
        styles = "ec" if stratum != "generated" else rng.choice(["e", "c", "ec"])
        for st in styles:
            prec = rng.choice([0, 1, 2, 3, 5, 10, 10, 12, rng.randint(0, 12)])
            out.append((st, prec, v, stratum))
    return out


def _canon(res):
    """`ok:<hex>` stays, any error becomes `err`"""
    return res if res.startswith("ok:") else "err" if res.startswith("err:") else res


def value_cases(tier, rng, boost):
    todo = value_lines(tier, rng, boost)
    lines = [f"c38v\t{st}\t{prec}\t{hx(v)}" for st, prec, v, _ in todo]
    # phase 1: ask the implementation what the evaluator/formatter (parameters of the model) give
    first = vlib.run_impl(lines, CASE_TIMEOUT) if lines else []
    for (st, prec, v, stratum), line, res in zip(todo, lines, first):
        parts = res.split("\t")
        if len(parts) != 2:
            continue  # panic/abort inside rsass: not this property's business (C01)
        cv, decl = _canon(parts[0]), _canon(parts[1])
        kind = "invalid" if decl == "err" else "null" if decl == "ok:" else "valid"
        yield Case(f"{line}\t{cv}\t{kind}", stratum, {"value": v})


FAILING_SNIPPETS = ["a { b: $undefined; }", "a { b: 1px + 1s; }", "a { b: c", "@include nothing;", "a { @extend .missing; }",
                    "@error \"stop\";", "a { b: nth(1 2, 3); }", "@function f() { }", "a { b: (x: y); }", "}",
                    "@import \"c38-no-such-file-anywhere\";", "@use \"c38-no-such-module-anywhere\";",
                    "@use \"sass:nonexistent\";", "a { b: f(; }"]
EXTRA_SNIPPETS = ["@import \"plain.css\";", "@import url(foo.css);", "@import \"http://example.org/x\";",
                  "@charset \"UTF-8\";", "a { b: \"é\"; }", "/* ü */", "@use \"sass:math\";\na { b: math.div(1, 3); }",
                  "@use \"sass:string\" as s;\na { b: s.length(\"abc\"); }", "a { b: 1/3; c: (1/3); }",
                  "@media print { a { b: c; } }", "a { &:hover { b: c; } }", "%p { x: y; } a { @extend %p; }",
                  "@font-face { font-family: x; }", "a { --custom: { x }; }", "@supports (a: b) { c { d: e; } }",
                  "", " ", "﻿a { b: c; }", "a{b:c}", "// only a comment", "@debug 1;", "@warn \"w\";"]


def sheet_cases(tier, rng, boost):
    n = (350 if tier == "quick" else 12000) * boost
    for src in FAILING_SNIPPETS:
        for st in "ec":
            yield Case(f"c38s\t{st}\t{rng.randint(0, 12)}\t{hx(src)}", "failing-snippet")
    for src in EXTRA_SNIPPETS:
        for st in "ec":
            yield Case(f"c38s\t{st}\t{rng.randint(0, 12)}\t{hx(src)}", "snippet")
    for _ in range(n):
        g, prog = scssgen.program(rng)
        src = scssgen.source(prog, g.uses_math)
        stratum = "program"
        k = rng.random()
        if k < 0.08:
            src += "\n" + rng.choice(FAILING_SNIPPETS)
            stratum = "program+failure"
        elif k < 0.2:
            extra = rng.choice(EXTRA_SNIPPETS)
            src = (extra + "\n" + src) if extra.startswith(("@use", "@charset", "﻿")) else (src + "\n" + extra)
            stratum = "program+snippet"
        yield Case(f"c38s\t{rng.choice('ec')}\t{rng.choice([0, 2, 5, 10, rng.randint(0, 12)])}\t{hx(src)}", stratum)


def gen(tier, rng, boost=1):
    yield from value_cases(tier, rng, boost)
    yield from sheet_cases(tier, rng, boost)


# ---------------------------------------------------------------------------- oracle
def decl_text(style, doc):
    """value text of the only declaration of the document written for `x { y: v }`; None if not of that shape"""
    if style == "c":
        if doc.startswith("﻿"):
            doc = doc[1:]
        pre, suf = "x{y:", "}\n"
    else:
        if doc.startswith('@charset "UTF-8";\n'):
            doc = doc[len('@charset "UTF-8";\n'):]
        pre, suf = "x {\n  y: ", ";\n}\n"
    if doc.startswith(pre) and doc.endswith(suf) and len(doc) >= len(pre) + len(suf):
        return doc[len(pre):len(doc) - len(suf)]
    return None


def judge(case, impl, asis, spec):
    f = case.lines[0].split("\t")
    if impl.startswith(("panic:", "abort:")):
        # a crash of rsass itself belongs to C01; the three entry points run the same code
        return Verdict(True, None)
    if impl.startswith("infra:") or "\tinfra:" in impl:
        raise vlib.InfraError("scratch file for compile_scss_path could not be written: " + vlib.show(impl))
    parts = impl.split("\t")
    if f[0] == "c38s":
        if len(parts) != 3:
            raise vlib.InfraError("unexpected harness answer " + impl[:80])
        a, b, c = parts
        if a != b:
            return Verdict(True, "compile_scss differs from FsContext::for_cwd().with_format().transform() of the same bytes")
        ca, cc = _canon(a), _canon(c)
        if ca != cc:
            return Verdict(True, "compile_scss_path of a file that loads nothing relative differs from compile_scss of its contents")
        return Verdict(True, None)
    # c38v
    if len(parts) != 2:
        raise vlib.InfraError("unexpected harness answer " + impl[:80])
    cv, decl = _canon(parts[0]), _canon(parts[1])
    canon = cv + "|" + decl
    corr = asis is None or canon == asis
    fails = None
    if decl.startswith("ok:") and decl != "ok:":
        # the value is valid CSS and was printed
        text = decl_text(f[1], unhx(decl[3:]))
        if text is not None:
            if cv == "err":
                fails = "compile_value rejects a value that a declaration accepts and prints"
            elif unhx(cv[3:]) != text:
                fails = "compile_value text differs from the text printed in the declaration"
    return Verdict(corr, fails)


def nontrivial(case, impl, spec):
    f = case.lines[0].split("\t")
    parts = impl.split("\t")
    if f[0] == "c38s":
        return len(parts) == 3 and all(p.startswith("ok:") and p != "ok:" for p in parts)
    return len(parts) == 2 and parts[1].startswith("ok:") and parts[1] != "ok:"


LEVEL_TEXT = ("Proof (Lean 4): lib.rs's three entry points modelled as compositions over an abstract World (parser, "
              "evaluator, formatter, file system); theorems: compile_scss is the for_cwd transform; compile_scss_path equals "
              "compile_scss of the file's contents when nothing is loaded (and whenever all loads resolve alike), with a "
              "refutation without that hypothesis; byte-level model of CssBuf/Rule::write/Property::write/into_buffer with "
              "the theorem that the declaration text of `x { y: v }` is compile_value's text for every non-null valid value "
              "(spec), the as-is variant under 'no newline in the text' and its refutation. Tie: T3 guard on lib.rs's "
              "function bodies; impl-vs-impl comparison of the three entry points on generated programs; the model's "
              "document for each value compared byte-exactly with compile_scss's output.")
LEVEL_NOTE = ("Trusted: Lean kernel; the World parameters (rsass's parser/evaluator/formatter are not modelled here); the "
              "Python comparison. Known finding C38-value-newline: compile_value keeps '\\n' that a declaration prints as ' '.")
TECHNIQUE = "Lean 4 theorems over a composition model of lib.rs and a byte-level writer model + T3 source guard + impl-vs-impl correspondence"
