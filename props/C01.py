"""C01 — Compilation never panics, aborts or overflows the stack (inputs <= 64 KiB, combined
nesting depth <= 64, both source formats, all styles, precision 0..=20); rendering the error
never panics.

Three parts (DESIGN section 7, C01):
  * site theorems (lean/RsassModel/Glue/Panics.lean, Theorems/C01.lean) tied to the code by a small
    correspondence stratum: `panic.*` ops drive each modelled site through a real compilation, the
    Lean driver answers the same line from the guard-logic model (`ok|err` vs `panic`);
  * T3 source inventory: every panic-capable site of rsass/src (tools/extract_panic_sites.py) must
    be in the committed accounted list corpus/C01/inventory/panic_sites.json (`modelled` / `argued`);
  * exploration: grammar-based generation + mutation of the sass-spec inputs, `c01` op (compile
    under catch_unwind, Error::to_string() included), worker restarts on abort / stack overflow.

A crash (panic / abort) is *explained* iff it happens at the site of a live known finding:
the finding's `site` starts with a machine-readable prefix
    file=<path under rsass/src>;fn=<enclosing fn>[;via=<substring of the rsass call chain>] -- text
    abort=stack-overflow;feature=user-recursion -- text
and the crash's panic location (file:line mapped to its enclosing fn in the *current* source) and
call chain must match it.  A crash anywhere else is a new violation.
"""
import json
import os
import re

from tools import vlib
from tools.vlib import Case, Verdict, hx, unhx
from tools import extract_panic_sites as eps
from props import C01_gen as G
from props.C01_gen import has_user_recursion

ID = "C01"
DRIVER = "drv_C01"
THEOREM_MODS = ["RsassModel.Theorems.C01", "RsassModel.Theorems.C01Sites"]
LEVEL = "other"
CASE_TIMEOUT = 30
SITES_FILE = os.path.join(vlib.VERIF, "corpus", "C01", "inventory", "panic_sites.json")  # a sub-directory: vlib loads every corpus/C01/*.json as a list of cases
EXTRA_OBLIGATIONS = ["panicSites_accounted: every panic-capable site of rsass/src is in corpus/C01/inventory/panic_sites.json"]

RULE = ("c01 cases = (source format scss|css, style e|c|i, precision 0..20, source bytes) from strata: grammar-based "
        "programs (statements x expressions x selectors x at-rules x interpolation x built-in module calls, combined "
        "nesting <= 64, <= 64 KiB), nesting towers up to depth 64 of every bracket kind, mutations (byte flips, token "
        "splices, truncation, duplication, dictionary insertion) of the sass-spec inputs embedded in rsass/tests/spec, "
        "raw byte noise; panic.* cases = guard-logic ops around the boundary of each modelled site. A case is "
        "non-trivial when the compilation got past the parser (result ok, or an error that is not a parse error, or a crash); "
        "distinct = distinct protocol line")
TRUSTED = ["tools/extract_panic_sites.py (Rust lexer + site patterns; arithmetic sites only where an operand is "
           "cheaply recognisable as an integer)",
           "the `argued` entries of corpus/C01/inventory/panic_sites.json are reviewed one-line arguments, not theorems",
           "panic hook + std::backtrace frame names used to attribute a crash to a call site",
           "worker exit status (signal) as observed by tools/vlib.py for aborts and stack overflows"]
ASSUMPTIONS = ["a hang (per-case timeout) is not a panic/abort and is only counted",
               "allocation failure is outside the statement; generated loops are bounded so that it does not occur",
               "stack depth: the harness runs every case on an 8 MiB thread with the repo's dev profile semantics "
               "(opt-level 1, overflow-checks and debug-assertions on)"]
LEVEL_TEXT = ("Partial ('other'): (1) Lean 4 site theorems over guard-logic models of the panic-capable sites named in the "
              "anchors (get_indent and the CSS writer's indentation for every CSS tree, Comment::write, ValueRange::new, "
              "Number display's 16 - ceil(log10 whole), Color::cmp, resolve_ref's append().unwrap(), Pseudo::replace, "
              "lock_loading, calc's get_single().unwrap()): weakest guard => no panic, bound => guard or a kernel-checked "
              "refutation with the concrete witness; (2) a source inventory guard: every unwrap/expect/panicking macro/"
              "index/slice/integer arithmetic/API-precondition site of rsass/src must be in a committed accounted list "
              "(modelled or argued), a new site breaks the obligation; (3) exploration of the input space (grammar-based "
              "generation + mutation of the 12k sass-spec inputs, both formats, three styles, precision 0..20) with every "
              "crash attributed to panic location + call chain. No theorem covers 'all byte strings' for the unmodelled "
              "parser/evaluator; that part of the claim rests on (2)+(3).")
LEVEL_NOTE = ("Trusted: Lean kernel; the Python site extractor and the reviewed one-line arguments of the accounted list; the "
              "harness's catch_unwind/backtrace attribution; vlib's worker supervision. Not covered: allocation failure, hangs, "
              "stack use of unmodelled recursion beyond what the exploration reaches.")
TECHNIQUE = ("Lean 4 site theorems over guard-logic models + differential correspondence on guard ops + source inventory guard "
             "+ grammar/mutation exploration with crash-site attribution")

# --------------------------------------------------------------------------------------
# crash attribution

_CTX_CACHE = {}


def _fn_at(relfile, line):
    """enclosing item path of rsass/src/<relfile>:<line> in the current source"""
    if relfile not in _CTX_CACHE:
        try:
            src = open(os.path.join(vlib.REPO, "rsass", "src", relfile), encoding="utf-8").read()
            code, _ = eps.strip_code(src)
            ctx = eps.contexts(code)
            starts = [0]
            for m in re.finditer("\n", code):
                starts.append(m.end())
            _CTX_CACHE[relfile] = (code, ctx, starts)
        except OSError:
            _CTX_CACHE[relfile] = None
    ent = _CTX_CACHE[relfile]
    if not ent or line < 1 or line > len(ent[2]):
        return ""
    code, ctx, starts = ent
    a = starts[line - 1]
    b = starts[line] if line < len(starts) else len(code)
    # the innermost context found on that line
    best = ""
    for k in range(a, min(b, len(ctx))):
        if len(ctx[k]) > len(best):
            best = ctx[k]
    return best


def crash_site(res):
    """-> dict(kind, file, line, fn, chain, msg) for a panic/abort result, else None"""
    if res is None:
        return None
    if res.startswith("abort:"):
        return {"kind": "abort", "why": res[6:], "file": "", "fn": "", "chain": "", "msg": res}
    if not res.startswith("panic:"):
        return None
    text = unhx(res[6:])
    msg, _, rest = text.rpartition(" @ ")
    loc, _, chain = rest.partition(" || ")
    m = re.match(r"(.*?):(\d+)$", loc.strip())
    path, line = (m.group(1), int(m.group(2))) if m else (loc, 0)
    rel = path.split("/rsass/src/", 1)[1] if "/rsass/src/" in path else path
    fn = _fn_at(rel, line) if "/rsass/src/" in path else ""
    return {"kind": "panic", "file": rel, "line": line, "fn": fn, "chain": chain.strip(), "msg": msg}


def parse_site(site):
    head = site.split(" -- ", 1)[0]
    d = {}
    for part in head.split(";"):
        if "=" in part:
            k, v = part.split("=", 1)
            d[k.strip()] = v.strip()
    return d


def site_label(cs):
    if cs["kind"] == "abort":
        return "abort:" + cs["why"]
    via = cs["chain"].split(" < ")
    return f'{cs["file"]} [{cs["fn"]}]' + (f' via {via[1] if len(via) > 1 else via[0]}' if cs["chain"] else "")


def source_of(case):
    f = case.lines[0].split("\t")
    if f[0] == "c01" and len(f) >= 5:
        try:
            return bytes.fromhex(f[4])
        except ValueError:
            return b""
    return b""


def finding_matches(f, cs, case):
    s = parse_site(f.get("site", ""))
    if cs["kind"] == "abort":
        if s.get("abort") != "stack-overflow":
            return False
        if not re.fullmatch(r"signal(6|11|7)", cs["why"]):
            return False
        src = source_of(case)
        return has_user_recursion(src)
    if "file" not in s:
        return False
    in_rsass = not cs["file"].startswith("/")
    if not in_rsass:
        # panic raised inside std/core (e.g. `i8::abs`): attribute it by the rsass call chain
        cv = s.get("core_via")
        if s.get("msg") and s["msg"] not in cs["msg"]:
            return False
        return bool(cv and cs["chain"] and cv in cs["chain"])
    if s["file"] != cs["file"]:
        return False
    fns = [x for x in s.get("fn", "").split("|") if x]
    if fns and not any(re.search(r"(^|/ )fn " + re.escape(fn) + r"$", cs["fn"]) for fn in fns):
        return False
    via = s.get("via")
    if via and cs["chain"] and via not in cs["chain"]:
        return False
    return True


def is_timeout(res):
    return res == "abort:timeout"


def judge(case, impl, asis, spec):
    if is_timeout(impl):
        if case.stratum in ("witness", "fixed-witness") or not case.lines[0].startswith("c01\t"):
            # a witness / guard op is a tiny input: a timeout there means the machine is too loaded
            # to decide anything (never let it silently switch a known finding off)
            raise vlib.InfraError("timeout on a witness or guard-op case (machine overloaded?): " + case.lines[0][:120])
        return Verdict(True, None)
    crashed = impl.startswith(("panic:", "abort:"))
    op = case.lines[0].split("\t")[0]
    if op == "c01" or asis is None:
        return Verdict(True, "crash: " + site_label(crash_site(impl)) if crashed else None)
    # guard-logic ops: the model says ok|panic ; the implementation ok|err|panic:...
    got = "panic" if crashed else "ok"
    if op == "numfmt":
        got = "panic" if crashed else "ok"
    return Verdict(got == asis, "crash: " + site_label(crash_site(impl)) if crashed else None)


def explained(case, r, live):
    """a crash is explained iff every crashing line crashed at the site of a live known finding"""
    ok = False
    for res in r["impl"]:
        cs = crash_site(res) if res and res.startswith(("panic:", "abort:")) and not is_timeout(res) else None
        if cs is None:
            continue
        if not any(finding_matches(f, cs, case) for f in live):
            return False
        ok = True
    return ok


def nontrivial(case, impl, spec):
    """the compilation got past the parser: css, a non-parse error, or a crash"""
    if impl is None or impl.startswith(("abort:timeout", "bad-", "err:p")):
        return False
    return True


def shrink(case, still_fails):
    """delta-debug the source bytes of a c01 case (best effort, bounded)"""
    f = case.lines[0].split("\t")
    if f[0] != "c01":
        return None
    src = bytes.fromhex(f[4])

    def mk(b):
        return Case("\t".join(f[:4] + [b.hex()]), case.stratum, dict(case.note, shrunk=True))

    import time

    def fails_fast(cand):
        """still fails, and quickly (a candidate that needs seconds is close to the per-case
        timeout and would make the replay flaky)"""
        t = time.time()
        ok = still_fails(mk(cand))
        return ok and time.time() - t < 2.0

    n = 2
    budget = 150
    start = src
    while len(src) >= 2 and budget > 0:
        chunk = max(1, len(src) // n)
        reduced = False
        for i in range(0, len(src), chunk):
            cand = src[:i] + src[i + chunk:]
            budget -= 1
            if budget <= 0:
                break
            if cand and fails_fast(cand):
                src = cand
                n = max(n - 1, 2)
                reduced = True
                break
        if not reduced:
            if chunk == 1:
                break
            n = min(n * 2, len(src))
    if src == start or not fails_fast(src):
        return None   # keep the original failing case
    return mk(src)


# --------------------------------------------------------------------------------------
# T3 inventory guard

def current_sites():
    return eps.extract(vlib.REPO)


def site_hash(s):
    import hashlib
    return int(hashlib.sha1(eps.key_of(s).encode("utf-8")).hexdigest()[:15], 16)


def _lean_list(name, doc, hashes):
    body = ",\n  ".join(", ".join(str(h) for h in hashes[i:i + 6]) for i in range(0, len(hashes), 6))
    return f"/-- {doc} -/\ndef {name} : List Nat := [\n  {body}]\n"


def extract(ctx):
    """T3: regenerate lean/RsassModel/Generated/PanicSites.lean (hashes of the site keys of the
    current source and of the committed accounted list).  Only for the registered repo: a
    self-test worktree (VERIF_REPO) must not rewrite the shared Lean tree; there the same
    comparison is done by `static_checks` alone."""
    if vlib.REPO != "/repo":
        return
    cur = sorted({site_hash(s) for s in current_sites()})
    acc = sorted({site_hash(s) for s in json.load(open(SITES_FILE))["sites"]})
    text = ("/- GENERATED by props/C01.py `extract` from tools/extract_panic_sites.py and\n"
            "corpus/C01/inventory/panic_sites.json — do not edit.  Each number is the first 60 bits of\n"
            "sha1(file|fn|kind|expr|ordinal) of one panic-capable site of rsass/src. -/\n"
            "namespace Panics.Generated\n\n"
            + _lean_list("currentSites", "panic-capable sites of the current source", cur) + "\n"
            + _lean_list("accountedSites", "sites of the committed accounted list (modelled or argued)", acc)
            + "\nend Panics.Generated\n")
    path = os.path.join(vlib.LEAN, "RsassModel", "Generated", "PanicSites.lean")
    if not os.path.exists(path) or open(path).read() != text:
        with vlib.lock("lake"):
            open(path, "w").write(text)


def on_broken_build(ctx, out):
    lines = [l for l in out.split("\n") if "error" in l][:6]
    return ["lake build failed (a property theorem of C01 no longer checks — for Theorems/C01Sites.lean this means a "
            "panic-capable site of the current source is not in the accounted list): " + " | ".join(lines)]


def static_checks(ctx):
    problems = []
    try:
        acc = json.load(open(SITES_FILE))
    except (OSError, ValueError) as e:
        return [f"accounted site list unreadable: {e}"]
    accounted = {}
    for s in acc["sites"]:
        accounted[eps.key_of(s)] = s
        if s.get("status") not in ("modelled", "argued") or not s.get("reason"):
            problems.append("accounted entry without status/reason: " + eps.key_of(s))
    cur = current_sites()
    curkeys = set()
    new = []
    for s in cur:
        k = eps.key_of(s)
        curkeys.add(k)
        if k not in accounted:
            new.append(s)
    ctx.log["panic_sites"] = {"current": len(cur), "accounted": len(accounted), "unaccounted": len(new),
                              "vanished": len([k for k in accounted if k not in curkeys])}
    for s in new[:12]:
        problems.append(f'unaccounted panic-capable site {s["file"]}:{s["line"]} [{s["fn"]}] {s["kind"]} `{s["expr"][:90]}` #{s["ord"]}')
    if len(new) > 12:
        problems.append(f"... and {len(new) - 12} more unaccounted sites")
    # modelled sites must name a theorem that exists
    try:
        thm_src = open(vlib.module_path(THEOREM_MODS[0])).read()
    except OSError:
        thm_src = ""
    for s in acc["sites"]:
        if s.get("status") == "modelled":
            for t in s.get("theorems", []):
                if not re.search(r"theorem\s+" + re.escape(t) + r"\b", thm_src):
                    problems.append(f"site {eps.key_of(s)} names theorem {t} which is not in Theorems/C01.lean")
            if not s.get("theorems"):
                problems.append(f"modelled site without theorems: {eps.key_of(s)}")
    return problems


def extra_coverage(ctx, res):
    crashes = {}
    timeouts = 0
    for r in res:
        for x in r["impl"]:
            if x and is_timeout(x):
                timeouts += 1
            elif x and x.startswith(("panic:", "abort:")):
                lab = site_label(crash_site(x))
                crashes[lab] = crashes.get(lab, 0) + 1
    sizes = [len(l.split("\t")[4]) // 2 for r in res for l in r["case"].lines if l.startswith("c01\t")]
    fmts = {}
    for r in res:
        for l in r["case"].lines:
            f = l.split("\t")
            if f[0] == "c01":
                k = f[1] + "/" + f[2]
                fmts[k] = fmts.get(k, 0) + 1
    return {"crash_sites_hit": crashes, "timeouts_not_counted_as_failures": timeouts,
            "input_bytes_max": max(sizes) if sizes else 0,
            "input_bytes_mean": round(sum(sizes) / len(sizes), 1) if sizes else 0,
            "format_style_distribution": fmts,
            "panic_site_inventory": ctx.log.get("panic_sites"),
            "explanation": "site theorems + inventory guard + exploration; see level_claimed"}


# --------------------------------------------------------------------------------------
# generation (see props/C01_gen.py for the grammar and the mutators)

def gen(tier, rng, boost=1):
    yield from G.generate(tier, rng, boost)
