"""C21 — Evaluated content is never silently dropped."""
from tools.vlib import Case, Verdict
from props import _dest as D

ID = "C21"
DRIVER = "drv_C21"
THEOREM_MODS = ["RsassModel.Theorems.C21"]
LEVEL = "proof"
# flags of the sibling properties' findings (same model), on only while the implementation shows them
ALWAYS_QUIRKS = D.LiveFlags(DRIVER, ["atRuleHoists", "mediaInMediaNested", "atRootKeepsRule",
                                     "vendorKeyframesPrefixed", "hashCommentDropped", "compressedDropsBang",
                                     "commentInterpExpandedOnly", "compressedMultilineGarbled"])
RULE = ("programs with uniquely numbered marker declarations, at-rules and loud comments in every container kind "
        "(style rules, nested-property blocks incl. at-rules inside them, @media/@supports/unknown at-rules, @at-root, "
        "keyframes, mixins, @content blocks, @if/@each bodies, functions used in values, @import-ed and @use-d files); "
        "stratum `error-positions`: a fixed template covering all container kinds with one @error inserted at EVERY "
        "statement position (exhaustive), plus random programs with random @error; "
        "non-trivial = the reference evaluation reaches at least one marker and the implementation produced CSS, or an "
        "@error is reached")
TRUSTED = ["props/_dest.py: program rendering, CSS tree builder, reference evaluation (which markers are reached)"]
ASSUMPTIONS = ["a declaration whose value is null, an @media without content and a comment that the output style "
               "legitimately removes are not `content that must appear`"]
EXHAUSTIVE = {"quick": False, "thorough": False}

STRATA = [
    ("containers", dict(comment=0.25, ns=0.5, control=0.5, mixin=0.6, func=0.4, load=0.5, media_in_media=0.2,
                        atroot=0.3, keyframes=0.2, bang=0.2)),
    ("ns-at", dict(ns=1.0, nsat=0.35, control=0.3, mixin=0.3, comment=0.1, media_in_media=0.0)),
    ("errors", dict(error=1.0, comment=0.1, ns=0.4, control=0.5, mixin=0.6, func=0.5, load=0.5, media_in_media=0.1)),
]


def d(k):
    return ('D', "p%d" % k, ('l', "v%d" % k))


def template():
    """one program that has every container kind"""
    return [
        ('U', 1, [('R', 'u', [d(1)]), ('M', 'q2', [('R', 'u', [d(3)])])]),
        ('F', 1, [('S', " s"), ('I', False, [('T', ('l', 'r4'))], []), ('L', 2, [('I', False, [('T', ('l', 'r5'))], [])]),
                  ('T', ('l', 'r6'))]),
        ('X', 1, [('R', 'm', [d(7), ('K',), ('M', 'q8', [('K',), d(9)])])]),
        ('P', 1, [('R', 'i', [d(10), ('D', 'p11', ('c', 1))]), ('C', False, [('t', " c12 ")])]),
        ('R', 'a', [
            d(13),
            ('N', 'font', ('l', 'v14'), [d(15), ('N', 'sub', None, [d(16)]), ('L', 2, [d(17)])]),
            ('R', 'b', [('C', False, [('t', " c18 "), ('i', ('c', 1))]), d(19), ('Y', 1, [d(20), ('R', 'c', [d(21)])])]),
            ('M', 'q22', [d(23), ('A', 'supports', '(d24: v)', [d(25)]), ('a', 'foo', 't26')]),
            ('I', True, [d(27)], [d(28)]),
            ('I', False, [d(29)], [d(30), ('L', 0, [d(31)])]),
            ('L', 2, [d(32), ('R', '&-s', [d(33)])]),
            ('O', 'r', [d(34)]),
            ('O', None, [('R', 's', [d(35)])]),
            ('A', 'keyframes', 'k36', [('R', 'from', [d(37)])]),
            ('A', 'foo', 't38', [d(39), ('R', 'e', [d(40)])]),
            ('Y', 1, None),
        ]),
        ('A', 'layer', 't41', [d(42), ('R', 'l', [d(43)])]),
        ('C', True, [('t', "! c44 ")]),
    ]


def insertions(stmts):
    """all programs obtained by inserting one @error at one statement position (any depth)"""
    for i in range(len(stmts) + 1):
        yield stmts[:i] + [('E',)] + stmts[i:]
    for i, s in enumerate(stmts):
        k = s[0]
        subs = []
        if k in 'RMLXPUOF':
            subs = [2]
        elif k in 'AN':
            subs = [3]
        elif k == 'I':
            subs = [2, 3]
        elif k == 'Y' and s[2] is not None:
            subs = [2]
        for idx in subs:
            for v in insertions(s[idx]):
                t = list(s)
                t[idx] = v
                yield stmts[:i] + [tuple(t)] + stmts[i + 1:]


def ns_at_cases():
    for kind in ("M", "A"):
        for depth in (1, 2):
            for wrap in ("plain", "loop", "mixin"):
                at = ('M', 'q1', [d(2)]) if kind == "M" else ('A', 'supports', '(d1: v)', [d(2)])
                inner = [d(3), at, d(4)]
                ns = ('N', 'font', None, inner)
                if depth == 2:
                    ns = ('N', 'outer', None, [ns])
                body = [d(5), ns, d(6)]
                if wrap == "loop":
                    body = [('L', 2, body)]
                prog = [('R', 'a', body)]
                if wrap == "mixin":
                    prog = [('X', 1, body), ('R', 'a', [('Y', 1, None)])]
                yield prog


def gen(tier, rng, boost=1):
    for p in ns_at_cases():
        for st in "ec":
            yield Case(D.case_line(p, st), "ns-at-fixed")
    t = template()
    yield Case(D.case_line(t, "e"), "template")
    yield Case(D.case_line(t, "c"), "template")
    for p in insertions(t):
        yield Case(D.case_line(p, "e"), "error-positions")
    n = (220 if tier == "quick" else 6000) * boost
    for name, w in STRATA:
        for _ in range(n):
            g = D.Gen(rng, **w)
            yield Case(D.case_line(g.program(), rng.choice("eeec")), name)


def oracle(prog, compressed, it):
    if it[0] == 'crash':
        return "crash: " + it[1]
    ref = D.reference(prog, compressed)
    if ref[0] == 'err':
        return None if it[0] == 'err' else "compilation succeeded although evaluation reaches an error: " + ref[1]
    if it[0] == 'err':
        return None                      # "or the compilation fails with an error"
    act = D.flatten(it[1])
    have = D.multiset([(e[0],) + tuple(e[3:]) for e in act])
    need = D.multiset([(e[0],) + tuple(e[3:]) for e in ref[1].entries])
    for k, cnt in need.items():
        if have.get(k, 0) < cnt:
            what = {"D": "declaration", "C": "comment", "a": "at-rule"}[k[0]]
            return f"{what} {' '.join(map(str, k[1:])).strip()!r} was reached {cnt}x but is in the output {have.get(k, 0)}x"
    nodes = D.at_nodes(it[1])
    for a in ref[1].reached_at:
        if a[0] == 'M':
            if not any(n[0] == 'M' and a[1] in n[1] for n in nodes):
                return f"@media {a[1]} with content was reached but is not in the output"
        elif a not in nodes:
            return f"@{a[1]} {a[2]} was reached but is not in the output"
    return None


def judge(case, impl, asis, spec):
    prog, compressed = D.prog_of(case.lines[0])
    it = D.impl_tree(impl)
    corr = asis is None or it == D.model_tree(asis)
    return Verdict(corr, oracle(prog, compressed, it))


def nontrivial(case, impl, spec):
    prog, compressed = D.prog_of(case.lines[0])
    ref = D.reference(prog, compressed)
    if ref[0] == 'err':
        return True
    return impl.startswith("ok:") and len(ref[1].entries) > 0


def shrink(case, still_fails):
    return D.shrink_case(case, still_fails)


LEVEL_TEXT = ("Proof (Lean 4): over the frame-stack model of cssdest.rs every push either changes the destination or "
              "returns an error; closing a frame fails exactly when the chain of parents through style rules ends in a "
              "nested-property block; in the specification model such a failure is an error of the run, the as-is model "
              "counts it as lost. Over the fuel-indexed model of the control half of handle_item an @error reached in "
              "any position (rule, block, at-rule, loop, mixin, content block, function, imported/used file) makes the "
              "run an error. Tied to the code by agreement of canonical output trees, plus a marker oracle on the "
              "implementation's own CSS.")
LEVEL_NOTE = ("Trusted: Lean kernel; props/_dest.py (rendering, CSS tree builder, reference evaluation). Variables, "
              "arguments and @while are not modelled. One open finding: an at-rule inside a nested-property block is "
              "dropped with exit status 0.")
TECHNIQUE = "Lean 4 theorems over frame-stack + fuel-indexed evaluator models, differential correspondence on output trees"
