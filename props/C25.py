"""C25 — Selector parsing and printing round-trip (partial)."""
from tools.vlib import Case, Verdict, hx, unhx

ID = "C25"
DRIVER = "drv_C25"
THEOREM_MODS = ["RsassModel.Theorems.C25"]
LEVEL = "proof"
RULE = ("selector-list texts built from a grammar: element types (plain, namespaced ns|a, *|a, |a, *, digit/non-ASCII "
        "names), classes/ids/placeholders with escapes (\\HH, \\HHHHHH, \\c for punctuation, digit-leading names, "
        "non-ASCII raw and escaped), attributes (all six operators, unquoted/double/single quoted values with escapes, "
        "modifiers, namespaces, inner whitespace), pseudo-classes/elements (plain, nth-child(2n+1 / 2n + 1 / odd / -n+3), "
        "selector arguments :not/:is/:where/:has/:host/::slotted/-moz-any, non-selector arguments), combinators with "
        "random spacing, leading combinators, keyframe stops, lists of 1..3; plus a malformed stream. "
        "`rule` cases additionally compile `S { x: y }` in expanded AND compressed style (the compressed header is "
        "parsed again and must be the selector list of selector.parse(S)); an attribute matrix (6 operators x modifiers "
        "i/s/I/none x unquoted, quoted, needs-quotes and becomes-unquoted values x alone, in a compound, in :not/:is/"
        "::slotted, with combinators, namespaced) checks both styles against each other. Non-trivial = accepted by the parser and containing an "
        "escape, a quote, a pseudo-class argument or a namespace.")
TRUSTED = ["harness op c25: selector.parse's path (parser::selector_set on the text, `Value::from(SelectorSet)` written as "
           "inspect writes it) reached through the public API css::SelectorSet: TryFrom<css::Value>; cross-checked against "
           "`inspect(selector-parse(\"S\"))` in SCSS whenever S needs no string escaping"]
ASSUMPTIONS = ["Unicode classes of Rust's char methods are approximated in the model (non-ASCII letters only are generated)",
               "comments inside selectors are not generated (spacelike = whitespace in the model)",
               "clause 2 is judged on texts the SCSS front end does not rewrite for other reasons (canonical attribute "
               "quoting, no non-selector pseudo arguments)"]

PLAIN = ["a", "foo", "a-b", "_x", "B2", "x1"]
ODD = ["é", "üb", "日本", "1y", "9", "-x", "--b", "x.y", "a:b", "p+q", "sp ace", "-1", "aé", "©x", "a×b", "§"]
ELEMS = ["a", "div", "h1", "ns|a", "*|a", "|a", "*", "ns|*", "*|*", "é"]


def esc_char(c, rng, first):
    k = rng.random()
    if k < 0.4:
        return "\\%x " % ord(c)
    if k < 0.6:
        return "\\%06x" % ord(c)
    if k < 0.75 and not c.isalnum() and c not in "\n\t" and not ("0" <= c <= "9" or "a" <= c.lower() <= "f"):
        return "\\" + c
    return "\\%X " % ord(c)


def esc_name(name, rng, amount, keep_dash=False):
    """write a name so that it denotes exactly `name`"""
    out = ""
    for i, c in enumerate(name):
        plain = c.isalnum() or c in "-_"
        must = not plain
        if must or (rng.random() < amount and not (keep_dash and c in "-_")):
            out += esc_char(c, rng, i == 0)
        else:
            out += c
    return out


class G:
    def __init__(self, rng, rule):
        self.rng, self.rule = rng, rule
        self.flags = set()

    def name(self, pool_odd=0.35):
        rng = self.rng
        if rng.random() < pool_odd:
            n = rng.choice(ODD)
            self.flags.add("odd")
        else:
            n = rng.choice(PLAIN)
        amount = rng.choice([0, 0, 0.15, 0.5])
        if amount:
            self.flags.add("esc")
        return esc_name(n, rng, amount, self.rule)

    def sp(self):
        return self.rng.choice(["", "", " ", "  "])

    def attr(self):
        rng = self.rng
        n = rng.choice(["h", "data-x", "ns|h", "|h"] + ([] if self.rule else ["*|h"])) if rng.random() < 0.8 else self.name(0.2)
        if rng.random() < 0.25:
            return "[" + self.sp() + n + self.sp() + "]"
        op = rng.choice(["=", "^=", "$=", "*=", "~=", "|="])
        k = rng.random()
        if self.rule:
            # canonical for the SCSS front end: unquoted iff name-like
            v = rng.choice(["v", "w1", "_z", '"v w"', '"1x"', '""', '"a.b"'])
        elif k < 0.35:
            v = self.name(0.3)
        elif k < 0.7:
            v = '"' + rng.choice(["v w", "v", "", "it's", "\\41 b", "x\\-y", "é", "a\\\"b", "\\41 g", "\\a x", "q\\\\"]) + '"'
            self.flags.add("quote")
        else:
            v = "'" + rng.choice(["v w", "v", "", 'say "x"', "\\e9", "a\\\\b", "a\\'b", "\\9 t"]) + "'"
            self.flags.add("quote")
        m = ""
        if rng.random() < 0.3:
            m = (" " if not v.startswith(("'", '"')) else self.sp()) + rng.choice("isIS") + self.sp()
        return "[" + self.sp() + n + self.sp() + op + self.sp() + v + m + "]"

    def pseudo(self, depth):
        rng = self.rng
        k = rng.random()
        if k < 0.35:
            return ":" + rng.choice(["hover", "focus", "first-child", "-moz-focusring", "root"])
        if k < 0.45:
            return "::" + rng.choice(["before", "after", "selection", "-webkit-scrollbar"])
        if k < 0.6:
            self.flags.add("nth")
            return ":" + rng.choice(["nth-child", "nth-of-type", "nth-last-child", "nth-last-of-type"]) + "(" + \
                rng.choice(["2n+1", "2n + 1", "odd", "even", "3", "-n+3", "2n", "n", "2n+1 of .a", "2n + 1 of b > .c"]) + ")"
        if k < 0.9 and depth < 2:
            self.flags.add("selarg")
            nm = rng.choice(["not", "is", "where", "has", "host", "-moz-any", "matches", ":slotted", "host-context", "current"])
            args = self.sels(rng.choice([1, 1, 2]), depth + 1)
            return ":" + nm + "(" + self.sp() + args + self.sp() + ")"
        if self.rule:
            return ":" + rng.choice(["lang(en)", "dir(ltr)"])
        self.flags.add("otherarg")
        return ":" + rng.choice(["lang(en)", "foo(1.5)", "foo(a=b)", "bar(2n+1.5)", "baz([x])", "qux(a, (b))"])

    def compound(self, depth):
        rng = self.rng
        out = ""
        k = rng.random()
        if k < 0.45:
            e = rng.choice(ELEMS)
            if "|" in e:
                self.flags.add("ns")
            out += e
        elif k < 0.5:
            out += esc_name(self.rng.choice(PLAIN), self.rng, 0 if self.rule else self.rng.choice([0, 0.3]))
        n = rng.choice([0, 1, 1, 2, 3]) if out else rng.choice([1, 1, 2, 3])
        for _ in range(n):
            j = rng.random()
            if j < 0.4:
                out += "." + self.name()
            elif j < 0.52:
                out += "#" + self.name()
            elif j < 0.6 and not self.rule:
                out += "%" + self.name(0.1)
            elif j < 0.78:
                out += self.attr()
            else:
                out += self.pseudo(depth)
        return out

    def sel(self, depth):
        rng = self.rng
        out = ""
        if rng.random() < 0.12 and not self.rule:
            out += rng.choice([">", "+", "~"]) + self.sp()
        out += self.compound(depth)
        for _ in range(rng.choice([0, 0, 1, 1, 2])):
            c = rng.choice([" ", " ", ">", "+", "~"])
            out += (c if c == " " else self.sp() + c + self.sp()) + self.compound(depth)
        return out

    def sels(self, n, depth=0):
        return (self.sp() + "," + self.sp()).join(self.sel(depth) for _ in range(n))


FIXED = [
    (".\\31 y, .1z, a|b > *|c:nth-child(2n+1):not(.q, #r)::after [h^=\"v w\" i]", True),
    ("#\\31", True), ("#\\31 x.\\32", True), (".\\a9 x", True), ("a.\\d7 \\a7", True), (".\\66oo, .f\\6F o, .\\e9, .é, .a\\.b, .x\\+", True),
    (".\\-a", False), (".--b, .-\\31", False), ("a:nth-child(2n + 1 of .x), b:lang(en), d:nth-child(-n+3)", True),
    ("c:foo(1.5)", False), ("10%, 12.5%, a  >b", False), ("> a ~ b", False), ("[h='v'], [h=\"v\"], [h=v]", False),
    ("*|*, ns|*.x, |a#i", True), ("a:not(b:is(c, d > e), .f)", True), ("::slotted(a.b)", True),
    ("a,,b", False), ("a..b", False), ("[h=]", False), (":not()", False), ("a >> b", False), ("a:", False),
]


def attr_matrix():
    """attribute operators x modifiers x value shapes x positions, as rule cases (both styles)"""
    ops = ["=", "^=", "$=", "*=", "~=", "|="]
    out = []
    k = 0
    for op in ops:
        for m in ["i", "s", "I", None]:
            # (text, canonical for the SCSS front end?)
            for val, canon in (("abc", True), ('"a b"', True), ('"1x"', True), ('""', True), ('"abc"', False), ("'abc'", False),
                               ("'a b'", False)):
                mod = "" if m is None else ((" " if not val.startswith(("'", '"')) else ["", " "][k % 2]) + m)
                a = "[data-x" + op + val + mod + "]"
                k += 1
                shapes = [a, "a" + a + ".c", ":not(" + a + ")", "b > " + a + " + c", "a:is(" + a + ", .d)", "[ns|h" + op + val + mod + "]",
                          a + a, "::slotted(" + a + ")"]
                out.append((shapes[k % len(shapes)], True if canon else "style"))
                if op == "=" or m == "i":
                    out.append((shapes[(k + 3) % len(shapes)], True if canon else "style"))
    return out


def mk(s, rule, stratum):
    return Case("c25\t" + hx(s), stratum, {"rule": rule, "s": s})


def gen(tier, rng, boost=1):
    for s, rule in FIXED:
        yield mk(s, rule, "fixed")
    for s, rule in attr_matrix():
        yield mk(s, rule, "attr-matrix" if rule is True else "attr-matrix/style")
    n = (2500 if tier == "quick" else 40000) * boost
    for i in range(n):
        k = rng.random()
        rule = k < 0.4
        g = G(rng, rule)
        s = g.sels(rng.choice([1, 1, 2, 3]))
        if 0.9 < k:
            # malformed stream: damage one character
            p = rng.randrange(len(s)) if s else 0
            s = s[:p] + rng.choice([",", "(", ")", "[", "]", ":", "..", "##", "|", "\"", " "]) + s[p + rng.choice([0, 1]):]
            yield mk(s, False, "malformed")
        else:
            tag = ("rule" if rule else "parse") + ("/" + "+".join(sorted(g.flags)) if g.flags else "")
            yield mk(s, rule, tag)


def parts(x):
    return x.split("|")


def dec(p):
    return unhx(p[3:]) if p.startswith("ok:") else p


def judge(case, impl, asis, spec):
    if impl.startswith(("panic:", "abort:")):
        return Verdict(False, "crash: " + impl[:60])
    r = parts(impl)
    a, s = parts(asis), parts(spec)
    rule = case.note.get("rule", True)   # a bare witness line is a rule case
    if case.stratum == "malformed":
        # damaged texts: only "both accept or both reject" is compared (the texts that happen to be
        # accepted are outside the generator's grammar: lone combinators, digit element types …)
        return Verdict(r[0].startswith("ok:") == a[0].startswith("ok:"), None)
    acc = r[0].startswith("ok:")
    full = rule is True
    corr = r[0] == a[0] and r[1] == a[1] and (not full or not acc or (r[2] == a[2] and r[4] == a[3]))
    if len(r) > 3 and r[3].startswith("ok:") and acc:
        t4 = dec(r[3])
        if t4.startswith("(") and t4.endswith(",)"):
            t4 = t4[1:-2]
        if t4 != dec(r[0]) and dec(r[0]) != "\x00null":
            corr = False     # the API route is not what inspect(selector-parse(..)) shows
    why = None
    if acc:
        if r[1] != r[0]:
            why = f"printed form `{dec(r[0])}` parses and prints as `{dec(r[1])}`"
        elif full and r[2] != r[0]:
            why = f"`S {{x:y}}` emits `{dec(r[2])}`, selector.parse(S) prints `{dec(r[0])}`"
        elif full and r[5] != r[0]:
            why = (f"compressed style: `S {{x:y}}` emits `{dec(r[4])}`, which reads back as `{dec(r[5])}`; "
                   f"selector.parse(S) is `{dec(r[0])}`")
        elif rule and r[2].startswith("ok:") and r[5] != r[6]:
            # the selector a rule emits must be the same selector list in both output styles
            why = (f"`S {{x:y}}` emits `{dec(r[2])}` expanded but `{dec(r[4])}` compressed, which reads back as "
                   f"`{dec(r[5])}`")
    return Verdict(corr, why)


def nontrivial(case, impl, spec):
    s = case.note.get("s", "")
    return impl.startswith("ok:") and any(ch in s for ch in "\\\"'(|")


LEVEL_TEXT = ("Proof (Lean 4), partial: a character-level model of parser::selector_set (names with escape normalisation, "
              "namespaces, attributes, pseudo-class arguments, combinators) and of the write_to printer; proved: the escape a "
              "digit-leading class is printed with is a fixed point of the name lexer and of the printer (print-parse-print = "
              "print), plain names lex to themselves, printed canonical selectors of the decided sample re-parse to themselves; "
              "the general parse∘print = id theorem over the whole grammar is not proved and is covered by exact differential "
              "correspondence (parse+print text, re-parse text, emitted rule header) on generated texts.")
LEVEL_NOTE = ("partial: `parse_print` is proved for names and checked (not proved) for whole selectors; Unicode character classes "
              "approximated; SCSS front end modelled only for the `#`/`.` escape deviation.")
TECHNIQUE = "Lean 4 model of the selector lexer/parser/printer with lexer-level theorems + exact differential correspondence"
