"""C04 — Load URLs resolve to the documented candidate file."""
import itertools
from tools.vlib import Case, Verdict
from props import _load as L

ID = "C04"
DRIVER = "drv_C04"
THEOREM_MODS = ["RsassModel.Theorems.C04"]
LEVEL = "proof"
ALWAYS_QUIRKS = L.FamilyFlags(ID)
EXHAUSTIVE = {"quick": False, "thorough": True}
CASE_TIMEOUT = 60

RULE = ("one load statement (@use/@forward/@import/meta.load-css of `q`, `x/q`) in an importer at the root or in "
        "`sub/`, 0..2 load paths, and a set of candidate files: every subset of the 6 @use candidates (quick and thorough) "
        "and of the 10 @import candidates (thorough; 512 sampled subsets quick), each subset placed (a) in the importer's "
        "directory, (b) in the last load path, (c) twice at random over all locations; thorough additionally the complete "
        "product (subset in the importer's directory) x (subset in load path 1) for @use; plus the plain-CSS @import "
        "fallback urls; 40 cases are repeated through the real FsLoader on a scratch directory (op loadfs). "
        "non-trivial = at least two candidate files exist and the statement names a file")
TRUSTED = ["harness/src/ops/c02.rs: virtual loader with FsLoader's lookup semantics (tied to the real FsLoader by the "
           "`loadfs` cases every run), SCSS rendering of the case table",
           "props/_load.py: Python statement of the lookup order (independent of the Lean model; the Lean spec model is "
           "compared with it on every case)"]
ASSUMPTIONS = ["file system without symlinks, case-sensitive; `..` resolved as POSIX does",
               "the statement's 'load path' = every loader search path after the base directory; the base directory is the "
               "root importer's directory",
               "the oracle demands nothing when candidate files exist outside the importer's directory and the load paths, "
               "nor for urls with an explicit extension that exist"]


def build(code, url, sub, nlp, placed):
    """placed: set of (location index, candidate name)"""
    imp = "sub/s.scss" if sub else "in.scss"
    locs = (["sub/"] if sub else [""]) + ["lp1/", "lp2/"][:nlp]
    files = [("in.scss", ["m", "usub/s"] if sub else ["m", code + url])]
    if sub:
        files.append((imp, ["m", code + url]))
    seen = {p for p, _ in files}
    for li, c in sorted(placed):
        p = locs[li] + c
        if p not in seen:
            seen.add(p)
            files.append((p, ["m"]))
    roots = ",".join(["."] + ["lp1/", "lp2/"][:nlp])
    return files, roots


def gen(tier, rng, boost=1):
    quick = tier == "quick"
    fsn = 0
    for code, kind in (("u", "use"), ("i", "import"), ("f", "forward"), ("l", "loadCss")):
        for url in ("q", "x/q"):
            cands = L.cand_names(kind, url)
            n = len(cands)
            subsets = list(range(1 << n))
            if kind == "import" and quick and boost == 1:
                subsets = sorted(set([0, (1 << n) - 1] + [1 << i for i in range(n)] + rng.sample(subsets, 500)))
            elif kind == "import" and quick:
                subsets = subsets
            if url == "x/q" or kind in ("forward", "loadCss"):
                subsets = sorted(set(rng.sample(subsets, min(len(subsets), (24 if quick else 64) * boost))))
            for mask in subsets:
                present = [cands[i] for i in range(n) if mask >> i & 1]
                for sub in (False, True):
                    for nlp in (0, 1, 2):
                        if (url == "x/q" or kind in ("forward", "loadCss")) and nlp == 1:
                            continue
                        nloc = 1 + nlp
                        plans = [("dir", {(0, c) for c in present})]
                        if nlp:
                            plans.append(("last", {(nloc - 1, c) for c in present}))
                            for k in range(2):
                                pl = set()
                                for c in present:
                                    where = [li for li in range(nloc) if rng.random() < 0.5] or [rng.randrange(nloc)]
                                    pl |= {(li, c) for li in where}
                                plans.append(("split", pl))
                        for pname, placed in plans:
                            files, roots = build(code, url, sub, nlp, placed)
                            stratum = f"{kind}-{'sub' if sub else 'root'}-lp{nlp}-{pname}" + ("-dirurl" if url != "q" else "")
                            yield Case(L.line(files, roots=roots), stratum)
                            if fsn < 40 and rng.random() < 0.02:
                                fsn += 1
                                yield Case(L.line(files, roots=roots, op="loadfs"), "fsloader-tie")
    if not quick:
        # complete product for @use: subset in the importer's directory x subset in load path 1
        cands = L.cand_names("use", "q")
        for sub in (False, True):
            for m0, m1 in itertools.product(range(64), range(64)):
                placed = {(0, cands[i]) for i in range(6) if m0 >> i & 1} | {(1, cands[i]) for i in range(6) if m1 >> i & 1}
                files, roots = build("u", "q", sub, 1, placed)
                yield Case(L.line(files, roots=roots), f"use-{'sub' if sub else 'root'}-lp1-product")
    # plain-CSS import fallback and not-found
    for code, url in (("i", "q.css"), ("i", "http://x/q"), ("i", "https://x/q"), ("i", "//x/q"), ("I", "url(q)"),
                      ("I", "url(http://x/q.css)"), ("i", "q"), ("i", "x/q"), ("u", "q"), ("f", "q"), ("l", "q"),
                      ("u", "q.css"), ("i", "q.scss"), ("u", "q.scss"), ("i", "url(q)")):
        for sub in (False, True):
            for nlp in (0, 2):
                for placed in (set(), {(0, "other.scss")}, {(0, url if url.endswith("css") else "q.scss")}):
                    files, roots = build(code, url, sub, nlp, placed)
                    yield Case(L.line(files, roots=roots), "fallback")
                    if not sub and nlp == 2:
                        yield Case(L.line(files, roots=roots, op="loadfs"), "fsloader-tie")


GEN_URL = "zz9"
GEN_PATH = "lean/RsassModel/Generated/LoadCandidates.lean"


def extract(ctx):
    """T1: ask the real Context::find_file for an unresolvable url through the recording
    loader, for each load kind and importer position, and write the probe sequences as Lean
    data; `C04.generated_candidates_match` compares them with the documented lists."""
    import os
    from tools import vlib
    want = [("useRoot", "u", False), ("forwardRoot", "f", False), ("loadCssRoot", "l", False),
            ("importRoot", "i", False), ("useSub", "u", True), ("importSub", "i", True)]
    lines = []
    for _, code, sub in want:
        files, roots = build(code, GEN_URL, sub, 0, set())
        lines.append(L.line(files, roots=roots))
    outs = ctx.impl(lines)
    lit = lambda s: "[" + ", ".join(str(ord(c)) for c in s) + "]"
    body = ("/- Generated by props/C04.py `extract` from the loader-call trace of the running code\n"
            "(probe sequence of `Context::find_file` for the unresolvable url `" + GEN_URL + "`). Do not edit. -/\n"
            "import RsassModel.Load.Path\nnamespace Load.Generated\n\n"
            f"def url : Str := {lit(GEN_URL)}\ndef subImporter : Str := {lit('sub/s.scss')}\n")
    for (name, code, sub), out in zip(want, outs):
        im = L.Impl(out)
        if im.trace is None:
            raise vlib.InfraError("candidate extraction: no trace in " + out[:80])
        calls = [c for c in im.trace.split(",") if c]
        if sub:
            # drop the probes for sub/s.scss itself (up to and including its hit)
            k = next((i for i, c in enumerate(calls) if c.endswith("+")), -1)
            calls = calls[k + 1:]
        if any(not c.endswith("-") for c in calls):
            raise vlib.InfraError("candidate extraction: a probe for the unresolvable url hit: " + im.trace)
        body += f"def {name} : List Str := [" + ",\n  ".join(lit(c[:-1]) for c in calls) + "]\n"
    body += "\nend Load.Generated\n"
    path = os.path.join(vlib.VERIF, GEN_PATH)
    os.makedirs(os.path.dirname(path), exist_ok=True)
    if not os.path.exists(path) or open(path).read() != body:
        open(path, "w").write(body)


def on_broken_build(ctx, out):
    return ["lake build failed after regenerating Generated/LoadCandidates.lean (the candidate lists of the running "
            "code no longer match the documented ones, or a theorem no longer checks): " + out[-600:]]


def statement(pc, im):
    """the property's statement evaluated on the implementation's own result; None = holds
    (or the case is outside what the statement speaks about)"""
    importer = "sub/s.scss" if "sub/s.scss" in pc.paths else pc.root
    loads = [it for it in pc.items[importer] if it[0] in L.KINDS]
    if not loads:
        return None
    it = loads[-1]
    code, kind, url = it[0], L.KINDS[it[0]], it[1:]
    if im.cls in ("abort", "panic", "bad"):
        return "compilation crashed or did not answer: " + im.raw[:60]
    locs = L.locations(pc, importer)
    allowed = {pc.resolve(loc + c) or (loc + c) for loc in locs for c in L.cand_names(kind, url)}
    others = [p for p in pc.paths if p not in (pc.root, importer)]
    if any(p not in allowed for p in others):
        return None  # files outside the importer's directory and the load paths: not spoken about
    want = L.lookup(pc, importer, kind, url)
    got = [m for m in im.markers if m.startswith("f") and m not in ("f%d" % pc.tag[pc.root], "f%d" % pc.tag[importer])]
    if want is not None:
        if url.endswith((".css", ".scss", ".sass")):
            return None
        if im.cls != "ok":
            return f"{want} exists (first existing candidate) but the load fails ({im.cls})"
        if got != ["f%d" % pc.tag[want]]:
            names = [pc.files[int(g[1:])][0] for g in got]
            return f"resolves to {names or 'nothing'}, the documented order gives {want}"
        return None
    if kind == "import" and L.css_fallback(code, url):
        if im.cls != "ok" or ("@" + url) not in im.markers or got:
            return f"@import of {url} must be emitted as a plain CSS import"
        return None
    if code == "i" and url.startswith("url("):
        return None
    if im.cls == "ok":
        return "nothing to load exists but the load does not fail"
    if im.cls != "err":
        return f"nothing to load exists: expected a failed load, got {im.cls}"
    return None


def judge(case, impl, asis, spec):
    pc = L.Parsed(case.lines[0])
    im = L.Impl(impl)
    return Verdict(L.corresponds(im, asis), statement(pc, im))


def nontrivial(case, impl, spec):
    pc = L.Parsed(case.lines[0])
    return len(pc.paths) >= 4 and impl.startswith("ok:")


LEVEL_TEXT = ("Proof (Lean 4) over a model of Context::find_file / do_find_file / FsLoader::find_file: candidate tables, "
              "lookup = first existing probe of the documented order (importer's directory, then each load path), "
              "none-iff, the plain-CSS @import fallback decision; partial theorem + refutations for the code as it is. "
              "Tied to the code by exhaustive differential runs (result class, loader-call trace with hit/miss, which "
              "marker appears) through a virtual loader that is itself tied to the real FsLoader each run.")
LEVEL_NOTE = ("Trusted: Lean kernel; the harness's virtual file system = FsLoader on POSIX without symlinks (checked on a "
              "scratch directory every run); SCSS rendering of cases; the Python statement of the lookup order.")
TECHNIQUE = "Lean 4 theorems over a model of the lookup + exhaustive differential correspondence over candidate-file subsets"
