"""C03 — Each module is executed once per compilation."""
import itertools
from tools.vlib import Case, Verdict
from props import _load as L

ID = "C03"
DRIVER = "drv_C03"
THEOREM_MODS = ["RsassModel.Theorems.C03"]
LEVEL = "proof"
ALWAYS_QUIRKS = L.FamilyFlags(ID)
EXHAUSTIVE = {"quick": False, "thorough": True}
CASE_TIMEOUT = 60

SPELL = ["{n}", "./{n}", "d/../{n}"]
NAMES = ["in", "a", "b", "c"]

RULE = ("use/forward graphs: files in.scss, a.scss, b.scss, c.scss (+ d/x.scss so that `d/..` resolves); every module emits "
        "a marker rule and owns a counter variable; every @use is followed by a read-and-increment of the used module's "
        "counter through the namespace. For every ordered pair i<j: no edge, one edge or two edges, each @use or @forward "
        "spelled `n`, `./n` or `d/../n` (43 options per pair). quick: every 2-file graph, 3000 sampled 3-file graphs, 400 "
        "random 4-file graphs with back edges; thorough: every 2- and 3-file graph (43^3), 5000 random 4-file graphs. Extra "
        "strata: the same with an @import edge in between and with the spelling `m//n`; configured loads (`@use … with`, "
        "`@forward … with`) of modules also loaded unconfigured earlier/later (all 3-file combinations + 800 random); users in "
        "sub-directories two levels deep reaching a module as `../m`, `./../m`, `t/../../m`, `../../m` (686 exhaustive + 1500 "
        "random). non-trivial = some module is the "
        "target of at least two load statements")
TRUSTED = ["harness/src/ops/c02.rs (virtual loader, SCSS rendering of markers and counter reads)",
           "props/_load.py: Python statement (which file each url denotes; execution count; counter sequence)"]
ASSUMPTIONS = ["the loader is a parameter: POSIX path resolution without symlinks",
               "`users see the same module variables` is observed through direct @use namespaces only (members seen through "
               "@forward are copies in rsass; that is module semantics outside this property's anchors)"]

OPTS1 = [(k, s) for k in "uf" for s in range(3)]
PAIR_OPTS = [[]] + [[o] for o in OPTS1] + [[o1, o2] for o1 in OPTS1 for o2 in OPTS1]


def graph_case(n, edges, stratum, spell=SPELL, extra_files=()):
    """edges: list of (src, dst, kind code, spelling index) in execution order per file"""
    files = []
    tags = {i: i for i in range(n)}
    for i in range(n):
        items = ["m"]
        for (a, j, k, s) in edges:
            if a != i:
                continue
            items.append(k + spell[s].format(n=NAMES[j]))
            if k in "uU":
                items.append(f"b{len(items) - 1}.{tags[j]}")
        files.append((NAMES[i] + ".scss", items))
    files.append(("d/x.scss", ["m"]))
    files += list(extra_files)
    multi = any(sum(1 for e in edges if e[1] == j) >= 2 for j in range(n))
    return Case(L.line(files), stratum, {"multi": multi})


def gen(tier, rng, boost=1):
    quick = tier == "quick"
    for opt in PAIR_OPTS:
        yield graph_case(2, [(0, 1, k, s) for k, s in opt], "all-2-file")
    pairs = [(0, 1), (0, 2), (1, 2)]
    combos = itertools.product(PAIR_OPTS, repeat=3)
    if quick:
        allc = list(combos)
        combos = rng.sample(allc, 3000 * boost if 3000 * boost < len(allc) else len(allc))
    for combo in combos:
        edges = [(i, j, k, s) for (i, j), opt in zip(pairs, combo) for k, s in opt]
        yield graph_case(3, edges, "all-3-file" if not quick else "sampled-3-file")
    for _ in range((400 if quick else 5000) * boost):
        n = 4
        edges = []
        for _ in range(rng.randint(3, 8)):
            i, j = rng.randrange(n), rng.randrange(n)
            if i == j or (j < i and rng.random() < 0.8):
                continue
            edges.append((i, j, rng.choice("uuf"), rng.choice([0, 0, 1, 2])))
        yield graph_case(n, edges, "random-4-file")
    # an @import edge between users: the imported file uses a module the importer already loaded
    for _ in range((300 if quick else 3000) * boost):
        n = rng.randint(3, 4)
        edges = []
        for _ in range(rng.randint(2, 6)):
            i, j = sorted(rng.sample(range(n), 2))
            edges.append((i, j, rng.choice("uufi"), rng.choice([0, 0, 1, 2])))
        yield graph_case(n, edges, "with-import")
    yield from configured_cases(rng, quick, boost)
    yield from subdir_cases(rng, quick, boost)
    # spellings with an empty path segment
    sp2 = ["{n}", "d//../{n}", ".//{n}"]
    for _ in range((100 if quick else 1000) * boost):
        n = 3
        edges = []
        for _ in range(rng.randint(2, 4)):
            i, j = sorted(rng.sample(range(n), 2))
            edges.append((i, j, rng.choice("uf"), rng.choice([0, 1, 1])))
        yield graph_case(n, edges, "empty-segment", spell=sp2)
    for opt in PAIR_OPTS[:12]:
        files = [("in.scss", ["m"] + [x for k, s in opt for x in [k + ["m/lib", "m//lib", "./m/lib"][s]]]), ("m/lib.scss", ["m"])]
        yield Case(L.line(files), "empty-segment", {"multi": len(opt) > 1})


CFG_OPTS = [[], ["u"], ["U"], ["f"], ["F"], ["u", "U"], ["U", "u"], ["f", "U"], ["F", "u"]]


def configured_cases(rng, quick, boost):
    """`@use … with (…)` / `@forward … with (…)` of modules that are also loaded unconfigured earlier or later
    (Sass: executed once; configuring a module that is already loaded is an error)"""
    pairs = [(0, 1), (0, 2), (1, 2)]
    for combo in itertools.product(CFG_OPTS, repeat=3):
        edges = [(i, j, k, 0) for (i, j), opt in zip(pairs, combo) for k in opt]
        if any(k in "UF" for _, _, k, _ in edges):
            yield graph_case(3, edges, "configured")
            yield graph_case(3, [e for e in edges if e[1] == 2] + [e for e in edges if e[1] != 2], "configured")
    for _ in range((800 if quick else 8000) * boost):
        n = rng.randint(3, 4)
        edges = []
        for _ in range(rng.randint(2, 6)):
            i, j = sorted(rng.sample(range(n), 2))
            edges.append((i, j, rng.choice("uufUUF"), rng.choice([0, 0, 1, 2])))
        rng.shuffle(edges)
        yield graph_case(n, edges, "configured-random")


SUB_FILES = ["in.scss", "sub/a.scss", "sub/b.scss", "sub/t/c.scss", "m.scss", "sub/_index.scss"]
SUB_SPELL = {
    (0, 4): ["m", "./m", "sub/../m"], (0, 1): ["sub/a"], (0, 2): ["sub/b", "sub/t/../b"], (0, 3): ["sub/t/c"],
    (1, 4): ["../m", "./../m", "t/../../m"], (2, 4): ["../m", "./../m", "t/../../m"],
    (3, 4): ["../../m", "../t/../../m", "./../../m"], (1, 2): ["b", "../sub/b"], (1, 3): ["t/c"], (2, 3): ["t/c", "./t/c"],
    (3, 1): ["../a"], (3, 2): ["../b", "./../b"],
    # the index file of a directory, reached as the directory itself
    (0, 5): ["sub", "sub/t/.."], (1, 5): [".", "../sub", "t/.."], (2, 5): [".", "./."], (3, 5): ["..", "./.."],
}


def subdir_case(edges, stratum):
    """edges: (src index, dst index, kind code, url) — users of a module in sub-directories, reaching it as `../m`"""
    files = []
    for i, path in enumerate(SUB_FILES):
        items = ["m"]
        for (a, j, k, u) in edges:
            if a == i:
                items.append(k + u)
                if k in "uU":
                    items.append(f"b{len(items) - 1}.{j}")
        files.append((path, items))
    multi = any(sum(1 for e in edges if e[1] == j) >= 2 for j in range(len(SUB_FILES)))
    return Case(L.line(files), stratum, {"multi": multi})


def subdir_cases(rng, quick, boost):
    def opts(pair):
        return [None] + [(k, u) for u in SUB_SPELL[pair] for k in "uf"]
    for oa in opts((1, 4)):
        for ob in opts((2, 4)):
            for oi in opts((0, 4)):
                for first in (True, False):
                    e = [(0, 1, "u", "sub/a"), (0, 2, "u", "sub/b")]
                    if oa:
                        e.append((1, 4, oa[0], oa[1]))
                    if ob:
                        e.append((2, 4, ob[0], ob[1]))
                    if oi:
                        e.insert(0 if first else 2, (0, 4, oi[0], oi[1]))
                    elif not first:
                        continue
                    yield subdir_case(e, "subdir")
    for s0 in SUB_SPELL[(0, 5)]:
        for src in (1, 2, 3):
            for u in SUB_SPELL[(src, 5)]:
                for k0 in "uf":
                    for k1 in "uf":
                        first = (0, src, "u", SUB_SPELL[(0, src)][0])
                        yield subdir_case([(0, 5, k0, s0), first, (src, 5, k1, u)], "subdir")
                        yield subdir_case([first, (src, 5, k1, u), (0, 5, k0, s0)], "subdir")
    keys = [p for p in SUB_SPELL if p[0] < p[1] or p[0] == 3]
    for _ in range((1500 if quick else 15000) * boost):
        edges, seen = [], set()
        for _ in range(rng.randint(3, 7)):
            p = rng.choice(keys)
            if p in seen or (p[1], p[0]) in seen:
                continue
            seen.add(p)
            edges.append((p[0], p[1], rng.choice("uuf"), rng.choice(SUB_SPELL[p])))
        edges.sort(key=lambda e: rng.random())
        yield subdir_case(edges, "subdir-random")


def statement(pc, im):
    if im.cls in ("abort", "panic", "bad"):
        return "compilation crashed or did not terminate: " + im.raw[:40]
    if im.cls != "ok":
        return None
    cls, execs = L.spec_walk(pc)
    # which files are targets of @import / load-css somewhere (their markers may repeat legitimately)
    non_module = set()
    for f, its in pc.files:
        for it in its:
            if it[0] in "iIl":
                p = L.lookup(pc, f, L.KINDS[it[0]], it[1:])
                if p is not None:
                    non_module.add(p)
    for f, _ in pc.files:
        if f == pc.root or f in non_module:
            continue
        n = im.markers.count("f%d" % pc.tag[f])
        if n > 1:
            return f"module {f} is executed {n} times (its CSS appears {n} times)"
        if cls == "ok" and execs.get(f, 0) >= 1 and n == 0 and pc.items[f]:
            return f"module {f} is reached through @use/@forward but its CSS is missing"
    # every user sees the same module variables: the k-th read of a module's counter gives k-1
    seq = {}
    for m in im.markers:
        if m.startswith("r"):
            site, val = m[1:].split("=")
            tag, j = site.split("_")
            item = pc.files[int(tag)][1][int(j)]
            target = int(item.split(".")[1])
            seq.setdefault(target, []).append(val)
    for t, vals in seq.items():
        if pc.files[t][0] in non_module:
            continue
        if vals != [str(i) for i in range(len(vals))]:
            return f"users of module {pc.files[t][0]} read its counter as {','.join(vals)}: they do not share one module"
    return None


def judge(case, impl, asis, spec):
    pc = L.Parsed(case.lines[0])
    im = L.Impl(impl)
    if not any("//" in it for _, its in pc.files for it in its):
        L.consistency(pc, spec)
    return Verdict(L.corresponds(im, asis), statement(pc, im))


def nontrivial(case, impl, spec):
    return bool(case.note.get("multi")) and impl.startswith("ok:")


LEVEL_TEXT = ("Proof (Lean 4) over a model of CssData::load_module and the Item::Use/Item::Forward arms of handle_item, generic "
              "in the name-resolution function: no name is executed as a module twice, all users of a name receive the same "
              "module id, hence the same counter; with file identity as the name (specification) this is once per file. "
              "Partial theorems + refutations for the code (fresh cache inside @import, names with empty segments; textual "
              "keys before commit 51f269b). Tied to the code by exhaustive differential runs over use/forward graphs.")
LEVEL_NOTE = ("Trusted: Lean kernel; harness virtual loader and rendering; the Python statement of C03.")
TECHNIQUE = "Lean 4 theorems over a model of the module cache + exhaustive differential correspondence over use/forward graphs"
