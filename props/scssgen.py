"""Structured SCSS program generator shared by C35 / C38 / C40 (owned by the C35 family).

Programs are ASTs; the printer emits a token stream in which every gap between two tokens
is one of the separator kinds below, so that a rewriter can put extra whitespace / silent
comments exactly where the Sass grammar allows them (C35) without ever touching raw text:

  SP    a mandatory gap (default " "): whitespace and silent comments may be added
  SPW   a mandatory gap (default " "): only blanks/newlines may be added (selectors,
        at-rule headers, interpolation)
  OPT   an optional gap (default ""): whitespace and silent comments may be added
  NL    statement boundary (default newline): whitespace and silent comments may be added

Every random choice comes from the `rng` handed in.
"""

SP, SPW, OPT, NL = ("sep", "sp"), ("sep", "spw"), ("sep", "opt"), ("sep", "nl")
DEFAULT = {SP: " ", SPW: " ", OPT: "", NL: "\n"}


def render(tokens, filler=None):
    out = []
    for t in tokens:
        if isinstance(t, tuple):
            out.append(filler(t) if filler else DEFAULT[t])
        else:
            out.append(t)
    return "".join(out)


# ---------------------------------------------------------------- expressions
class E:
    slashy = False      # contains a literal `/`
    lazy_ctx = False    # children are evaluated lazily (if(), and/or): no hoisting out of them

    def kids(self):
        return []

    def set_kid(self, i, e):
        raise NotImplementedError

    def toks(self, o):
        raise NotImplementedError


class Lit(E):
    """a single-token literal: number, identifier, hex colour, quoted string without interpolation"""

    def __init__(self, text, ty):
        self.text, self.ty = text, ty

    def toks(self, o):
        o.append(self.text)


class Var(E):
    def __init__(self, name, ty="any"):
        self.name, self.ty = name, ty

    def toks(self, o):
        o.append(("var", self.name))


class Bin(E):
    def __init__(self, op, l, r, ty):
        # the tree must be the tree Sass parses: an operand that is itself an operation is parenthesised
        if isinstance(l, (Bin, Not)):
            l = Paren(l)
        if isinstance(r, (Bin, Not)):
            r = Paren(r)
        self.op, self.l, self.r, self.ty = op, l, r, ty
        self.slashy = op == "/"
        self.lazy_ctx = op in ("and", "or")

    def kids(self):
        return [self.l, self.r]

    def set_kid(self, i, e):
        if i == 0:
            self.l = e
        else:
            self.r = e

    def toks(self, o):
        self.l.toks(o)
        if self.op == "/":
            o.append("/")
        elif self.op in LOGIC_OPS:
            o += [SPL, self.op, SPL]
        else:
            o += [SP, self.op, SP]
        self.r.toks(o)


class Paren(E):
    def __init__(self, e):
        self.e, self.ty = e, e.ty

    def kids(self):
        return [self.e]

    def set_kid(self, i, e):
        self.e = e

    def toks(self, o):
        o += ["(", OPT]
        self.e.toks(o)
        o += [OPT, ")"]


class Not(E):
    ty = "bool"

    def __init__(self, e):
        self.e = e

    def kids(self):
        return [self.e]

    def set_kid(self, i, e):
        self.e = e

    def toks(self, o):
        o += ["not", SPL]
        self.e.toks(o)


class Call(E):
    """kind: 'builtin' (global built-in), 'mod' (math.div ...), 'user' (renamable), 'css' (plain CSS function)"""

    def __init__(self, name, args, ty, kind="builtin", kw=None):
        self.name, self.ty, self.kind = name, ty, kind
        # a bare comma list would be split into several arguments
        self.args = [Paren(a) if isinstance(a, SList) and a.sep == "," and not a.bracket else a for a in args]
        self.kw = kw or [None] * len(self.args)
        self.lazy_ctx = name == "if"

    def kids(self):
        return self.args

    def set_kid(self, i, e):
        self.args[i] = e

    def toks(self, o):
        o.append(("fn", self.name) if self.kind == "user" else self.name)
        o += ["(", OPT]
        for i, a in enumerate(self.args):
            if i:
                o += [OPT, ",", SP]
            if self.kw[i]:
                o += [("var", self.kw[i]), ":", SP]
            a.toks(o)
        o += [OPT, ")"]


class SList(E):
    ty = "list"

    def __init__(self, items, sep=" ", bracket=False):
        self.items, self.sep, self.bracket = list(items), sep, bracket

    def kids(self):
        return self.items

    def set_kid(self, i, e):
        self.items[i] = e

    def toks(self, o):
        if self.bracket:
            o += ["[", OPTB]
        for i, a in enumerate(self.items):
            if i:
                o += [SP] if self.sep == " " else [OPT, ",", SP]
            a.toks(o)
        if self.bracket:
            o += [OPT, "]"]


class Map(E):
    ty = "map"

    def __init__(self, pairs):
        self.pairs = pairs

    def kids(self):
        return [v for _, v in self.pairs]

    def set_kid(self, i, e):
        self.pairs[i] = (self.pairs[i][0], e)

    def toks(self, o):
        o += ["(", OPT]
        for i, (k, v) in enumerate(self.pairs):
            if i:
                o += [OPT, ",", SP]
            o += [k, OPT, ":", SP]
            v.toks(o)
        o += [OPT, ")"]


class Interp(E):
    """`pre#{e}post` as one unquoted (or quoted) string token sequence"""

    def __init__(self, pre, e, post, quoted=False):
        self.pre, self.e, self.post, self.quoted = pre, e, post, quoted
        self.ty = "str"

    def kids(self):
        return [self.e]

    def set_kid(self, i, e):
        self.e = e

    def toks(self, o):
        q = '"' if self.quoted else ""
        o += [q + self.pre + "#{", OPTWL]
        self.e.toks(o)
        o += [SPW_OPT, "}" + self.post + q]


SPW_OPT = ("sep", "optw")   # optional gap, blanks only
DEFAULT[SPW_OPT] = ""
# gaps with their own kind because rsass is known to mishandle them (C35 findings): they can be
# switched off one by one when a failure is attributed to a known finding
OPTWL = ("sep", "optwl")    # right after `#{` (blanks only)
OPTB = ("sep", "optb")      # right after `[`
SPL = ("sep", "spl")        # around == != < > <= >= and or / after not
DEFAULT[OPTWL] = ""
DEFAULT[OPTB] = ""
DEFAULT[SPL] = " "
LOGIC_OPS = ("==", "!=", "<", ">", "<=", ">=", "and", "or")

IDENTS = ["bold", "solid", "auto", "none", "block", "a", "b-c", "d_e", "inherit", "serif", "x1"]
COLORS = ["red", "blue", "#ff0000", "#0a0b0c", "#abc", "green", "#FFF", "transparent"]
STRS = ['"a"', '"hello world"', '"b-c"', "'q'", '""', '"x/y"', '"é"', '"a\\"b"', '"tab\\9 end"', "'it\\'s'"]
UNITS = ["", "", "px", "px", "%", "em", "s", "deg"]


class Gen:
    def __init__(self, rng, closed=False, allow_math=True):
        self.r = rng
        self.vars = []        # visible variables: (name, type)
        self.funcs = []       # user functions: (name, nparams)
        self.mixins = []      # (name, nparams, has_content)
        self.uses_math = False
        self.closed = closed  # no variables at all (C38 value generator)
        self.allow_math = allow_math
        self.n = 0

    def fresh(self, base):
        self.n += 1
        sep = self.r.choice(["-", "_", ""])
        return f"{base}{sep}{self.n}"

    # -- numbers
    def num_lit(self, unit=None):
        r = self.r
        u = r.choice(UNITS) if unit is None else unit
        k = r.random()
        if k < 0.5:
            t = str(r.randint(0, 40))
        elif k < 0.8:
            t = f"{r.randint(0, 20)}.{r.randint(1, 99)}"
        elif k < 0.9:
            t = f"{r.randint(0, 3)}.{r.randint(1, 10 ** 12)}"
        else:
            t = "." + str(r.randint(1, 9))
        return Lit(t + u, "num")

    def var_of(self, ty):
        c = [v for v in self.vars if v[1] == ty]
        if c and not self.closed:
            n, t = self.r.choice(c)
            return Var(n, t)
        return None

    def num(self, d, unit=None):
        r = self.r
        if unit is None:
            unit = r.choice(UNITS)
        k = r.random()
        if d <= 0 or k < 0.35:
            v = self.var_of("num" + unit) if r.random() < 0.5 else None
            return v or self.num_lit(unit)
        if k < 0.6:
            op = r.choice("+-+-%")
            e = Bin(op, self.num(d - 1, unit), self.num(d - 1, unit), "num")
            return Paren(e) if r.random() < 0.4 else e
        if k < 0.72:
            l, rr = self.num(d - 1, unit), self.num(d - 1, "")
            if isinstance(l, Bin):
                l = Paren(l)
            if isinstance(rr, Bin):
                rr = Paren(rr)
            return Bin("*", l, rr, "num")
        if k < 0.82:
            f = r.choice(["round", "ceil", "floor", "abs"])
            return Call(f, [self.num(d - 1, unit)], "num")
        if k < 0.88:
            return Call(r.choice(["min", "max"]), [self.num(d - 1, unit) for _ in range(r.randint(2, 3))], "num")
        if k < 0.93 and self.allow_math:
            self.uses_math = True
            return Call("math.div", [self.num(d - 1, unit), Lit(str(r.randint(1, 9)), "num")], "num", "mod")
        if k < 0.96 and unit == "%":
            return Call("percentage", [self.num_lit("")], "num")
        if self.funcs and not self.closed:
            n, k2 = r.choice(self.funcs)
            return Call(n, [self.num(d - 1, unit)] + [self.num(0, "") for _ in range(k2 - 1)], "num", "user")
        return Call("if", [self.boolean(d - 1), self.num(d - 1, unit), self.num(d - 1, unit)], "num")

    def string(self, d):
        r = self.r
        k = r.random()
        if d <= 0 or k < 0.4:
            v = self.var_of("str") if r.random() < 0.4 else None
            return v or Lit(r.choice(STRS + IDENTS), "str")
        if k < 0.55:
            return Bin("+", self.string(d - 1), r.choice([self.string(d - 1), self.num_lit()]), "str")
        if k < 0.7:
            return Interp(r.choice(["", "w-", "a"]), self.any(d - 1, simple=True), r.choice(["", "-z", "px"]),
                          quoted=r.random() < 0.4)
        if k < 0.8:
            return Call(r.choice(["quote", "unquote", "to-upper-case", "to-lower-case"]), [self.string(d - 1)], "str")
        if k < 0.86:
            return Call("str-slice", [self.string(d - 1), Lit(str(r.randint(1, 3)), "num")], "str")
        if k < 0.92:
            return Call("str-insert", [self.string(d - 1), self.string(0), Lit(str(r.randint(0, 3)), "num")], "str")
        return Call("if", [self.boolean(d - 1), self.string(d - 1), self.string(d - 1)], "str")

    def color(self, d):
        r = self.r
        k = r.random()
        if d <= 0 or k < 0.5:
            v = self.var_of("color") if r.random() < 0.4 else None
            return v or Lit(r.choice(COLORS), "color")
        if k < 0.7:
            return Call(r.choice(["lighten", "darken", "saturate", "desaturate"]),
                        [self.color(d - 1), Lit(str(r.randint(0, 50)) + "%", "num")], "color")
        if k < 0.8:
            return Call("mix", [self.color(d - 1), self.color(d - 1)], "color")
        if k < 0.9:
            return Call("rgba", [self.color(d - 1), Lit(r.choice(["0.5", ".25", "1", "0"]), "num")], "color")
        return Call("rgb", [Lit(str(r.randint(0, 255)), "num") for _ in range(3)], "color")

    def boolean(self, d):
        r = self.r
        k = r.random()
        if d <= 0 or k < 0.3:
            v = self.var_of("bool") if r.random() < 0.5 else None
            return v or Lit(r.choice(["true", "false"]), "bool")
        if k < 0.6:
            u = r.choice(["", "px"])
            return Bin(r.choice(["==", "!=", "<", ">", "<=", ">="]), self.num(d - 1, u), self.num(d - 1, u), "bool")
        if k < 0.7:
            return Bin(r.choice(["==", "!="]), self.string(d - 1), self.string(d - 1), "bool")
        if k < 0.85:
            l, rr = self.boolean(d - 1), self.boolean(d - 1)
            if isinstance(l, Bin):
                l = Paren(l)
            if isinstance(rr, Bin):
                rr = Paren(rr)
            return Bin(r.choice(["and", "or"]), l, rr, "bool")
        e = self.boolean(d - 1)
        return Not(Paren(e) if isinstance(e, Bin) else e)

    def lst(self, d):
        r = self.r
        k = r.random()
        if d <= 0 or k < 0.2:
            v = self.var_of("list") if r.random() < 0.5 else None
            if v:
                return v
        n = r.randint(2, 4)
        if k < 0.6:
            items = [self.any(d - 1, simple=True) for _ in range(n)]
            return SList(items, " ", bracket=r.random() < 0.1)
        if k < 0.85:
            items = [r.choice([self.any(d - 1, simple=True), SList([self.any(0, simple=True) for _ in range(2)])])
                     for _ in range(n)]
            return SList(items, ",", bracket=r.random() < 0.1)
        if k < 0.93:
            return Call(r.choice(["join", "append"]), [self.lst(d - 1), self.lst(d - 1) if r.random() < 0.5 else
                                                       self.any(0, simple=True)], "list")
        return Call("nth", [self.lst(d - 1), Lit("1", "num")], "any")

    def map_lit(self, d):
        r = self.r
        keys = r.sample(["a", "b-c", "modal", "k1", "primary", '"q"', "x_y"], r.randint(1, 4))
        def val():
            e = self.any(d, simple=r.random() < 0.5) if r.random() < 0.8 else self.lst(0)
            # a bare comma list would end the map entry
            return Paren(e) if isinstance(e, SList) and e.sep == "," and not e.bracket else e
        return Map([(k, val()) for k in keys])

    def any(self, d, simple=False):
        """a value that prints as valid CSS; `simple` = a single list element (space-free at top level)"""
        r = self.r
        k = r.random()
        if k < 0.35:
            e = self.num(d)
            return Paren(e) if simple and isinstance(e, Bin) else e
        if k < 0.6:
            e = self.string(d)
            return Paren(e) if simple and isinstance(e, Bin) else e
        if k < 0.75:
            return self.color(d)
        if k < 0.8:
            e = self.boolean(d)
            return Paren(e) if simple and isinstance(e, (Bin, Not)) else e
        if k < 0.86:
            return Call(r.choice(["translate", "foo", "var", "url-ish"]),
                        [self.any(d - 1, simple=True) for _ in range(r.randint(1, 2))], "str", "css")
        if k < 0.9:
            f = r.choice(["length", "str-length", "type-of", "unit", "unitless", "inspect"])
            a = self.string(d - 1) if f == "str-length" else self.num(d - 1) if f.startswith("unit") else \
                self.any(d - 1, simple=True)
            return Call(f, [a], "any")
        if simple:
            return Paren(self.lst(d)) if r.random() < 0.5 else self.num(d - 1)
        return self.lst(d)

    def typed(self, ty, d):
        if ty.startswith("num"):
            return self.num(d, ty[3:])
        return {"str": self.string, "color": self.color, "bool": self.boolean, "list": self.lst}.get(ty, self.any)(d)

    # ------------------------------------------------------------ statements
    def block(self, depth, ctx, n=None):
        """ctx: 'top' | 'rule' | 'mixin' (rule-like body at unknown position) | 'func'"""
        r = self.r
        saved = list(self.vars)
        body = []
        for _ in range(n if n is not None else r.randint(1, 4)):
            body.append(self.stmt(depth, ctx))
        self.vars = saved
        return body

    def stmt(self, depth, ctx):
        r = self.r
        k = r.random()
        in_rule = ctx in ("rule", "mixin")
        if ctx == "func":
            return self.func_stmt(depth)
        if k < 0.22 or (depth <= 0 and k < 0.5 and not in_rule):
            return self.vardecl(depth)
        if in_rule and k < 0.6:
            return self.decl(depth)
        if k < 0.62 and depth > 0:
            if r.random() < 0.08:
                # BEM-style suffix under a plain class parent
                return Rule(r.choice([".blk", ".a-b"]), [Rule(r.choice(["&-suffix", "&__el"]), self.block(depth - 1, "rule"))])
            return Rule(self.selector(ctx), self.block(depth - 1, "rule"))
        if k < 0.68 and depth > 0:
            return If([(self.boolean(2), self.block(depth - 1, ctx, r.randint(1, 2)))
                       for _ in range(r.randint(1, 2))],
                      self.block(depth - 1, ctx, 1) if r.random() < 0.5 else None)
        if k < 0.73 and depth > 0:
            v = self.fresh("i")
            saved = list(self.vars)
            self.vars.append((v, "num"))
            body = self.block(depth - 1, ctx, r.randint(1, 2))
            self.vars = saved
            return For(v, Lit(str(r.randint(0, 2)), "num"), Lit(str(r.randint(1, 4)), "num"),
                       r.choice(["through", "to"]), body)
        if k < 0.78 and depth > 0:
            v = self.fresh("it")
            lst = self.lst(1)
            saved = list(self.vars)
            self.vars.append((v, "any"))
            body = self.block(depth - 1, ctx, r.randint(1, 2))
            self.vars = saved
            return Each(v, lst, body)
        if k < 0.83 and self.mixins:
            n, np, hc = r.choice(self.mixins)
            args = [self.num(1, "px") for _ in range(np if r.random() < 0.9 else r.randint(0, np + 1))]
            content = self.block(depth - 1, "rule", r.randint(1, 2)) if hc and depth > 0 else None
            inc = Include(n, args, content)
            return inc if in_rule else Rule(self.selector(ctx), [inc])
        if k < 0.87 and depth > 0:
            return Media(r.choice(["screen", "print and (min-width: 100px)", "(max-width: 40em)"]),
                         self.block(depth - 1, ctx, r.randint(1, 2)) if in_rule else
                         [Rule(self.selector("top"), self.block(depth - 1, "rule", 2))])
        if k < 0.9:
            return Comment(r.choice(["/* loud */", "/* two\n * lines */", "/* x #{1 + 1} */", "/*! keep */"]))
        if k < 0.97:
            return self.map_stmt(depth, ctx)
        if in_rule:
            return self.decl(depth)
        return Rule(self.selector(ctx), self.block(max(depth - 1, 0), "rule"))

    def map_stmt(self, depth, ctx):
        """a map literal consumed by `@each $k, $v in …` or by map-get"""
        r = self.r
        m = self.map_lit(1)
        in_rule = ctx in ("rule", "mixin")
        k = r.random()
        if k < 0.45:
            kv, vv = self.fresh("key"), self.fresh("val")
            src = m
            if r.random() < 0.5:
                name = self.fresh("map")
                self.vars.append((name, "map"))
                src = Var(name, "map")
                pre = [VarDecl(name, m)]
            else:
                pre = []
            body = [Decl("k", Var(vv), False, Interp("k-", Var(kv), ""))]
            each = Each(kv, src, body if in_rule else [Rule(self.selector("top"), body)], var2=vv)
            return each if not pre else If([(Lit("true", "bool"), pre + [each])], None)
        key = Lit(m.pairs[r.randrange(len(m.pairs))][0], "str")
        fn = r.choice(["map-get", "map-has-key", "map-get"])
        d = Decl(r.choice(["width", "z"]), Call(fn, [m, key], "any"))
        return d if in_rule else Rule(self.selector("top"), [d])

    def vardecl(self, depth, ty=None):
        r = self.r
        ty = ty or r.choice(["numpx", "num", "num%", "str", "color", "bool", "list", "numpx"])
        e = self.typed(ty, 2)
        reuse = [v for v in self.vars if v[1] == ty]
        if reuse and r.random() < 0.25:
            name = r.choice(reuse)[0]
        else:
            name = self.fresh(r.choice(["v", "size", "main-color", "gap_x", "w"]))
            self.vars.append((name, ty))
        return VarDecl(name, e, r.choice(["", "", "", " !default", " !global"]) if r.random() < 0.3 else "")

    def decl(self, depth):
        r = self.r
        prop = r.choice(["width", "color", "margin", "content", "font-family", "border", "x-y", "transition", "z"])
        e = self.any(2)
        if r.random() < 0.06:
            e = Bin("/", self.num_lit(), self.num_lit(), "num")
        pi = None
        if r.random() < 0.1:
            pi = Interp(r.choice(["", "margin-"]), self.string(0), r.choice(["", "-top"]))
        return Decl(prop, e, r.random() < 0.08, pi)

    def selector(self, ctx):
        r = self.r
        base = [".a", ".b", "p", "ul li", "a:hover", ".c > .d", "#id", "h1, h2", "[x=y]", ".e.f", "a + b"]
        if ctx in ("rule", "mixin"):
            # `&-suffix` under a parent ending in `]`/`)`/`*` is the known C01 panic (resolve_ref unwrap):
            # the suffix form is only offered together with a parent that cannot trigger it
            base += ["&:hover", "&.on", "& + &", ".p &", "& > i", "&, .q"]
        return r.choice(base)

    def func_stmt(self, depth):
        r = self.r
        if r.random() < 0.5:
            return self.vardecl(0, "num")
        return Return(self.num(2, ""))

    def toplevel(self, size=None):
        """a whole program: list of top-level statements"""
        r = self.r
        prog = []
        n = size or r.randint(3, 9)
        for _ in range(n):
            k = r.random()
            if k < 0.12:
                name = self.fresh(r.choice(["mx", "box-size", "m_y"]))
                np = r.randint(0, 2)
                ps = [(self.fresh("p"), self.num_lit("px") if r.random() < 0.4 else None) for _ in range(np)]
                # a parameter without default may not follow one with a default
                seen_default = False
                for i, (pn, dflt) in enumerate(ps):
                    if seen_default and dflt is None:
                        ps[i] = (pn, self.num_lit("px"))
                    seen_default = seen_default or ps[i][1] is not None
                saved = list(self.vars)
                self.vars += [(pn, "numpx") for pn, _ in ps]
                hc = r.random() < 0.3
                body = self.block(1, "mixin")
                if hc:
                    body.append(Content())
                self.vars = saved
                prog.append(MixinDef(name, ps, body))
                self.mixins.append((name, np, hc))
            elif k < 0.22:
                name = self.fresh(r.choice(["fn", "double-it", "calc_w"]))
                np = r.randint(1, 2)
                ps = [(self.fresh("a"), None) for _ in range(np)]
                saved, savedf = list(self.vars), list(self.funcs)
                self.vars = [(pn, "num") for pn, _ in ps]  # functions see globals too, keep it simple
                body = [self.func_stmt(1) for _ in range(r.randint(0, 2))]
                if r.random() < 0.3:
                    body.append(If([(self.boolean(1), [Return(self.num(1, ""))])], None))
                body.append(Return(self.num(2, "")))
                self.vars, self.funcs = saved, savedf
                prog.append(FuncDef(name, ps, body))
                self.funcs.append((name, np))
            else:
                prog.append(self.stmt(2, "top"))
        return prog


# ---------------------------------------------------------------- statement nodes
class S:
    def blocks(self):
        """child statement lists (each a python list that may be edited in place)"""
        return []


class VarDecl(S):
    def __init__(self, name, e, flag=""):
        self.name, self.e, self.flag = name, e, flag

    def toks(self, o):
        o += [("var", self.name), ":", SP]
        self.e.toks(o)
        if self.flag:
            o += [SP, self.flag.strip()]
        o += [OPT, ";"]


class Decl(S):
    def __init__(self, prop, e, important=False, prop_interp=None):
        self.prop, self.e, self.important, self.pi = prop, e, important, prop_interp

    def toks(self, o):
        if self.pi:
            self.pi.toks(o)
        else:
            o.append(self.prop)
        o += [":", SP]
        self.e.toks(o)
        if self.important:
            o += [SP, "!important"]
        o += [OPT, ";"]


class Rule(S):
    def __init__(self, sel, body):
        self.sel, self.body = sel, body

    def blocks(self):
        return [self.body]

    def toks(self, o):
        o += [self.sel, SPW]
        emit_block(self.body, o)


class Media(S):
    def __init__(self, q, body):
        self.q, self.body = q, body

    def blocks(self):
        return [self.body]

    def toks(self, o):
        o += ["@media", SPW, self.q, SPW]
        emit_block(self.body, o)


class If(S):
    def __init__(self, branches, els):
        self.branches, self.els = branches, els

    def blocks(self):
        return [b for _, b in self.branches] + ([self.els] if self.els is not None else [])

    def toks(self, o):
        for i, (c, b) in enumerate(self.branches):
            o += ["@if", SPW] if i == 0 else [SPW, "@else", SPW, "if", SPW]
            c.toks(o)
            o += [SPW]
            emit_block(b, o)
        if self.els is not None:
            o += [SPW, "@else", SPW]
            emit_block(self.els, o)


class For(S):
    def __init__(self, var, a, b, kind, body):
        self.var, self.a, self.b, self.kind, self.body = var, a, b, kind, body

    def blocks(self):
        return [self.body]

    def toks(self, o):
        o += ["@for", SPW, ("var", self.var), SPW, "from", SPW]
        self.a.toks(o)
        o += [SPW, self.kind, SPW]
        self.b.toks(o)
        o += [SPW]
        emit_block(self.body, o)


class Each(S):
    def __init__(self, var, e, body, var2=None):
        self.var, self.e, self.body, self.var2 = var, e, body, var2

    def blocks(self):
        return [self.body]

    def toks(self, o):
        o += ["@each", SPW, ("var", self.var)]
        if self.var2:
            o += [SPW_OPT, ",", SPW, ("var", self.var2)]
        o += [SPW, "in", SPW]
        self.e.toks(o)
        o += [SPW]
        emit_block(self.body, o)


class MixinDef(S):
    def __init__(self, name, params, body):
        self.name, self.params, self.body = name, params, body

    def blocks(self):
        return [self.body]

    def toks(self, o):
        o += ["@mixin", SPW, ("mx", self.name)]
        emit_params(self.params, o)
        o += [SPW]
        emit_block(self.body, o)


class FuncDef(S):
    def __init__(self, name, params, body):
        self.name, self.params, self.body = name, params, body

    def blocks(self):
        return [self.body]

    def toks(self, o):
        o += ["@function", SPW, ("fn", self.name)]
        emit_params(self.params, o)
        o += [SPW]
        emit_block(self.body, o)


class Include(S):
    def __init__(self, name, args, content=None):
        self.name, self.args, self.content = name, list(args), content

    def blocks(self):
        return [self.content] if self.content is not None else []

    def toks(self, o):
        o += ["@include", SPW, ("mx", self.name)]
        if self.args or self.content is None:
            o += ["(", OPT]
            for i, a in enumerate(self.args):
                if i:
                    o += [OPT, ",", SP]
                a.toks(o)
            o += [OPT, ")"]
        if self.content is not None:
            o += [SPW]
            emit_block(self.content, o)
        else:
            o += [OPT, ";"]


class Content(S):
    def toks(self, o):
        o += ["@content", OPT, ";"]


class Return(S):
    def __init__(self, e):
        self.e = e

    def toks(self, o):
        o += ["@return", SP]
        self.e.toks(o)
        o += [OPT, ";"]


class Comment(S):
    def __init__(self, text):
        self.text = text

    def toks(self, o):
        o.append(self.text)


class Diag(S):
    """@debug / @warn"""

    def __init__(self, kind, e):
        self.kind, self.e = kind, e

    def toks(self, o):
        o += ["@" + self.kind, SP]
        self.e.toks(o)
        o += [OPT, ";"]


INLINE_IMPORTS = [False]


class ImportPartial(S):
    """`@import "name";` of a partial that holds `frag` (C35's move-into-partial rewrite); with
    INLINE_IMPORTS set the fragment is printed in place instead (the rewrite undone)"""

    def __init__(self, name, frag):
        self.name, self.frag = name, frag

    def blocks(self):
        return []

    def toks(self, o):
        if INLINE_IMPORTS[0]:
            for i, st in enumerate(self.frag):
                if i:
                    o.append(NL)
                st.toks(o)
        else:
            o.append(f'@import "{self.name}";')


class Raw(S):
    """verbatim statement text (one token)"""

    def __init__(self, text):
        self.text = text

    def toks(self, o):
        o.append(self.text)


def emit_params(params, o):
    o += ["(", OPT]
    for i, (n, d) in enumerate(params):
        if i:
            o += [OPT, ",", SP]
        o.append(("var", n))
        if d is not None:
            o += [":", SP]
            d.toks(o)
    o += [OPT, ")"]


def emit_block(body, o):
    o += ["{", NL]
    for s in body:
        s.toks(o)
        o.append(NL)
    o.append("}")


def prog_tokens(prog, header=()):
    o = []
    for h in header:
        o += [h, NL]
    for s in prog:
        s.toks(o)
        o.append(NL)
    return o


def spell(tok, names=None):
    """token -> text; name tokens ('var'|'fn'|'mx', name) are spelled through `names`"""
    kind, n = tok
    if names:
        n = names(kind, n)
    return ("$" + n) if kind == "var" else n


def source(prog, uses_math=False, filler=None, names=None):
    toks = prog_tokens(prog, ['@use "sass:math";'] if uses_math else [])
    out = []
    for t in toks:
        if isinstance(t, tuple) and t[0] != "sep":
            out.append(spell(t, names))
        else:
            out.append(t)
    return render(out, filler)


def program(rng, size=None):
    g = Gen(rng)
    prog = g.toplevel(size)
    return g, prog


def closed_value(rng, depth=3):
    """a closed value expression (no variables, no user functions, no module functions) as source text"""
    g = Gen(rng, closed=True, allow_math=False)
    e = g.any(depth)
    o = []
    e.toks(o)
    return render([spell(t) if isinstance(t, tuple) and t[0] != "sep" else t for t in o])
