"""C06 — unique-id() is unique and random() stays in range."""
import os
import re
from fractions import Fraction
from tools import vlib
from tools.vlib import Case, Verdict, hx, unhx

ID = "C06"
DRIVER = "drv_C06"
THEOREM_MODS = ["RsassModel.Theorems.C06"]
LEVEL = "proof"
CASE_TIMEOUT = 600
RULE = ("uid cases = (threads 1..16, compilations per thread, unique-id() calls per compilation, call form: global / "
        "string.unique-id / meta.call(get-function) / @for loop / interpolated user function / mixture) run inside ONE "
        "harness process, ids collected from the compiled CSS; quick totals up to 16 x 10^4 calls, thorough 16 x 10^5; "
        "'fresh' uid cases run in a new process so that the first id is compared with the pid-derived initial counter; "
        "rand cases = one limit each (log-uniform integers 1..2^53, powers of two +-1, 1, non-positive, non-integer, "
        "near-integers on both sides of the tolerances, units, non-numbers, NaN/infinity, huge, null/no argument), 2-20 "
        "draws per limit alternating math.random / random; rand-seeded cases = fastrand's thread-local generator put "
        "into extreme states (next 64-bit word 0 in two ways, the near-maximal unit draw of 2^22 searched states, random "
        "seeds) before ONE math.random(limit) / math.random(), compared with the model fed the very draws a clone of "
        "the generator makes; non-trivial = ids or numbers were returned")
TRUSTED = ["std::sync::Mutex atomicity (a concurrent run is some total order of lock acquisitions) — model parameter",
           "fastrand contract (i64(0..b) in [0,b), f64() in [0,1)) — model parameter, sampled by the rand cases",
           "harness extraction of ids/values from the compiled CSS (ops/c06.rs) and its sort/duplicate count",
           "python Fraction parse of the printed numbers (precision 20)"]
ASSUMPTIONS = ["u64 wrap of CALL_ID is out of reach (theorem init_no_wrap: 2^63 calls from any pid do not wrap)",
               "limits are given as the exact rational of their f64 value; generated non-integers stay away from the "
               "tolerance boundaries (2^-23, 1e-11) by a factor, so f64 rounding of `int - value` cannot flip the branch",
               "interleavings are perturbed by 16 OS threads x many short compilations and yield_now(); there are no "
               "yield hooks inside rsass's lock section"]

IDENT = re.compile(r"(?:--|-?[A-Za-z_\u0080-\U0010ffff])[-A-Za-z0-9_\u0080-\U0010ffff]*\Z")
XHEX = re.compile(r"x[0-9a-f]+\Z")


def kv(line):
    d = {}
    for part in line.split("\t"):
        if "=" in part:
            k, v = part.split("=", 1)
            d[k] = v
    return d


def uid_line(t, c, k, mode):
    return f"uid\t{t}\t{c}\t{k}\t{mode}"


def frac_term(x):
    """exact rational of a python float / int as the driver's term"""
    fr = Fraction(x)
    return f"num:{fr.numerator}:{fr.denominator}"


def rand_case(src, n, term, stratum):
    return Case(f"rand\t{hx(src)}\t{n}\t{term}", stratum)


def lit(x):
    """SCSS literal of a float without exponent"""
    if isinstance(x, int):
        return str(x)
    from decimal import Decimal
    d = format(Decimal(x), "f")
    # at most 25 fractional digits are plenty (f64 has 17 significant)
    if "." in d:
        ip, fp = d.split(".")
        d = ip + "." + fp[:25].rstrip("0") if fp[:25].rstrip("0") else ip
    return d


def gen(tier, rng, boost=1):
    quick = tier == "quick"
    # ---- unique-id: fresh-process cases (initial counter) ----
    for mode in (0, 9):
        yield Case(uid_line(1, 1, 3, mode), "uid-fresh", {"fresh": True})
    yield Case(uid_line(8, 50, 2, 9), "uid-fresh", {"fresh": True})
    # ---- unique-id: the big concurrent runs of the quantifier ----
    per_thread = 10 ** 4 if quick else 10 ** 5
    for mode in ((9,) if quick else (9, 0, 1)):
        yield Case(uid_line(16, per_thread // 5, 5, mode), "uid-16-threads")
    yield Case(uid_line(16, per_thread // 50, 1, 0), "uid-16-threads-1call")
    for mode in (0, 1, 2, 3, 4):
        yield Case(uid_line(16, 200, 3, mode), "uid-forms")
    for _ in range((12 if quick else 60) * boost):
        t = rng.choice([1, 2, 3, 4, 8, 16, rng.randint(1, 16)])
        yield Case(uid_line(t, rng.randint(1, 400), rng.randint(1, 8), rng.choice([0, 1, 2, 3, 4, 9])), "uid-random")
    # ---- random with the generator put into extreme states (zero word, zero via xor constant, near-max) ----
    lims = [1, 2, 3, 7, 8, 10, 100, 255, 256, 9999, 2 ** 31, 2 ** 32 + 1, 2 ** 53 - 1, 2 ** 53]
    seeded = []
    for st in ("zero0", "zero1", "max"):
        seeded.append(Case(f"randseed\t{st}\t\t0\tnull", "rand-seeded-unit", {"state": st}))
        for v in lims + [rng.randint(1, 2 ** 53) for _ in range(6 if quick else 60)]:
            seeded.append(Case(f"randseed\t{st}\t{hx(str(v))}\t{v}\tnum:{v}:1", "rand-seeded-int", {"state": st}))
    for _ in range((40 if quick else 400) * boost):
        v = rng.choice(lims + [int(2 ** rng.uniform(0, 53))])
        seeded.append(Case(f"randseed\tseed:{rng.getrandbits(64)}\t{hx(str(v))}\t{v}\tnum:{v}:1", "rand-seeded-int"))
    _SEEDED.extend(c.lines[0] for c in seeded)
    yield from seeded
    # ---- random ----
    n_lim = (10 ** 4 if quick else 10 ** 5) * boost
    for v in (1, 2, 3, 10, 255, 2 ** 31 - 1, 2 ** 31, 2 ** 32 + 1, 2 ** 52, 2 ** 53 - 1, 2 ** 53):
        yield rand_case(str(v), 8, f"num:{v}:1", "rand-int-edge")
    for i in range(n_lim):
        k = rng.random()
        if k < 0.6:
            v = int(2 ** rng.uniform(0, 53))
        elif k < 0.8:
            v = rng.randint(1, 2 ** 53)
        elif k < 0.9:
            v = max(1, 2 ** rng.randint(0, 53) + rng.choice([-1, 0, 1]))
        else:
            v = rng.randint(1, 20)
        v = min(v, 2 ** 53)
        yield rand_case(str(v), 2, f"num:{v}:1", "rand-int")
    yield rand_case("", 20, "null", "rand-unit")
    yield rand_case("null", 20, "null", "rand-unit")
    for _ in range(20 * boost):
        yield rand_case("", rng.randint(1, 20), "null", "rand-unit")
    for v in (0, -1, -7, -2 ** 40):
        yield rand_case(str(v), 2, f"num:{v}:1", "rand-nonpositive")
    for _ in range(40 * boost):
        v = -rng.randint(0, 10 ** rng.randint(1, 15))
        yield rand_case(str(v), 2, f"num:{v}:1", "rand-nonpositive")
    for x in (0.5, 2.5, 1.99999, 0.001, 1e-9, 123456.75, -0.5):
        yield rand_case(lit(x), 2, frac_term(x), "rand-noninteger")
    for _ in range(60 * boost):
        base = rng.randint(0, 10 ** rng.randint(0, 6))
        # clearly non-integer: distance from an integer in [2e-7*K, 0.5]
        delta = rng.choice([rng.uniform(0.001, 0.5), 10 ** rng.uniform(-6.5, -3)])
        x = base + rng.choice([-1, 1]) * delta
        if abs(x - round(x)) < 2.5e-7 * max(1.0, abs(x) / 1000):
            continue
        yield rand_case(lit(x), 2, frac_term(x), "rand-noninteger")
    for _ in range(60 * boost):
        # inside the code's f32 tolerance but outside Sass's 1e-11: the known deviation
        base = rng.randint(1, 1000)
        delta = 10 ** rng.uniform(-10, -7.3)
        x = base + rng.choice([-1, 1]) * delta
        yield rand_case(lit(x), 4, frac_term(x), "rand-near-integer-f32eps")
    for _ in range(30 * boost):
        base = rng.randint(1, 200)
        delta = 10 ** rng.uniform(-14, -12.3)
        x = base + rng.choice([-1, 1]) * delta
        yield rand_case(lit(x), 4, frac_term(x), "rand-near-integer-1e-12")
    for src, term in (("5px", "num:5:1"), ("12%", "num:12:1"), ("3em", "num:3:1"), ("$limit: 7", "num:7:1"),
                      ('"a"', "nonnum"), ("true", "nonnum"), ("(1 2)", "nonnum"), ("red", "nonnum"),
                      ("math.div(0,0)", "nan"), ("math.div(1,0)", "inf"), ("math.div(-1,0)", "-inf"),
                      ("1" + "0" * 300, "num:1" + "0" * 300 + ":1"),
                      ("9223372036854775808", f"num:{2 ** 63}:1"), ("9223372036854777856", f"num:{2 ** 63 + 2048}:1"),
                      ("18446744073709551616", f"num:{2 ** 64}:1")):
        yield rand_case(src, 3, term, "rand-other")


def parse_vals(impl):
    return [Fraction(v) for v in impl[3:].split(",") if v != ""]


def limit_of(term):
    p = term.split(":")
    if p[0] == "num":
        return Fraction(int(p[1]), int(p[2]))
    return None


EPS = Fraction(1, 10 ** 11)


def rand_oracle(term, impl):
    """the property's statement on the implementation's own answer"""
    if impl.startswith(("panic:", "abort:")):
        return "crash: " + impl[:60]
    if term == "null":
        if not impl.startswith("ok:"):
            return "random() without limit must return a number"
        vals = parse_vals(impl)
        if not vals:
            return "no value returned"
        for v in vals:
            if not (0 <= v < 1):
                return f"random() returned {v}, not in [0, 1)"
        return None
    L = limit_of(term)
    if L is None:
        return None  # non-numbers / NaN / infinity: the statement says nothing
    if impl.startswith("err:"):
        if L.denominator == 1 and 1 <= L <= 2 ** 53:
            return f"random({L}) must return an integer in [1, {L}] but failed"
        return None
    for v in parse_vals(impl):
        if v.denominator != 1:
            return f"random({float(L)!r}) returned the non-integer {float(v)!r}"
        if v < 1:
            return f"random({float(L)!r}) returned {v} < 1"
        if v - L >= EPS:
            return f"random({float(L)!r}) returned {v}, larger than the limit"
    return None


def _model(lines):
    return vlib.run_model(DRIVER, lines, set())


_SEEDED = []          # the randseed lines generated in this run
_SEEDED_MODEL = {}    # (term, f bits, i) -> model answer, filled by one batched driver call


def _draw_line(term, fbits, i):
    import struct
    fd = Fraction(struct.unpack("<d", struct.pack("<Q", int(fbits)))[0])
    return f"randdraw\t{term}\t{fd.numerator}\t{fd.denominator}\t{i or '0'}"


def _seeded_model(term, fbits, i):
    """the model fed the draws the generator made.  The draws depend on the seeded state only, so they are
    obtained for all generated cases by one extra harness run and one batched driver run (the Lean driver
    flushes its answers only at the end, it cannot be used interactively)."""
    key = (term, fbits, i)
    if key not in _SEEDED_MODEL and _SEEDED:
        outs = vlib.run_impl(_SEEDED, CASE_TIMEOUT)
        keys = []
        for l, o in zip(_SEEDED, outs):
            d = kv(o)
            if "f" in d:
                keys.append((l.split("\t")[4], d["f"], d.get("i", "")))
        keys = sorted(set(keys))
        for k, m in zip(keys, _model([_draw_line(*k) for k in keys])):
            _SEEDED_MODEL[k] = m
        del _SEEDED[:]
    if key not in _SEEDED_MODEL:
        _SEEDED_MODEL[key] = _model([_draw_line(*key)])[0]
    return _SEEDED_MODEL[key]


def judge_uid(case, impl, asis):
    if not impl.startswith("pid="):
        return Verdict(False, "crash: " + impl[:80] if impl.startswith(("panic:", "abort:")) else None)
    line = case.lines[0]
    notes = []
    if case.note.get("fresh"):
        # a new process: the first id must be the pid-derived initial counter + 1
        fresh = vlib.run_impl([line], CASE_TIMEOUT)[0]
        if not fresh.startswith("pid="):
            return Verdict(False, None)
        d = kv(fresh)
        want = _model([f"uidpid\t{d['pid']}"])[0]
        if d["first"] != want:
            notes.append("fresh-first")
        impl = fresh
    d = kv(impl)
    n = int(d["n"])
    fails = None
    ids = None
    if "ids" in d:
        ids = unhx(d["ids"]).split(",") if d["ids"] else []
        if len(ids) != n:
            notes.append("ids-count")
        if len(set(ids)) != len(ids):
            dup = sorted(i for i in set(ids) if ids.count(i) > 1)[:1]
            fails = f"duplicate identifier {dup}"
        bad = [i for i in ids if not IDENT.match(i)]
        if bad and not fails:
            fails = f"not a CSS identifier: {bad[0]!r}"
        if any(not XHEX.match(i) for i in ids):
            notes.append("shape")
    if int(d["dup"]) and not fails:
        fails = f"duplicate identifier {unhx(d['ex'])!r} ({d['dup']} duplicates among {n})"
    if int(d["bad"]) and not fails:
        fails = f"not a CSS identifier: {unhx(d['ex'])!r}"
    want_n = asis.split("=", 1)[1] if asis and asis.startswith("n=") else None
    if want_n is not None and str(n) != want_n:
        notes.append(f"count {n} != {want_n}")
    if not d["errs"].startswith("0:"):
        notes.append("compile-errors " + unhx(d["errs"].split(":", 1)[1])[:80])
    if d["mono"] != "1":
        notes.append("per-thread order not increasing")
    if n:
        m = kv(_model([f"uidrange\t{d['first']}\t{n}"])[0])
        if m.get("last") != d["last"] or m.get("digest") != d["digest"] or m.get("panics") != "0":
            notes.append("ids are not the model's contiguous range")
    case.note["corr"] = notes
    return Verdict(not notes, fails)


def judge_seeded(case, impl, asis):
    """generator in a chosen state: oracle on the value; correspondence = the model fed the very draws"""
    f = case.lines[0].split("\t")
    term = f[4]
    if impl == "noseed":
        return Verdict(False, None)       # this fastrand version cannot be put into that state: pipeline problem
    parts = impl.split("\t")
    res, d = parts[0], kv(impl)
    why = rand_oracle(term, res)
    if not res.startswith("ok:"):
        return Verdict(asis.startswith("err:"), why)
    m = _seeded_model(term, d["f"], d.get("i", ""))
    try:
        v = parse_vals(res)[0]
    except (ValueError, ZeroDivisionError, IndexError):
        return Verdict(False, "unparsable number in " + res[:60])
    if m.startswith("int:"):
        corr = v == int(m[4:])
    elif m.startswith("unit:"):
        a, b = m[5:].split("/")
        corr = abs(v - Fraction(int(a), int(b))) < Fraction(1, 10 ** 15)
    else:
        corr = False
    if not corr:
        case.note["corr"] = f"model fed the same draws gives {m}, implementation {res}"
    return Verdict(corr, why)


def judge(case, impl, asis, spec):
    f = case.lines[0].split("\t")
    if f[0] == "uid":
        return judge_uid(case, impl, asis)
    if f[0] == "randseed":
        return judge_seeded(case, impl, asis)
    term = f[3]
    why = rand_oracle(term, impl)
    if impl.startswith("err:"):
        corr = asis.startswith("err:")
    elif impl.startswith("ok:"):
        try:
            vals = parse_vals(impl)
        except (ValueError, ZeroDivisionError):
            return Verdict(False, "unparsable number in " + impl[:60])
        if asis == "unit":
            corr = len(vals) == int(f[2]) and all(0 <= v < 1 for v in vals)
        elif asis.startswith("int:"):
            b = int(asis[4:])
            # above 2^53 the printed f64 of an i64 may be rounded: compare against the rounded bound
            hi = Fraction(float(b)) if b > 2 ** 53 else b
            corr = len(vals) == int(f[2]) and all(v.denominator == 1 and 1 <= v <= hi for v in vals)
        else:
            corr = False
    else:
        corr = False
    return Verdict(corr, why)


def nontrivial(case, impl, spec):
    if impl.startswith("pid="):
        return int(kv(impl)["n"]) > 0
    return impl.startswith("ok:")


# ---------------------------------------------------------------------------------------------
# T3: source shape of `random` (what ties `random_int_range`'s generator contract to the code)
ACCEPTED_RANDOM_BODIES = [
    'match s.get_opt_map(name!(limit), check::positive_int)? { None => Ok(Value::scalar(fastrand::f64())), '
    'Some(bound) => Ok(Value::scalar(fastrand::i64(0..bound) + 1)), }',
]
ACCEPTED_UID_BODIES = [
    'static CALL_ID: LazyLock<Mutex<u64>> = LazyLock::new(|| { Mutex::new(u64::from(std::process::id()) * 0xa01) }); '
    'let v = { let mut v = CALL_ID.lock().unwrap(); *v += 1; *v }; Ok(format!("x{v:x}").into())',
]
EXTRA_OBLIGATIONS = ["random_shape (T3: body of math.rs `random` is the modelled draw `fastrand::i64(0..bound) + 1` / `fastrand::f64()`)",
                     "unique_id_shape (T3: body of string.rs `unique_id` is the modelled lock / increment / format)"]


def _def_body(path, head):
    """normalised text of the closure body of `def!(f, <head>, |..| { BODY });`"""
    src = open(os.path.join(vlib.REPO, path), encoding="utf-8").read()
    src = re.sub(r"//[^\n]*", "", src)
    m = re.search(r"def!\(\s*f\s*,\s*" + head + r"\s*,\s*\|\w+\|\s*\{", src)
    if not m:
        return None
    depth, i = 1, m.end()
    while i < len(src) and depth:
        depth += {"{": 1, "}": -1}.get(src[i], 0)
        i += 1
    return re.sub(r"\s+", " ", src[m.end():i - 1]).strip()


def static_checks(ctx):
    probs = []
    body = _def_body("rsass/src/sass/functions/math.rs", r"random\(limit = b\"null\"\)")
    if body not in ACCEPTED_RANDOM_BODIES:
        probs.append("random_shape: the body of `random` in sass/functions/math.rs is not the modelled one "
                     "(`fastrand::i64(0..bound) + 1` / `fastrand::f64()`): " + repr(body)[:300])
    body = _def_body("rsass/src/sass/functions/string.rs", r"unique_id\(\)")
    if body not in ACCEPTED_UID_BODIES:
        probs.append("unique_id_shape: the body of `unique_id` in sass/functions/string.rs is not the modelled one: "
                     + repr(body)[:300])
    return probs


LEVEL_TEXT = ("Proof (Lean 4) over a model of the CALL_ID counter as the code has it (initial value pid*0xa01, +1 under the "
              "lock, `x` + lower-case hex, u64 wrap and overflow-check panic explicit): for EVERY schedule of lock "
              "acquisitions and any number of calls below the wrap bound (and without bound in overflow-checked builds) the "
              "ids are strictly increasing, pairwise distinct, the contiguous range counter+1.., each a valid CSS "
              "identifier; hex printing injective. random: for every limit and every generator meeting fastrand's contract "
              "the result is an integer in [1, bound]; integer limits give exactly [1, limit]; non-positive / non-integer / "
              "non-number limits are errors; no-argument form returns the unit draw. Tied to the code every run by 16-thread "
              "runs through real compilations whose sorted ids must equal the model's range from the first observed id "
              "(digest equality), by fresh-process runs for the initial value, and by 10^4/10^5 random limits.")
LEVEL_NOTE = ("Trusted: Lean kernel; Mutex atomicity and fastrand's range contract are hypotheses of the theorems (sampled, "
              "not proved); harness id extraction. Known finding C06-random-fuzzy-limit: limits within 2^-23 of an integer "
              "are accepted (random(0.9999999) = 1 > limit); the full statement is proved for the spec tolerance 1e-11, the "
              "as-is model has the `_partial` bound and a refutation.")
TECHNIQUE = "Lean 4 theorems over a state-machine model of the counter (all schedules) + differential runs on 16 threads"
