"""C37 — @use/@forward configuration and visibility rules hold (partial)."""
import re
from tools.vlib import Case, Verdict, hx, unhx

ID = "C37"
DRIVER = "drv_C37"
THEOREM_MODS = ["RsassModel.Theorems.C37"]
LEVEL = "proof"
RULE = ("module graphs of <= 3 files: a module file (variables with/without !default, functions, mixins; names with - and _), "
        "optionally a forwarder (`@forward \"m\"` with as-prefix, show/hide of functions/mixins/variables, with) or an earlier "
        "user that configures the module, and a main file with `@use` (derived namespace for urls m, _m, d/m, d/_m, m.scss, "
        "my_mod; `as name`; `as *`; `with` of declared, undeclared and repeated variables) or a built-in module; every member "
        "is probed through the specified namespace, the namespace the code derives, a wrong namespace and bare; assignments "
        "`ns.$x: v` to existing/new variables. One compilation per probe. non-trivial = at least one probe yields a value")
TRUSTED = ["the evaluator around the scope layer (parsing of @use/@forward, variable/function/mixin evaluation) is not "
           "modelled; it is tied by comparing every probe's outcome with the model",
           "the oracle for a probe is the spec instance of the Lean model (the property's statement made executable)"]
ASSUMPTIONS = ["values are abstract numbers; each module member is declared once",
               "`with` of a variable the module declares only without !default is an error in the spec instance (the statement: "
               "`with` sets only variables declared with !default; since fix 17cd11e the code reports it); under the "
               "withUnknown* flags (code before the fix) it is accepted and the value ignored",
               "show/hide names are matched against the prefixed names (Sass module-system spec)",
               "private members (leading - or _) and `with` on a forwarding `@use` are not generated"]
CASE_TIMEOUT = 60

VARS = ["a", "b-c", "d_e", "size"]
FNS = ["f", "g-h", "k_l"]
MIXINS = ["m", "mx-in"]


def swap(n, rng):
    """another spelling of the same Sass name"""
    if rng.random() < 0.3:
        return n.replace("-", "\0").replace("_", "-").replace("\0", "_")
    return n


class Sc:
    def __init__(self):
        self.decls = []      # (kind, name, val, dflt)
        self.url = "m"
        self.file = "m.scss"
        self.fwd = None      # dict(pre, kind, funs, vars, withs)
        self.as_ = "-"
        self.withs = []      # (name, val)
        self.prewiths = None
        self.probes = []     # ("r", ns, kind, name) | ("a", ns, name, val)
        self.stratum = "use"

    def module_src(self):
        out = []
        for k, n, v, d in self.decls:
            if k == "v":
                out.append(f"${n}: {v}{' !default' if d else ''};")
            elif k == "f":
                out.append(f"@function {n}() {{ @return {v}; }}")
            else:
                out.append(f"@mixin {n} {{ x {{ v: {v}; }} }}")
        return "\n".join(out) + "\n"

    @staticmethod
    def with_src(ws):
        return " with (" + ", ".join(f"${n}: {v}" for n, v in ws) + ")" if ws else ""

    def files(self):
        fs = {}
        if not self.url.startswith("sass:") and not (self.fwd or {}).get("target", "m").startswith("sass:"):
            fs[self.file] = self.module_src()
        if self.fwd is not None:
            f = self.fwd
            line = '@forward "%s"' % f.get("target", "m")
            if f["pre"]:
                line += f" as {f['pre']}*"
            if f["kind"] != "all":
                names = list(f["funs"]) + ["$" + v for v in f["vars"]]
                line += f" {f['kind']} " + ", ".join(names)
            line += self.with_src(f["withs"]) + ";\n"
            fs["f.scss"] = line
            if f.get("nested"):
                fs["_top.scss"] = '@forward "f";\n'
        if self.prewiths is not None:
            fs["o.scss"] = f'@use "m"{self.with_src(self.prewiths)};\n'
        return fs

    def header(self):
        h = ""
        if self.prewiths is not None:
            h += '@use "o";\n'
        h += f'@use "{self.url}"'
        if self.as_ == "*":
            h += " as *"
        elif self.as_.startswith("="):
            h += " as " + self.as_[1:]
        return h + self.with_src(self.withs) + ";"

    def probe_src(self, p):
        if p[0] == "r":
            _, ns, k, n = p
            q = (ns + ".") if ns != "-" else ""
            if k == "v":
                return f"x {{ y: {q}${n}; }}"
            if k == "f":
                return f"x {{ y: {q}{n}(); }}"
            return f"@include {q}{n};"
        kind, ns, n, v = p
        return f"{ns}.${n}: {v}{' !default' if kind == 'd' else ''};\nx {{ y: {ns}.${n}; }}"

    def line(self):
        files = ",".join(f"{n}:{hx(d)}" for n, d in sorted(self.files().items()))
        probes = ",".join(hx(self.probe_src(p)) for p in self.probes)
        decls = ",".join(f"{k}.{n}.{v}.{'d' if d else 'n'}" for k, n, v, d in self.decls) or "-"
        if self.fwd is None:
            fwd = "-"
        else:
            f = self.fwd
            fwd = "|".join([f["pre"] or "-", f["kind"], ";".join(f["funs"]) or "", ";".join(f["vars"]) or "",
                            ";".join(f"{n}={v}" for n, v in f["withs"]), "b" if f.get("target", "m").startswith("sass:") else "u"])
        ws = ";".join(f"{n}={v}" for n, v in self.withs) or "-"
        pre = "-" if self.prewiths is None else "+" + ";".join(f"{n}={v}" for n, v in self.prewiths)
        ps = ",".join(".".join(str(x) for x in p) for p in self.probes)
        return "\t".join(["c37", hx(self.header()), files, probes, decls, self.url, fwd, self.as_, ws, pre, ps])


def spec_namespace(url):
    seg = re.split(r"[/:]", url)[-1]
    if seg.startswith("_"):
        seg = seg[1:]
    return seg.split(".")[0]


def asis_namespace(url):
    return re.split(r"[/:]", url)[-1].replace("_", "-")


def module_decls(rng):
    decls, val = [], 1
    for n in rng.sample(VARS, rng.randint(1, 3)):
        decls.append(("v", n, val, rng.random() < 0.6))
        val += 1
    for n in rng.sample(FNS, rng.randint(0, 2)):
        decls.append(("f", n, 10 + val, False))
        val += 1
    for n in rng.sample(MIXINS, rng.randint(0, 2)):
        decls.append(("m", n, 20 + val, False))
        val += 1
    rng.shuffle(decls)
    return decls


def member_probes(sc, rng, namespaces, prefix=""):
    ps = []
    for k, n, v, d in sc.decls:
        for ns in namespaces:
            ps.append(("r", ns, k, swap(prefix + n, rng)))
            if prefix and rng.random() < 0.4:
                ps.append(("r", ns, k, n))
    for ns in namespaces:
        ps.append(("r", ns, rng.choice("vfm"), "nosuch"))
    return ps


def gen_use(rng):
    sc = Sc()
    sc.decls = module_decls(rng)
    sc.url, sc.file = rng.choice([("m", "m.scss"), ("m", "_m.scss"), ("_m", "_m.scss"), ("d/m", "d/m.scss"),
                                  ("d/_m", "d/_m.scss"), ("m.scss", "m.scss"), ("my_mod", "my_mod.scss"),
                                  ("d/e/lib", "d/e/_lib.scss"), ("m", "m.scss"), ("m", "m.scss")])
    sc.as_ = rng.choice(["-", "-", "-", "=q", "=other-name", "*"])
    vars_ = [(n, d) for k, n, v, d in sc.decls if k == "v"]
    k = rng.random()
    if k < 0.45:
        for n, d in vars_:
            if rng.random() < 0.6:
                sc.withs.append((swap(n, rng), rng.randint(30, 60)))
        if rng.random() < 0.3:
            sc.withs.append(("zz", 77))
            sc.stratum = "use-with-unknown"
        elif sc.withs and rng.random() < 0.2:
            sc.withs.append((sc.withs[0][0], 88))
            sc.stratum = "use-with-twice"
        elif sc.withs:
            sc.stratum = "use-with"
        rng.shuffle(sc.withs)
    nss = []
    if sc.as_ == "*":
        nss = ["-", spec_namespace(sc.url)]
    elif sc.as_.startswith("="):
        nss = [sc.as_[1:], "-", spec_namespace(sc.url)]
    else:
        nss = [spec_namespace(sc.url), "-", "wrong"]
        a = asis_namespace(sc.url)
        if a != spec_namespace(sc.url) and re.fullmatch(r"[-a-z_]+", a) and not a.startswith("-"):
            nss.append(a)
        if sc.url in ("_m", "d/_m"):
            nss.append("-m")
        if sc.stratum == "use":
            sc.stratum = "use-namespace"
    sc.probes = member_probes(sc, rng, nss)
    ns0 = nss[0]
    if ns0 != "-":
        for n, d in vars_[:2]:
            sc.probes.append(("a", ns0, swap(n, rng), rng.randint(100, 200)))
        sc.probes.append(("a", ns0, "newvar", 5))
        if vars_:
            sc.probes.append(("d", ns0, swap(vars_[0][0], rng), 300))
    return sc


def gen_forward(rng):
    sc = Sc()
    sc.stratum = "forward"
    sc.decls = module_decls(rng)
    sc.url, sc.file = "f", "m.scss"
    sc.as_ = rng.choice(["-", "-", "=q", "*"])
    pre = rng.choice([None, None, "p-", "pre_"])
    kind = rng.choice(["all", "show", "hide", "show", "hide"])
    funs, vars_ = [], []
    if kind != "all":
        for k, n, v, d in sc.decls:
            if rng.random() < 0.5:
                (vars_ if k == "v" else funs).append(swap((pre or "") + n, rng))
        if not funs and not vars_:
            k, n, v, d = sc.decls[0]
            (vars_ if k == "v" else funs).append((pre or "") + n)
        # a name listed in the wrong category must not matter
        if rng.random() < 0.3:
            k, n, v, d = rng.choice(sc.decls)
            (funs if k == "v" else vars_).append((pre or "") + n)
    withs = []
    if rng.random() < 0.35:
        for k, n, v, d in sc.decls:
            if k == "v" and rng.random() < 0.6:
                withs.append((swap(n, rng), rng.randint(30, 60)))
        if rng.random() < 0.35:
            withs.append(("zz", 77))
            sc.stratum = "forward-with-unknown"
        elif withs and rng.random() < 0.2:
            withs.append((withs[0][0], 88))
    if pre and kind != "all":
        sc.stratum = "forward-prefix-filter" if sc.stratum == "forward" else sc.stratum
    sc.fwd = {"pre": pre, "kind": kind, "funs": funs, "vars": vars_, "withs": withs}
    nss = ["-"] if sc.as_ == "*" else [sc.as_[1:] if sc.as_.startswith("=") else "f", "-"]
    sc.probes = member_probes(sc, rng, nss, pre or "")
    return sc


def gen_reconfigure(rng):
    sc = Sc()
    sc.stratum = "reconfigure"
    sc.decls = module_decls(rng)
    dv = [n for k, n, v, d in sc.decls if k == "v" and d]
    if not dv:
        sc.decls.append(("v", "cfg", 9, True))
        dv = ["cfg"]
    sc.prewiths = [(dv[0], 41)] if rng.random() < 0.8 else []
    # the main file configures the very same variable again (or nothing)
    sc.withs = [(swap(dv[0], rng), 42)] if (sc.prewiths and rng.random() < 0.7) else []
    sc.as_ = rng.choice(["-", "=q"])
    ns = "m" if sc.as_ == "-" else "q"
    sc.probes = member_probes(sc, rng, [ns])
    return sc


def gen_builtin(rng):
    sc = Sc()
    sc.stratum = "builtin"
    sc.url = "sass:math"
    sc.decls = [("v", "pi", 0, False), ("v", "e", 0, False)]
    sc.as_ = rng.choice(["-", "=mm"])
    if rng.random() < 0.4:
        sc.withs = [(rng.choice(["pi", "zz"]), 3)]
    ns = "math" if sc.as_ == "-" else "mm"
    sc.probes = [("r", ns, "v", "pi"), ("r", ns, "v", "e"), ("r", "-", "v", "pi"), ("a", ns, "pi", 3), ("a", ns, "e", 2),
                 ("a", ns, "zz", 1), ("r", ns, "v", "zz")]
    return sc


def gen_builtin_forward(rng):
    """a built-in module reached through `@forward "sass:math"` of a user module (plain, prefixed, show/hide,
    nested forward): reads, assignment, `!default` assignment, `with` on the forward rule"""
    sc = Sc()
    sc.stratum = "builtin-forward"
    sc.decls = [("v", "pi", 0, False), ("v", "e", 0, False), ("f", "floor", 0, False)]
    pre = rng.choice([None, None, None, "p-", "mm_"])
    kind = rng.choice(["all", "all", "hide", "hide", "show"])
    funs, vars_ = [], []
    if kind == "show":
        vars_ = [(pre or "") + "pi"] + ([(pre or "") + "e"] if rng.random() < 0.5 else [])
    elif kind == "hide":
        if rng.random() < 0.5:
            funs = [(pre or "") + rng.choice(["floor", "ceil"])]
        else:
            vars_ = [(pre or "") + "e"]
    withs = [(rng.choice(["pi", "zz"]), 3)] if rng.random() < 0.2 else []
    nested = rng.random() < 0.3
    sc.fwd = {"pre": pre, "kind": kind, "funs": funs, "vars": vars_, "withs": withs, "target": "sass:math", "nested": nested}
    sc.url, sc.file = ("top" if nested else "f"), "unused.scss"
    sc.as_ = rng.choice(["-", "-", "=q"])
    ns = "q" if sc.as_ == "=q" else sc.url
    P = pre or ""
    sc.probes = [("r", ns, "v", P + "pi"), ("r", ns, "v", P + "e"), ("a", ns, P + "pi", 3), ("d", ns, P + "pi", 4),
                 ("a", ns, P + "e", 2), ("a", ns, P + "zz", 1), ("r", "-", "v", P + "pi")]
    if P:
        sc.probes += [("r", ns, "v", "pi"), ("a", ns, "pi", 3)]
    return sc


def gen(tier, rng, boost=1):
    n = (260 if tier == "quick" else 20000) * boost
    for i in range(n):
        k = rng.random()
        sc = gen_use(rng) if k < 0.4 else gen_forward(rng) if k < 0.72 else gen_reconfigure(rng) if k < 0.82 else \
            gen_builtin(rng) if k < 0.88 else gen_builtin_forward(rng)
        yield Case(sc.line(), sc.stratum)


def canon(res, builtin):
    out = []
    for r in res.split(";"):
        if r.startswith("ok:"):
            css = unhx(r[3:])
            m = re.fullmatch(r"x\{[yv]:([^;{}]*)\}\n", css)
            if not m:
                out.append("?" + css)
            elif re.fullmatch(r"[0-9.]+", m.group(1)):
                # the constants of sass:math are reported as 0 (the model's values are abstract)
                out.append("=0" if builtin and m.group(1).startswith(("3.14159", "2.71828")) else "=" + m.group(1))
            elif re.fullmatch(r"[-a-z_]+\(\)", m.group(1)):
                out.append("css")
            else:
                out.append("?" + css)
        elif r.startswith("err:"):
            out.append("err")
        else:
            out.append(r)
    return ";".join(out)


def judge(case, impl, asis, spec):
    f = case.lines[0].split("\t")
    if impl.startswith(("panic", "abort")) or ";panic" in impl:
        return Verdict(True, None)
    c = canon(impl, f[5].startswith("sass:") or f[6].endswith("|b"))
    fails = None
    if c != spec:
        bad = [i for i, (a, b) in enumerate(zip(c.split(";"), spec.split(";"))) if a != b]
        probes = f[10].split(",")
        what = ", ".join(f"{probes[i]}: got {c.split(';')[i]}, specified {spec.split(';')[i]}" for i in bad[:3])
        fails = "module visibility/configuration differs from the specification: " + what
    return Verdict(c == asis, fails)


def nontrivial(case, impl, spec):
    return "=" in (spec or "")


LEVEL_TEXT = ("Proof (Lean 4), partial: model of the scope/module layer (with-configuration loop, module cache, namespace "
              "derivation, do_use for name/star/prefix, expose filters, module-path assignment); theorems "
              "with_sets_only_default_vars, with_unknown_is_error, configure_twice_error, reconfigure_is_error, namespace_spec, "
              "members_only_via_namespace, as_star_merges, forward_show_hide_prefix_exact, builtin_not_configurable, "
              "builtin_not_assignable for the spec model, `_partial` theorems and refutations for the five deviations of the "
              "code. Tie: every probe of generated module graphs (<= 3 files) compiled by rsass and compared with the model.")
LEVEL_NOTE = ("Partial: values are abstract, the evaluator around the scope layer is not modelled; `with` on a non-!default "
              "variable is not judged. Known findings: C37-with-unknown-use, C37-with-unknown-forward, C37-reconfigure-ignored, "
              "C37-namespace-raw, C37-prefix-filter-swapped.")
TECHNIQUE = "Lean 4 theorems over a model of the module scope layer + differential probing of module graphs"
