"""C13 — Map keys follow `==` and map equality ignores order."""
import re
from tools.vlib import Case, Verdict, hx, unhx
from props import _valgen as G
from props._valgen import num, float_of

ID = "C13"
DRIVER = "drv_C13"
THEOREM_MODS = ["RsassModel.Theorems.C13"]
LEVEL = "proof"
CASE_TIMEOUT = 60
RULE = ("mapops case = a key pool (keys that are == under different representations: 1 / 1.0 / 1e0, \"a\" / a / 'a', "
        "string literals equal under different escape spellings in the same or another quote kind (\"a b\" / \"a\\20 b\", "
        "\"\\-\" / \"-\", 'x\\79 ' / xy), values include null, false, (), \"\", 0; "
        "red / #f00 / #ff0000 / rgb(255,0,0), true, null, lists, NaN), a value pool, a map literal of 0..8 entries "
        "(sometimes with two == keys: must be the error), and a random sequence of map.set / map.remove / map.merge / "
        "map.get / map.has-key; the compiled program prints a snapshot (key index = value index, in iteration order) after "
        "every step, compared with the Lean association-list model and with an independent Python reference map. "
        "seq/veq cases = pairs of maps, one a permutation and respelling of the other (must be ==), plus near misses. "
        "Non-trivial = the program compiled (no duplicate-key error) and contains at least one mutating operation.")
TRUSTED = ["Python reference map (list of entries keyed by representation class) as the oracle of the statement",
           "snapshot encoding through list.index (uses ==) inside the compiled program",
           "same value-term generator as C12 (props/_valgen.py)"]
ASSUMPTIONS = ["the laws get_set_other / remove / merge are proved under `==` being an equivalence on the key type "
               "(OM.KEquiv); the generated key pools respect that (no two keys within the numeric tolerance of each other "
               "without being the same number)"]


def __getattr__(name):
    if name == "ALWAYS_QUIRKS":
        return G.live_value_flags(ID)
    raise AttributeError(name)


# ---------------------------------------------------------------- key / value pools
def key_classes(rng):
    """list of (class id, value object); same class <=> `==` in Sass"""
    classes = [
        [num(1.0, 0, 0), num(1.0, 0, 1), num(1.0, 0, 4)],
        [num(2.0, 0, 0), num(2.0, 0, 1)],
        [num(0.5, 0, 0), num(0.5, 0, 3), num(0.5, 0, 2)],
        [num(1.0, 1, 0), num(1.0, 1, 1)],                                  # 1px is not 1
        [("str", "a", "n"), ("str", "a", "d"), ("str", "a", "s")],
        [("str", "b", "n"), ("str", "b", "d")],
        [("str", "1", "d"), ("str", "1", "s")],                            # "1" is not 1
        [("strl", t) for t in G.ESCAPE_CLASSES[0]],
        [("strl", t) for t in G.ESCAPE_CLASSES[1]],
        [("strl", t) for t in G.ESCAPE_CLASSES[2]],
        [("strl", t) for t in G.ESCAPE_CLASSES[3]],
        [("strl", t) for t in G.ESCAPE_CLASSES[4]],
        [("color", (255, 0, 0, 1.0), t) for t in ("red", "#f00", "#ff0000", "rgb(255, 0, 0)")],
        [("color", (0, 0, 255, 1.0), t) for t in ("blue", "#00f", "#0000FF")],
        [("bool", True)],
        [("bool", False)],
        [("null",)],
        [("list", [num(1.0), num(2.0)], "s", False), ("list", [num(1.0, 0, 1), num(2.0)], "s", False)],
        [("list", [num(1.0), num(2.0)], "c", False)],
        [("list", [], "u", False)],
        [("str", "", "d")],
        [num(0.0), num(0.0, 0, 1)],
        [num(-1.0), num(-1.0, 0, 1)],
        [num(1e15), num(1e15, 0, 4)],
    ]
    picked = rng.sample(range(len(classes)), rng.randint(3, 8))
    out = []
    for c in picked:
        reps = classes[c]
        for r in rng.sample(reps, min(len(reps), rng.randint(1, 3))):
            out.append((c, r))
    if rng.random() < 0.15:
        out.append((None, num(float("nan"))))   # NaN is == to nothing, itself included
    rng.shuffle(out)
    return out


VALUE_POOL = [("str", f"v{i}", "n") for i in range(6)] + [("null",), ("bool", False), ("list", [], "u", False),
                                                          ("str", "", "d"), num(0.0)]
NV = len(VALUE_POOL)
NULL_V = 6          # index of null in the value pool: what map.get gives for a missing key


class Ref:
    """reference map: the statement of C13, executable (independent of the Lean model)"""

    def __init__(self, pool):
        self.pool = pool            # [(class, obj)]
        self.entries = []           # [(class, key pool idx, value idx)]

    def find(self, cls):
        if cls is None:
            return None
        for i, e in enumerate(self.entries):
            if e[0] == cls:
                return i
        return None

    def literal(self, kvs):
        """kvs: [(pool idx, value idx)] -> False on duplicate key"""
        self.entries = []
        for ki, vi in kvs:
            cls = self.pool[ki][0]
            if self.find(cls) is not None:
                return False
            self.entries.append((cls, ki, vi))
        return True

    def set(self, ki, vi):
        cls = self.pool[ki][0]
        i = self.find(cls)
        if i is None:
            self.entries.append((cls, ki, vi))
        else:
            self.entries[i] = (self.entries[i][0], self.entries[i][1], vi)

    def remove(self, kis):
        for ki in kis:
            i = self.find(self.pool[ki][0])
            if i is not None:
                del self.entries[i]

    def get(self, ki):
        i = self.find(self.pool[ki][0])
        return None if i is None else self.entries[i][2]

    def key_index(self, cls):
        """what `list.index($pool, $key)` gives: first pool element of the same class"""
        if cls is None:
            return "n"
        for i, (c, _) in enumerate(self.pool):
            if c == cls:
                return str(i + 1)
        return "n"

    def snap(self):
        return "S" + ",".join(f"{self.key_index(c)}={v + 1}" for c, _, v in self.entries)


PRELUDE = ('@use "sass:map";@use "sass:list";@use "sass:math";@use "sass:meta";\n'
           '@function ix($l, $x) { $i: list.index($l, $x); @return if($i == null, n, $i); }\n'
           '@function enc($m) { $o: ""; @each $k, $v in $m { $o: "#{$o}#{ix($kp, $k)}=#{ix($vp, $v)},"; } @return "S#{$o}"; }\n')


def lit_text(pool, kvs):
    if not kvs:
        return "map.remove((zz: 1), zz)"
    return "(" + ", ".join(f"{G.scss(pool[k][1], False)}: {G.scss(VALUE_POOL[v])}" for k, v in kvs) + ")"


def lit_term(pool, kvs):
    return " ".join([f"m {len(kvs)}"] + [G.term(pool[k][1], True) + " " + G.term(VALUE_POOL[v], True) for k, v in kvs])


def build(pool, lit, ops):
    """-> (protocol line, expected string from the Python reference)"""
    kp_items = [p[1] for p in pool]
    src = [PRELUDE]
    src.append("$kp: (" + ", ".join(G.scss(k, False) for k in kp_items) + ("," if len(kp_items) == 1 else "") + ");")
    src.append("$vp: (" + ", ".join(G.scss(v) for v in VALUE_POOL) + ");")
    src.append("x {")
    src.append(f"  $m: {lit_text(pool, lit)};")
    src.append("  s0: enc($m);")
    ref = Ref(pool)
    ok = ref.literal(lit)
    exp = [ref.snap()] if ok else None
    opterms = []
    for n, op in enumerate(ops, 1):
        kind = op[0]
        if kind == "set":
            _, k, v = op
            src.append(f"  $m: map.set($m, {G.scss(pool[k][1], False)}, {G.scss(VALUE_POOL[v])});  s{n}: enc($m);")
            opterms.append(f"set {G.term(pool[k][1], True)} {G.term(VALUE_POOL[v], True)}")
            if exp is not None:
                ref.set(k, v)
                exp.append(ref.snap())
        elif kind == "rem":
            _, ks = op
            src.append(f"  $m: map.remove($m, {', '.join(G.scss(pool[k][1], False) for k in ks)});  s{n}: enc($m);")
            opterms.append(" ".join([f"rem {len(ks)}"] + [G.term(pool[k][1], True) for k in ks]))
            if exp is not None:
                ref.remove(ks)
                exp.append(ref.snap())
        elif kind == "mrg":
            _, kvs = op
            src.append(f"  $m: map.merge($m, {lit_text(pool, kvs)});  s{n}: enc($m);")
            opterms.append("mrg " + lit_term(pool, kvs))
            if exp is not None:
                r2 = Ref(pool)
                if not r2.literal(kvs):
                    exp = None
                else:
                    # m1's order, m2's values win, m2's new keys appended in m2's order
                    for cls, ki, vi in r2.entries:
                        ref.set(ki, vi)
                    exp.append(ref.snap())
        elif kind == "get":
            _, k = op
            src.append(f"  g{n}: \"G#{{ix($vp, map.get($m, {G.scss(pool[k][1], False)}))}}\";")
            opterms.append(f"get {G.term(pool[k][1], True)}")
            if exp is not None:
                r = ref.get(k)
                exp.append("G" + str((NULL_V if r is None else r) + 1))
        elif kind == "has":
            _, k = op
            src.append(f"  h{n}: \"H#{{map.has-key($m, {G.scss(pool[k][1], False)})}}\";")
            opterms.append(f"has {G.term(pool[k][1], True)}")
            if exp is not None:
                exp.append("HT" if ref.get(k) is not None else "HF")
    src.append("}")
    kp_term = " ".join([f"l c 0 {len(kp_items)}"] + [G.term(k, True) for k in kp_items])
    vp_term = " ".join([f"l c 0 {len(VALUE_POOL)}"] + [G.term(v, True) for v in VALUE_POOL])
    conv = G.conv_field(*kp_items)
    line = "\t".join(["mapops", conv, kp_term, vp_term, lit_term(pool, lit), ";".join(opterms) or "-", hx("\n".join(src))])
    expected = "err" if exp is None else "ok;" + ";".join(exp)
    return line, expected


def gen_program(rng, max_entries=8):
    pool = key_classes(rng)
    n = len(pool)
    nlit = rng.randint(0, min(max_entries, n))
    idxs = list(range(n))
    rng.shuffle(idxs)
    lit = []
    seen = set()
    dup = rng.random() < 0.12
    for i in idxs:
        if len(lit) >= nlit:
            break
        c = pool[i][0]
        if c in seen and not dup and c is not None:
            continue
        seen.add(c)
        lit.append((i, rng.randrange(NV)))
    ops = []
    for _ in range(rng.randint(1, 8)):
        k = rng.random()
        if k < 0.3:
            ki, vi = rng.randrange(n), rng.randrange(NV)
            ops.append(("set", ki, vi))
            if vi >= 6 and rng.random() < 0.6:
                # a key whose value is null / false / () / "" / 0 is still a key
                ops.append((rng.choice(["has", "get"]), rng.choice([i for i in range(n) if pool[i][0] == pool[ki][0]])))
        elif k < 0.45:
            ops.append(("rem", [rng.randrange(n) for _ in range(rng.randint(1, 3))]))
        elif k < 0.6:
            m2, seen2 = [], set()
            for i in rng.sample(range(n), rng.randint(0, min(5, n))):
                c = pool[i][0]
                if c in seen2 and c is not None and rng.random() < 0.9:
                    continue
                seen2.add(c)
                m2.append((i, rng.randrange(NV)))
            ops.append(("mrg", m2))
        elif k < 0.85:
            ops.append(("get", rng.randrange(n)))
        else:
            ops.append(("has", rng.randrange(n)))
    return pool, lit, ops


# ---------------------------------------------------------------- map equality pairs
def gen_map_pair(rng):
    pool = key_classes(rng)
    seen, kv = set(), []
    for c, k in pool:
        if c is None or c in seen:
            continue
        seen.add(c)
        kv.append((k, rng.choice([G.gen_atom(rng), VALUE_POOL[rng.randrange(NV)], num(float(rng.randint(0, 5)))])))
    kv = kv[:rng.randint(0, 8)]
    a = ("map", kv)
    r = rng.random()
    kv2 = list(kv)
    rng.shuffle(kv2)
    b = G.respell(("map", kv2), rng)
    # respell keys inside their class
    if r < 0.6 or not kv2:
        return a, b
    kv3 = list(b[1])
    j = rng.randrange(len(kv3))
    if r < 0.75:
        kv3[j] = (kv3[j][0], ("str", "other", "n"))          # one value differs
    elif r < 0.9:
        del kv3[j]                                            # one entry missing
    else:
        kv3[j] = (("str", "zz", "d"), kv3[j][1])              # one key differs
    return a, ("map", kv3)


def gen(tier, rng, boost=1):
    quick = tier == "quick"
    n = (700 if quick else 60000) * boost
    for _ in range(n):
        pool, lit, ops = gen_program(rng)
        line, exp = build(pool, lit, ops)
        yield Case(line, "mapops" if exp != "err" else "mapops-dup-literal")
    # the documented examples
    ka, kb = ("str", "a", "n"), ("str", "b", "n")
    m1 = ("map", [(ka, num(1.0)), (kb, num(2.0))])
    m2 = ("map", [(kb, num(2.0)), (ka, num(1.0))])
    from props.C12 import pair_case
    yield from pair_case(m1, m2, "mapeq-witness")
    n = (400 if quick else 30000) * boost
    for i in range(n):
        a, b = gen_map_pair(rng)
        yield from pair_case(a, b, "mapeq", text=(i % 2 == 0))


# ---------------------------------------------------------------- oracle
def canon_css(css):
    """compiled program -> the canonical result string"""
    out = []
    for m in re.finditer(r"^\s*([sgh])(\d+): (.*);$", css, re.M):
        v = m.group(3).strip()
        if v.startswith('"') and v.endswith('"'):
            v = v[1:-1]
        v = v.rstrip(",")
        if v == "Htrue":
            v = "HT"
        elif v == "Hfalse":
            v = "HF"
        out.append((int(m.group(2)), v))
    out.sort()
    return "ok;" + ";".join(v for _, v in out)


def parse_term(toks, i=0):
    """term -> canonical object in which `==` values are equal Python objects (quote style,
    number spelling and colour notation are not part of the term's identity anyway)"""
    t = toks[i]
    if t in ("null", "true", "false"):
        return (t,), i + 1
    if t == "n":
        x = float_of(int(toks[i + 1]))
        return ("n", "nan" if x != x else x, toks[i + 2]), i + 3
    if t == "s":
        raw = "" if toks[i + 2] == "-" else unhx(toks[i + 2])
        return ("s", raw if toks[i + 1] == "n" else G.css_unescape(raw)), i + 3
    if t == "c":
        return ("c",) + tuple(float_of(int(x)) for x in toks[i + 1:i + 5]), i + 5
    if t == "f":
        return ("f", toks[i + 1]), i + 2
    if t == "l":
        n = int(toks[i + 3])
        items, j = [], i + 4
        for _ in range(n):
            o, j = parse_term(toks, j)
            items.append(o)
        return ("l", toks[i + 1], toks[i + 2], tuple(items)), j
    if t == "m":
        n = int(toks[i + 1])
        items, j = [], i + 2
        for _ in range(n):
            k, j = parse_term(toks, j)
            v, j = parse_term(toks, j)
            items.append((k, v))
        return ("m", tuple(sorted(items, key=repr))), j
    if t == "a":
        n = int(toks[i + 1])
        items, j = [], i + 2
        for _ in range(n):
            o, j = parse_term(toks, j)
            items.append(o)
        return ("a", tuple(items)), j
    raise ValueError(t)


def has_special(o):
    """NaN or arglist inside: outside the simple `same entries => equal` rule"""
    if o[0] == "n":
        return o[1] == "nan"
    if o[0] == "a":
        return True
    if o[0] == "l":
        return any(has_special(i) for i in o[3])
    if o[0] == "m":
        return any(has_special(k) or has_special(v) for k, v in o[1])
    return False


def judge(case, impl, asis, spec):
    f = case.lines[0].split("\t")
    if f[0] == "mapops":
        if impl.startswith("ok:"):
            got = canon_css(unhx(impl[3:]))
        elif impl.startswith("err:"):
            got = "err"
        else:
            got = impl
        # the reference result is recomputed from the line itself (so that witnesses replay)
        exp = reference_from_line(f)
        why = None
        if exp is not None and got != exp:
            why = f"map operations differ from the reference map: expected {exp[:120]} got {got[:120]}"
        return Verdict(asis is None or got == asis, why)
    # map equality pair (veq / seq lines of C12's harness op)
    from props import C12
    i2, a2 = C12.canon(impl, asis)
    why = None
    try:
        ta, _ = parse_term(f[1].split(" "))
        tb, _ = parse_term(f[2].split(" "))
    except (ValueError, IndexError):
        ta = tb = None
    if ta is not None and ta[0] == "m" and tb[0] == "m" and ta == tb and not has_special(ta):
        if len(impl) != 12 or impl[0] != "T" or impl[1] != "T":
            why = "two maps with == keys mapped to == values are not == (a==b %s, b==a %s)" % (impl[0:1], impl[1:2])
    return Verdict(asis is None or i2 == a2, why)


def reference_from_line(f):
    """re-derives pool classes, literal and ops from the term fields and runs the Python
    reference map; None if the line uses something the reference does not cover"""
    try:
        kp, _ = parse_term(f[2].split(" "))
        vp, _ = parse_term(f[3].split(" "))
        lit_toks = f[4].split(" ")
        pool_objs = list(kp[3])
        vals = list(vp[3])

        def cls(o):
            return None if has_special(o) and o[0] == "n" else repr(o)
        pool = [(cls(o), o) for o in pool_objs]

        def kidx(o):
            for i, p in enumerate(pool_objs):
                if p == o and not (o[0] == "n" and o[1] == "nan"):
                    return i
            if o[0] == "n" and o[1] == "nan":
                for i, p in enumerate(pool_objs):
                    if p == o:
                        return i
            return None

        def read_pairs(toks):
            n = int(toks[1])
            j, kvs = 2, []
            for _ in range(n):
                k, j = parse_term(toks, j)
                v, j = parse_term(toks, j)
                kvs.append((kidx(k), vals.index(v)))
            return kvs
        ref = Ref(pool)
        if not ref.literal(read_pairs(lit_toks)):
            return "err"
        out = [ref.snap()]
        if f[5] != "-":
            for op in f[5].split(";"):
                t = op.split(" ")
                if t[0] == "set":
                    k, j = parse_term(t, 1)
                    v, j = parse_term(t, j)
                    ref.set(kidx(k), vals.index(v))
                    out.append(ref.snap())
                elif t[0] == "rem":
                    n, j, ks = int(t[1]), 2, []
                    for _ in range(n):
                        k, j = parse_term(t, j)
                        ks.append(kidx(k))
                    ref.remove(ks)
                    out.append(ref.snap())
                elif t[0] == "mrg":
                    r2 = Ref(pool)
                    if not r2.literal(read_pairs(t[1:])):
                        return "err"
                    for c, ki, vi in r2.entries:
                        ref.set(ki, vi)
                    out.append(ref.snap())
                elif t[0] == "get":
                    k, _ = parse_term(t, 1)
                    r = ref.get(kidx(k))
                    out.append("G" + str((NULL_V if r is None else r) + 1))
                elif t[0] == "has":
                    k, _ = parse_term(t, 1)
                    out.append("HT" if ref.get(kidx(k)) is not None else "HF")
        return "ok;" + ";".join(out)
    except (ValueError, IndexError, TypeError):
        return None


def nontrivial(case, impl, spec):
    f = case.lines[0].split("\t")
    if f[0] == "mapops":
        return impl.startswith("ok:") and any(o in f[5] for o in ("set", "rem", "mrg"))
    return len(impl) == 12 and f[1] != f[2]


LEVEL_TEXT = ("Proof (Lean 4): refinement of OrderMap and the map functions to an association list searched with ==: "
              "get after set (same/other key), key order after set, remove = erase first == entry, merge key order / right "
              "values win / untouched entries, lookup succeeds iff a stored key is ==, duplicate-key literals are exactly the "
              "error, permuted maps are equal (refutation for the derived order-sensitive PartialEq). Tied to the code by "
              "random operation sequences through compiled SassScript, compared with the Lean model and a Python reference map.")
LEVEL_NOTE = ("Trusted: Lean kernel; the laws that need == to be an equivalence take it as a hypothesis on the key type (numbers "
              "within epsilon are not transitive); Python reference map; list.index-based snapshot inside the program.")
TECHNIQUE = "Lean 4 refinement theorems over an association-list model + differential correspondence on operation sequences"
