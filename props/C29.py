"""C29 — Math functions compute the specified values."""
import math
import re
import struct
from fractions import Fraction
from tools.vlib import Case, Verdict, hx, unhx

ID = "C29"
DRIVER = "drv_C29"
THEOREM_MODS = ["RsassModel.Theorems.C29"]
LEVEL = "proof"

# unit -> (dimension, exact ratio to the dimension's base unit)
PI = Fraction(math.pi)
UNITS = {
    "": ("none", 1), "px": ("length", Fraction(254, 960)), "in": ("length", Fraction(254, 10)),
    "cm": ("length", 10), "mm": ("length", 1), "pt": ("length", Fraction(254, 720)),
    "pc": ("length", Fraction(254, 60)), "Q": ("length", Fraction(1, 4)),
    "deg": ("angle", Fraction(1, 360)), "grad": ("angle", Fraction(1, 400)), "rad": ("angle", 1 / (2 * PI)),
    "turn": ("angle", 1), "s": ("time", 1), "ms": ("time", Fraction(1, 1000)), "Hz": ("freq", 1),
    "kHz": ("freq", 1000), "dpi": ("res", Fraction(1, 96)), "dpcm": ("res", Fraction(254, 9600)),
    "dppx": ("res", 1), "%": ("percent", 1), "em": ("em", 1), "foo": ("foo", 1),
}
DIMS = {}
for _u, (_d, _r) in UNITS.items():
    DIMS.setdefault(_d, []).append(_u)
TABLE_DIMS = ["length", "angle", "time", "freq", "res"]
INF, NINF, NAN = float("inf"), float("-inf"), float("nan")


def bits_of(x):
    return struct.unpack("<Q", struct.pack("<d", x))[0]


class Num:
    """one numeric argument: SCSS text, f64 value, unit"""

    def __init__(self, text, unit="", value=None):
        self.text, self.unit = text, unit
        self.value = float(text) if value is None else value

    def scss(self):
        if self.value != self.value:
            return "math.div(0%s, 0)" % self.unit
        if self.value in (INF, NINF):
            return "math.div(%s1%s, 0)" % ("-" if self.value < 0 else "", self.unit)
        return self.text + self.unit

    def enc(self):
        return f"{bits_of(self.value)}:{self.unit or '-'}"


def parse_arg(s):
    b, u = s.split(":")
    return struct.unpack("<d", struct.pack("<Q", int(b)))[0], ("" if u == "-" else u)


def mkcase(fn, args, stratum, call=None):
    call = call or "math.%s(%s)" % (fn, ", ".join(a.scss() for a in args))
    src = '@use "sass:math";\na{b: %s}\n' % call
    return Case("\t".join(["mf", fn] + [a.enc() for a in args] + [hx(src)]), stratum, {"call": call})


# ------------------------------------------------------------------------------------------------
BOUNDARY = ["0", "-0", "0.5", "-0.5", "1.5", "-1.5", "2.5", "-2.5", "0.4999999999", "-0.4999999999", "0.5000000001",
            "1", "-1", "2", "10", "0.1", "-0.1", "0.9", "-0.9", "1e300", "-1e300", "1e-300", "5e-324", "1e15",
            "4503599627370495.5", "4503599627370496.5", "9007199254740993", "123456.789", "-123456.789", "0.000001",
            "99.5", "-99.5", "1e22", "3", "-3", "100", "0.25", "0.3333333333"]


def rand_num(rng, unit=None, special=True):
    k = rng.random()
    if unit is None:
        unit = rng.choice(["", "", "px", "in", "cm", "mm", "pt", "pc", "Q", "deg", "grad", "rad", "turn", "s", "ms",
                           "Hz", "kHz", "dpi", "dpcm", "dppx", "%", "em", "foo"])
    if special and k < 0.06:
        return Num("inf", unit, rng.choice([INF, NINF]))
    if special and k < 0.09:
        return Num("nan", unit, NAN)
    if k < 0.35:
        return Num(rng.choice(BOUNDARY), unit)
    if k < 0.55:
        return Num(str(rng.randint(-1000, 1000)), unit)
    if k < 0.7:
        return Num("%d.5" % rng.randint(-50, 50), unit)
    d = rng.randint(1, 6)
    return Num(("%." + str(d) + "f") % rng.uniform(-1000, 1000), unit)


def same_dim_unit(rng, unit):
    d = UNITS[unit][0]
    return rng.choice(DIMS[d])


def gen(tier, rng, boost=1):
    quick = tier == "quick"
    n = (1200 if quick else 12000) * boost
    # 1. abs / ceil / floor / round: every boundary number x a few units, then random
    for fn in ("abs", "ceil", "floor", "round"):
        for t in BOUNDARY:
            for u in ("", "px", "%", rng.choice(list(UNITS))):
                yield mkcase(fn, [Num(t, u)], "bounding")
        for sp in (INF, NINF, NAN):
            for u in ("", "px"):
                yield mkcase(fn, [Num("x", u, sp)], "bounding-nonfinite")
        for _ in range(n // 4):
            yield mkcase(fn, [rand_num(rng)], "bounding")
    # 2. percentage
    for t in BOUNDARY:
        yield mkcase("percentage", [Num(t, "")], "percentage")
    for _ in range(n // 4):
        yield mkcase("percentage", [rand_num(rng, rng.choice(["", "", "", "px", "%", "deg"]))], "percentage")
    # 3. div (results with at most one unit)
    for _ in range(n):
        a = rand_num(rng)
        k = rng.random()
        if k < 0.4:
            b = rand_num(rng, "")
        elif k < 0.7 or a.unit == "":
            b = rand_num(rng, a.unit)
        else:
            b = rand_num(rng, same_dim_unit(rng, a.unit))
        if rng.random() < 0.1:
            b = Num(rng.choice(["0", "-0"]), b.unit)
        yield mkcase("div", [a, b], "div")
    # 4. min / max
    for _ in range(n * 2):
        fn = rng.choice(["min", "max"])
        k = rng.random()
        cnt = rng.choice([1, 2, 2, 3, 3, 4, 5])
        if k < 0.45:       # one dimension (incl. unitless / % / em / foo)
            u0 = rng.choice(list(UNITS))
            args = [rand_num(rng, same_dim_unit(rng, u0), special=rng.random() < 0.3) for _ in range(cnt)]
            st = "extreme-compatible"
        elif k < 0.6:      # exact ties across units
            d = rng.choice(TABLE_DIMS)
            base = Fraction(rng.randint(1, 40))
            args = []
            for _ in range(cnt):
                u = rng.choice(DIMS[d])
                val = base * UNITS[rng.choice(DIMS[d])][1] / UNITS[u][1] if rng.random() < 0.0 else None
                args.append(tie_num(rng, d, u, base))
            st = "extreme-ties"
        elif k < 0.75:     # unitless mixed with one dimension
            u0 = rng.choice(list(UNITS))
            args = [rand_num(rng, rng.choice(["", same_dim_unit(rng, u0)]), special=False) for _ in range(cnt)]
            st = "extreme-unitless-mix"
        else:              # incompatible somewhere
            args = [rand_num(rng, special=False) for _ in range(max(cnt, 2))]
            st = "extreme-random-units"
        yield mkcase(fn, args, st)
    yield mkcase("min", [], "extreme-empty")
    yield mkcase("max", [], "extreme-empty")
    # 5. clamp
    for _ in range(n):
        k = rng.random()
        if k < 0.6:
            u0 = rng.choice(list(UNITS))
            args = [rand_num(rng, same_dim_unit(rng, u0), special=rng.random() < 0.2) for _ in range(3)]
            st = "clamp-compatible"
        elif k < 0.75:
            d = rng.choice(TABLE_DIMS)
            base = Fraction(rng.randint(1, 40))
            args = [tie_num(rng, d, rng.choice(DIMS[d]), base) for _ in range(3)]
            st = "clamp-ties"
        else:
            args = [rand_num(rng, special=False) for _ in range(3)]
            st = "clamp-random-units"
        if rng.random() < 0.5 and st == "clamp-compatible":
            args.sort(key=lambda a: (a.value != a.value, a.value if a.value == a.value else 0) )
            args = [args[0], args[rng.choice([0, 1, 2])], args[2]] if rng.random() < 0.5 else args
        yield mkcase("clamp", args, st)
    # 6. unitless-only functions
    POS = ["0", "1", "2", "0.5", "10", "100", "1e-300", "1e300", "2.718281828459045", "-1", "-0.5", "4", "9", "0.25"]
    for fn in ("sqrt", "exp", "log", "asin", "acos", "atan"):
        for t in POS + ["-2", "0.9999999", "-0.9999999", "1000", "-1000", "710"]:
            yield mkcase(fn, [Num(t, "")], "unitless-fn")
        for sp in (INF, NINF, NAN):
            yield mkcase(fn, [Num("x", "", sp)], "unitless-fn-nonfinite")
        for u in ("px", "%", "deg", "em", "foo", "s"):
            yield mkcase(fn, [Num(rng.choice(POS), u)], "unitless-fn-unit")
        for _ in range(n // 6):
            yield mkcase(fn, [rand_num(rng, rng.choice(["", "", "", "", "px", "deg", "%"]))], "unitless-fn")
    for _ in range(n):
        a = rand_num(rng, rng.choice(["", "", "", "", "", "px", "%"]))
        b = rand_num(rng, rng.choice(["", "", "", "", "", "px", "deg"]))
        if rng.random() < 0.5:
            a = Num(rng.choice(["0", "1", "-1", "2", "-2", "0.5", "10", "-8", "1e300", "1e-300"]), a.unit)
        if rng.random() < 0.5:
            b = Num(rng.choice(["0", "1", "-1", "2", "3", "0.5", "-0.5", "1000", "-1000", "0.3333333333"]), b.unit)
        yield mkcase(rng.choice(["pow", "log"]), [a, b], "pow-log")
    # 7. trigonometry
    for fn in ("sin", "cos", "tan"):
        for t, u in (("0", ""), ("0", "deg"), ("30", "deg"), ("45", "deg"), ("60", "deg"), ("90", "deg"), ("180", "deg"),
                     ("360", "deg"), ("-90", "deg"), ("100", "grad"), ("200", "grad"), ("0.5", "turn"), ("0.25", "turn"),
                     ("1", "rad"), ("3.141592653589793", "rad"), ("1.5707963267948966", "rad"), ("1", ""), ("1e6", "deg"),
                     ("1", "px"), ("1", "%"), ("1", "s"), ("1", "em"), ("1", "foo"), ("1", "Hz"), ("1", "dppx")):
            yield mkcase(fn, [Num(t, u)], "trig")
        for sp in (INF, NINF, NAN):
            yield mkcase(fn, [Num("x", rng.choice(["", "deg"]), sp)], "trig-nonfinite")
        for _ in range(n // 3):
            u = rng.choice(["", "deg", "deg", "grad", "rad", "turn", "px", "%", "ms"])
            yield mkcase(fn, [rand_num(rng, u, special=False)], "trig")
    for _ in range(n // 2):
        k = rng.random()
        if k < 0.7:
            u0 = rng.choice(["", "px", "in", "cm", "deg", "s", "ms", "em", "foo"])
            y, x = rand_num(rng, same_dim_unit(rng, u0)), rand_num(rng, same_dim_unit(rng, u0))
        else:
            y, x = rand_num(rng, rng.choice(["", "px", "s", "deg"])), rand_num(rng, rng.choice(["", "px", "s", "em"]))
        if "%" in (y.unit, x.unit):
            continue
        yield mkcase("atan2", [y, x], "atan2")


def tie_num(rng, d, u, base):
    """`base` (in the dimension's base unit) written in unit `u`, when that is a short decimal;
    otherwise written in the base unit itself"""
    if u != "rad":
        val = base / UNITS[u][1]
        for digits in range(0, 8):
            t = ("%." + str(digits) + "f") % float(val)
            if Fraction(t) == val:
                return Num(t, u)
    unit1 = [x for x in DIMS[d] if UNITS[x][1] == 1][0]
    return Num(str(int(base)), unit1)


# ------------------------------------------------------------------------------------------------
NUMRE = re.compile(r"(-?(?:\d+\.?\d*|\.\d+))([a-zA-Z%]*)")


def parse_value(text):
    """emitted declaration value -> (value: Fraction | float('inf'/'nan'), unit) or None"""
    m = re.fullmatch(r"calc\((-?)(infinity|NaN)(?: \* 1([a-zA-Z%]+))?\)", text)
    if m:
        v = NAN if m.group(2) == "NaN" else (NINF if m.group(1) else INF)
        return v, m.group(3) or ""
    m = NUMRE.fullmatch(text)
    if m:
        return Fraction(m.group(1)), m.group(2)
    return None


def canon(impl):
    if impl.startswith("err:"):
        return "err"
    if not impl.startswith("ok:"):
        return impl
    css = unhx(impl[3:])
    m = re.search(r"b: (.*);\n\}", css, re.S)
    if not m:
        return "nodecl"
    t = m.group(1)
    if re.match(r"(min|max|clamp)\(", t):
        return "css-call"
    return t


FMAX = Fraction(1.7976931348623157e308)


def show(w):
    try:
        return repr(float(w))
    except OverflowError:
        return "huge"


def close(got, want, rel=Fraction(1, 10 ** 9)):
    """printed value `got` (Fraction / inf / nan) agrees with `want` at output precision"""
    if isinstance(want, float) and want != want:
        return isinstance(got, float) and got != got
    if want in (INF, NINF):
        return got == want
    if isinstance(got, float):
        return False
    want = Fraction(want)
    return abs(got - want) <= Fraction(1, 2 * 10 ** 10) + rel * abs(want) + Fraction(1, 10 ** 300)


def finite(x):
    return x == x and x not in (INF, NINF)


def to_base(v, u):
    """value in the base unit of its dimension (exact; inf/nan kept)"""
    if not finite(v):
        return v
    return Fraction(v) * UNITS[u][1]


def comparable(u1, u2):
    return u1 == "" or u2 == "" or UNITS[u1][0] == UNITS[u2][0]


def cmp_key(v, u, mixed):
    """comparison key; `mixed`: unitless numbers take part, compare raw values"""
    if not finite(v):
        return v
    return Fraction(v) if mixed else to_base(v, u)


def lib(f, *a):
    try:
        return f(*a)
    except ValueError:
        if f is math.sqrt or f is math.asin or f is math.acos:
            return NAN
        if f is math.log:
            x = a[0]
            return NINF if x == 0 else NAN
        if f is math.pow:
            b, e = a
            if b == 0 and e < 0:    # C pow: pole error, +-infinity
                return NINF if (math.copysign(1, b) < 0 and float(e).is_integer() and int(e) % 2 == 1) else INF
            return NAN
        return NAN
    except OverflowError:
        if f is math.pow:
            # sign: negative base with odd integer exponent
            b, e = a
            return NINF if (b < 0 and float(e).is_integer() and int(e) % 2 == 1) else INF
        return INF
    except ZeroDivisionError:
        b, e = a
        return INF if not (math.copysign(1, b) < 0 and float(e).is_integer() and int(e) % 2 == 1) else NINF


def oracle(fn, args, got):
    """the statement of C29 on the implementation's own result; None = holds"""
    vals = [a[0] for a in args]
    units = [a[1] for a in args]
    pv = parse_value(got) if got not in ("err", "css-call", "nodecl") else None
    if fn in ("abs", "ceil", "floor", "round"):
        v, u = args[0]
        if pv is None:
            return f"{fn} of a number must be a number"
        if pv[1] != u:
            return f"{fn} must keep the unit {u!r}, got {pv[1]!r}"
        if not finite(v):
            want = abs(v) if fn == "abs" else v
        else:
            x = Fraction(v)
            if fn == "abs":
                want = abs(x)
            elif fn == "ceil":
                want = Fraction(math.ceil(x))
            elif fn == "floor":
                want = Fraction(math.floor(x))
            else:
                want = Fraction(math.floor(abs(x) + Fraction(1, 2))) * (1 if x >= 0 else -1)
        return None if close(pv[0], want, Fraction(1, 10 ** 14)) else f"{fn}: expected {want}"
    if fn == "percentage":
        v, u = args[0]
        if u != "":
            return None if got == "err" else "percentage of a number with units must be an error"
        if pv is None or pv[1] != "%":
            return "percentage must return a % number"
        want = v * 100 if not finite(v) else Fraction(v) * 100
        return None if close(pv[0], want, Fraction(1, 10 ** 13)) else f"percentage: expected {want}%"
    if fn == "div":
        (a, ua), (b, ub) = args
        if ub == "" or ua == ub or (ua != "" and UNITS[ua][0] == UNITS[ub][0] and UNITS[ua][0] in TABLE_DIMS):
            if pv is None:
                return "div of two numbers must be a number"
            unit = ua if ub == "" else ""
            if pv[1] != unit:
                return f"div: expected unit {unit!r}"
            if finite(a) and finite(b) and b != 0:
                want = Fraction(a) / Fraction(b)
                if ub != "" and ua != ub:
                    want = want * UNITS[ua][1] / UNITS[ub][1]
                if abs(want) > FMAX:       # the quotient overflows f64
                    want = INF if want > 0 else NINF
                return None if close(pv[0], want, Fraction(1, 10 ** 12)) else f"div: expected {show(want)}"
            try:
                want = a / b if finite(b) or finite(a) else NAN
            except ZeroDivisionError:
                want = NAN if (a == 0 or a != a) else (INF if (a > 0) == (math.copysign(1, b) > 0) else NINF)
            if isinstance(want, float) and finite(want):
                return None if close(pv[0], Fraction(want), Fraction(1, 10 ** 12)) else "div: value"
            return None if close(pv[0], want) else f"div: expected {want}"
        return None
    if fn in ("min", "max"):
        if not args:
            return None if got == "err" else "min/max without arguments must be an error"
        withu = [u for u in units if u != ""]
        incompatible = any(not comparable(u1, u2) for u1 in withu for u2 in withu)
        if incompatible and "" in units and got == "err":
            return None
        if incompatible and "" not in units:
            return None if got == "err" else "incompatible units must be an error"
        # (incompatible units separated by unitless numbers may never meet in a pairwise scan:
        #  then, as for compatible numbers, the result has to be one of the arguments)
        if pv is None:
            return f"{fn} of compatible numbers must return one of its arguments"
        # is it one of the arguments?
        cands = [i for i, (v, u) in enumerate(args) if u == pv[1] and close(pv[0], v if not finite(v) else Fraction(v), Fraction(1, 10 ** 13))]
        if not cands:
            return f"{fn} did not return one of its arguments"
        if any(v != v for v in vals):
            return None
        mixed = "" in units and len(withu) > 0
        if incompatible or (mixed and len(args) > 2):
            return None  # unitless against units is not a transitive order: any argument is acceptable
        keys = [cmp_key(v, u, mixed) for v, u in args]
        best = min(keys) if fn == "min" else max(keys)
        ok = any(keys[i] == best or (finite(keys[i]) and finite(best) and abs(keys[i] - best) <= abs(best) / 10 ** 12) for i in cands)
        return None if ok else f"{fn} returned an argument that is not the extreme one"
    if fn == "clamp":
        withu = [u for u in units if u != ""]
        if any(not comparable(u1, u2) for u1 in withu for u2 in withu):
            return None if got == "err" else "incompatible units must be an error"
        if withu and "" in units:
            return None  # unitless mixed with units: the statement does not say
        if pv is None:
            return "clamp of compatible numbers must return one of its arguments"
        cands = [i for i, (v, u) in enumerate(args) if u == pv[1] and close(pv[0], v if not finite(v) else Fraction(v), Fraction(1, 10 ** 13))]
        if not cands:
            return "clamp did not return one of its arguments"
        if any(v != v for v in vals):
            return None
        k = [cmp_key(v, u, False) for v, u in args]
        want = k[0] if k[1] <= k[0] else (k[2] if k[1] >= k[2] else k[1])
        if k[0] > k[2]:
            return None  # min > max: not specified
        ok = any(k[i] == want or (finite(k[i]) and finite(want) and abs(k[i] - want) <= abs(want) / 10 ** 12) for i in cands)
        return None if ok else "clamp returned the wrong argument"
    if fn in ("sqrt", "exp", "log", "pow", "asin", "acos", "atan"):
        if any(u != "" for u in units):
            return None if got == "err" else f"{fn} requires unitless input"
        if pv is None:
            return f"{fn} of unitless numbers must be a number"
        wantu = "deg" if fn in ("asin", "acos", "atan") else ""
        if pv[1] != wantu:
            return f"{fn}: expected unit {wantu!r}"
        x = vals[0]
        if fn == "sqrt":
            w = NAN if x != x else (lib(math.sqrt, x) if x != NINF else NAN)
        elif fn == "exp":
            w = lib(math.exp, x)
        elif fn == "log" and len(vals) == 1:
            w = lib(math.log, x) if x == x and x != NINF else NAN
        elif fn == "log":
            b = vals[1]
            try:
                w = lib(math.log, x) / lib(math.log, b)
            except ZeroDivisionError:
                n = lib(math.log, x)
                w = NAN if (n == 0 or n != n) else (INF if n > 0 else NINF)
                if math.copysign(1, lib(math.log, b)) < 0:
                    w = -w
        elif fn == "pow":
            w = lib(math.pow, x, vals[1])
        elif fn == "atan":
            w = math.degrees(math.atan(x))
        else:
            w = NAN if (x != x or abs(x) > 1) else math.degrees((math.asin if fn == "asin" else math.acos)(x))
        if isinstance(w, float) and finite(w):
            w = Fraction(w)
        return None if close(pv[0], w) else f"{fn}: expected {show(w)}"
    if fn in ("sin", "cos", "tan"):
        v, u = args[0]
        if u != "" and UNITS[u][0] != "angle":
            return None if got == "err" else f"{fn} takes an angle"
        if pv is None or pv[1] != "":
            return f"{fn} of an angle must be a unitless number"
        if not finite(v):
            return None if (isinstance(pv[0], float) and pv[0] != pv[0]) else f"{fn} of a non-finite angle is NaN"
        rad = v if u in ("", "rad") else float(Fraction(v) * UNITS[u][1] * 2 * PI)
        w = getattr(math, fn)(rad)
        # conditioning: an argument error of a few ulp is amplified by |d f/dx| * |x|
        amp = abs(rad) * (1 + w * w if fn == "tan" else 1)
        tol = Fraction(1, 10 ** 9) + Fraction(amp) / 10 ** 14
        if isinstance(pv[0], float):
            return f"{fn}: expected {w!r}"
        return None if abs(pv[0] - Fraction(w)) <= Fraction(1, 2 * 10 ** 10) + tol * max(1, abs(Fraction(w))) else f"{fn}: expected {w!r}"
    if fn == "atan2":
        (y, uy), (x, ux) = args
        if (uy == "") != (ux == "") or (uy != "" and UNITS[uy][0] != UNITS[ux][0]):
            return None if got == "err" else "atan2 with incompatible units must be an error"
        if pv is None or pv[1] != "deg":
            return "atan2 must return degrees"
        if y != y or x != x:
            return None if (isinstance(pv[0], float) and pv[0] != pv[0]) else "atan2 of NaN is NaN"
        if uy in ("em", "foo", "") or uy == ux:
            xv = x
        else:
            xv = float(Fraction(x) * UNITS[ux][1] / UNITS[uy][1]) if finite(x) else x
        w = Fraction(math.degrees(math.atan2(y, xv)))
        return None if close(pv[0], w, Fraction(1, 10 ** 9)) else f"atan2: expected {show(w)}"
    return None


def judge(case, impl, asis, spec):
    f = case.lines[0].split("\t")
    fn, args = f[1], [parse_arg(x) for x in f[2:-1]]
    if impl.startswith(("panic:", "abort:")):
        return Verdict(False, "crash: " + impl[:60])
    got = canon(impl)
    return Verdict(asis is None or got == asis, oracle(fn, args, got))


def nontrivial(case, impl, spec):
    return impl.startswith("ok:")


RULE = ("cases = one math-module call on generated numbers (decimal literals with 1-10 significant digits, boundary "
        "values 0, -0, +-0.5 ties, 2^52+0.5, 1e300, 1e-300, 5e-324, +-infinity, NaN) with units from the factor table "
        "(px in cm mm pt pc Q, deg grad rad turn, s ms, Hz kHz, dpi dpcm dppx), %, em, an unknown unit and none; strata "
        "per function family (bounding, percentage, div, min/max with compatible / exact-tie / unitless-mixed / random "
        "units, clamp, unitless-only functions, pow/log, trigonometry, atan2); non-trivial = the call returns a value")
TRUSTED = ["Lean Float operations and C libm (driver) = Rust f64 operations and libm (validated by exact text agreement)",
           "Num.fmtNumber (C10 model) for printing the model's result",
           "Python fractions/math reference computation at 10 printed digits"]
ASSUMPTIONS = ["values of transcendental functions are libm's (model parameters); only argument handling is proved",
               "tolerance of the reference comparison: half a unit of the 10th decimal plus 1e-9 relative "
               "(1e-12..1e-14 for exact functions), amplified by the condition number for sin/cos/tan",
               "the 1/2pi factor of `rad` is an arbitrary positive rational in the exact theorems"]
LEVEL = "proof"
LEVEL_TEXT = ("Proof (Lean 4), partial: decision logic and unit handling of the math module over an abstract number carrier "
              "(units kept, unitless/angle requirements, min/max/clamp return an argument, incompatible units are errors) and "
              "exact-rational value theorems (round half away from zero, floor/ceil, percentage, extremality after unit "
              "conversion); transcendental values are libm parameters checked against Python's math at 10 digits.")
LEVEL_NOTE = ("Partial: values of sqrt/exp/log/pow/trig are not proved (libm). Trusted: Lean kernel, Lean Float = Rust f64, "
              "C10 number formatter model, Python reference.")
TECHNIQUE = "Lean 4 theorems over a carrier-parametric model of sass:math + exact-text differential correspondence with a Float instance"
