"""C12 — Equality is symmetric and consistent with ordering."""
from tools.vlib import Case, Verdict, hx
from props import _valgen as G
from props._valgen import float_of, bits_of, step, num

ID = "C12"
DRIVER = "drv_C12"
THEOREM_MODS = ["RsassModel.Theorems.C12"]
LEVEL = "proof"
CASE_TIMEOUT = 60
RULE = ("one case = an ordered pair of values (a, b); the harness evaluates a==b, b==a, a!=b, b!=a, a==a, b==b, a<b, a>b, "
        "a<=b, a>=b, b<a, b>a, once on css::Value objects built through the public API from exact f64 bit patterns (veq) and "
        "once through compiled SassScript text (seq).  Strata: numbers within 0..4 ulps of each other / of 1 / of ties of the "
        "relative-epsilon test, special numbers (0, -0, inf, NaN, subnormal), with no unit, equal, convertible and "
        "incompatible units; strings in the three quote styles (and escapes, direct API only); colours in hex3/hex6/name/"
        "rgb()/rgba() notation and channels within 1e-7; lists, maps (permuted, respelled keys), arglists, functions, "
        "booleans, null; cross-kind pairs; hsl() colours implementation-only.  Non-trivial = neither value is a plain "
        "identical copy of the other's term and the comparison did not error.")
TRUSTED = ["Lean Float = IEEE f64 of Rust for - * / abs < == (validated by exact agreement on every generated bit pattern)",
           "unit conversion factors are read from the running code (harness op c12scale) and passed to the model",
           "Python oracle of the statement (symmetry, negation, reflexivity, trichotomy) on the implementation's own results"]
ASSUMPTIONS = ["NumCmpLaws (|a-b| = |b-a|, == symmetric/reflexive off NaN, < irreflexive/asymmetric/total off NaN) hold for f64; "
               "they are proved for the exact carrier Num.XRat and are IEEE-754 facts for f64",
               "trichotomy is demanded for two non-NaN numbers with the same unit, both unitless, or units CSS fixes a ratio "
               "between (unitless against a unit is excluded: Sass itself answers false three times there)"]

VEC = ["a==b", "b==a", "a!=b", "b!=a", "a==a", "b==b", "a<b", "a>b", "a<=b", "a>=b", "b<a", "b>a"]


def pair_case(a, b, stratum, direct=True, text=True):
    out = []
    conv = G.conv_field(a, b)
    if direct:
        out.append(Case(f"veq\t{G.term(a)}\t{G.term(b)}\t{conv}", stratum + "/api"))
    if text:
        ta, tb = G.scss(a), G.scss(b)
        if ta is not None and tb is not None:
            out.append(Case(f"seq\t{G.term(a, True)}\t{G.term(b, True)}\t{conv}\t{hx(ta)}\t{hx(tb)}", stratum + "/scss"))
    return out


def inline_case(a, b, stratum):
    """operands written inline in the comparison (calc() results keep their flag only then)"""
    ta, tb = G.scss(a), G.scss(b)
    if ta is None or tb is None or ta.startswith("(") or tb.startswith("("):
        return []
    return [Case(f"seqin\t{G.term(a, True)}\t{G.term(b, True)}\t{G.conv_field(a, b)}\t{hx(ta)}\t{hx(tb)}", stratum + "/inline")]


def near(x, rng):
    k = rng.random()
    if k < 0.55:
        return step(x, rng.choice([-4, -3, -2, -1, 1, 2, 3, 4]))
    if k < 0.7:
        return x
    if k < 0.85:
        return x * (1 + rng.choice([-1, 1]) * rng.choice([1, 2, 3]) * 2.0 ** -rng.choice([51, 52, 53, 54]))
    return x + rng.choice([-1, 1]) * abs(x) * 2.220446049250313e-16 * rng.choice([0.5, 1, 1.0000000000000002, 2])


def gen_num_pair(rng):
    base = rng.choice([1.0, 1.0, 1.0, 2.0, 0.5, 3.0, 10.0, 0.1, 0.3, 100.0, 1e-7, 1e15, 255.0, -1.0, -0.75,
                       rng.uniform(-10, 10), rng.uniform(0, 1), float(rng.randint(1, 1000)),
                       2.0 ** rng.randint(-30, 30), step(2.0 ** rng.randint(-3, 3), -1)])
    a = base
    b = near(base, rng)
    k = rng.random()
    if k < 0.45:
        ua = ub = rng.choice([0, 0, 1, 3, 12, 18, 21])
    elif k < 0.6:
        ua, ub = rng.choice([(0, 1), (1, 0), (0, 12), (18, 0)])
    elif k < 0.9:
        grp = rng.choice([[1, 2, 3, 4, 5, 6, 7], [8, 9, 10, 11], [12, 13], [14, 15], [19, 20]])
        ua, ub = rng.choice(grp), rng.choice(grp)
        t = G.conv_table()
        if (ua, ub) in t and ua != ub:
            # b is (about) the same quantity expressed in the other unit
            b = near(a * float_of(t[(ua, ub)]), rng)
    else:
        ua, ub = rng.choice([(1, 12), (8, 13), (1, 21), (21, 22), (16, 17), (1, 16), (18, 1)])
    return num(a, ua, rng.randint(0, 4)), num(b, ub, rng.randint(0, 4))


SPECIAL = [0.0, -0.0, float("inf"), float("-inf"), float("nan"), 5e-324, -5e-324, 1e-323, 2.2250738585072014e-308,
           1.7976931348623157e308, 1.0, -1.0, 2.0 ** -52, 2.0 ** -53]

ESC_STRINGS = ["a", "\\61", "\\61 ", "\\61 b", "\\", "a\\", "\\z", "\\\n", "\\g1", "\\41x", "\\d800", "\\110000",
               "\\ ", "\\9 9", "\"", "'", "=", "A", "\\\\"]


def gen(tier, rng, boost=1):
    quick = tier == "quick"
    # --- fixed witnesses and special numbers (always)
    one, below = num(1.0), num(step(1.0, -2))
    yield from pair_case(one, below, "witness")
    vx = ("str", "x", "n")
    yield from pair_case(("map", [(num(step(1.0, -1)), vx), (num(step(1.0, 1)), vx)]), ("map", [(num(1.0), vx), (num(5.0), vx)]), "witness")
    yield from pair_case(num(0.5, 12), num(500.0000000000001, 13), "witness")
    yield Case(f"numeq\t{bits_of(1.0)}\t{bits_of(step(1.0, -2))}", "number-api")
    for x in SPECIAL:
        for y in SPECIAL:
            yield Case(f"numeq\t{bits_of(x)}\t{bits_of(y)}", "number-api")
            for ua, ub in ((0, 0), (1, 1), (0, 1), (1, 2)):
                yield from pair_case(num(x, ua), num(y, ub), "num-special", text=(not quick) or x == y or rng.random() < 0.15)
    # --- numbers near each other
    n = (2500 if quick else 100000) * boost
    for i in range(n):
        a, b = gen_num_pair(rng)
        yield from pair_case(a, b, "num-near", text=(i % (6 if quick else 10) == 0))
        if i % 5 == 0:
            yield Case(f"numeq\t{a[1]}\t{b[1]}", "number-api")
    # --- numbers produced by calc() (not marked "calculated") against literals / each other
    n = (400 if quick else 6000) * boost
    yield from inline_case(("numa", bits_of(1.0), 1, 0), num(1.0, 1), "witness")
    for i in range(n):
        a, b = gen_num_pair(rng)
        if float_of(a[1]) < 0 or float_of(b[1]) < 0:
            continue
        k = rng.random()
        a2 = ("numa",) + a[1:] if k < 0.7 else a
        b2 = ("numa",) + b[1:] if k > 0.4 else b
        yield from pair_case(a2, b2, "num-calc", text=False)
        if i % 4 == 0:
            yield from inline_case(a2, b2, "num-calc")
    # --- strings
    for s1 in G.STR_POOL:
        for s2 in G.STR_POOL[:6] + [s1]:
            for q1 in "nds":
                for q2 in "nds":
                    yield from pair_case(("str", s1, q1), ("str", s2, q2), "str", text=(s1 == s2 or rng.random() < 0.2))
    for s1 in ESC_STRINGS:
        for s2 in ESC_STRINGS:
            q1, q2 = rng.choice("nds"), rng.choice("nds")
            yield from pair_case(("str", s1, q1), ("str", s2, q2), "str-escape", text=False)
    # string literals that are == under different escape spellings, same and different quote kinds
    lits = [t for c in G.ESCAPE_CLASSES for t in c]
    for t1 in lits:
        for t2 in lits:
            yield from pair_case(("strl", t1), ("strl", t2), "str-escape-literal")
    # --- colours
    n = (300 if quick else 8000) * boost
    for i in range(n):
        a = G.gen_color(rng)
        k = rng.random()
        if k < 0.4:
            b = G.respell(a, rng)
        elif k < 0.7:
            c = list(a[1])
            j = rng.randrange(4)
            d = rng.choice([5e-8, 9.99e-8, 1e-7, 1.01e-7, 3e-7, 1.0]) * (1 if j < 3 else 1e-3)
            top = 255 if j < 3 else 1
            c[j] = c[j] - d if c[j] + d > top else c[j] + d  # Rgba::new caps channels: stay inside the range
            txt = (f"rgba({G.plain(float(c[0]))}, {G.plain(float(c[1]))}, {G.plain(float(c[2]))}, {G.plain(float(c[3]))})")
            b = ("color", tuple(c), txt)
        else:
            b = G.gen_color(rng)
        yield from pair_case(a, b, "color", text=(i % 3 == 0))
    # hsl()/hwb() colours: implementation only (the model has no opinion on colour space conversion)
    HSL = ["hsl(0, 100%, 50%)", "hsl(120, 100%, 50%)", "hsl(240deg, 100%, 50%)", "hsla(0, 100%, 50%, 0.5)", "hsl(210, 50%, 40%)",
           "hwb(0 0% 0%)", "hwb(120 0% 0%)", "red", "#00f", "lime", "rgba(255, 0, 0, 0.5)", "rgb(51, 102, 153)",
           "hsl(33, 7%, 21%)", "hwb(33 20% 30%)", "adjust-hue(hsl(33, 7%, 21%), 0)", "lighten(hsl(210, 50%, 40%), 0%)"]
    for x in HSL:
        for y in HSL:
            yield Case(f"seqi\tnull\tnull\t-\t{hx(x)}\t{hx(y)}", "color-hsl-impl-only", {"nonan": True})
    # --- structured values
    n = (1200 if quick else 30000) * boost
    for i in range(n):
        a = G.gen_value(rng, 2)
        k = rng.random()
        if k < 0.35:
            b = G.respell(a, rng)
        elif k < 0.5 and a[0] == "map":
            kv = list(a[1])
            rng.shuffle(kv)
            b = G.respell(("map", kv), rng)
        elif k < 0.6 and a[0] in ("list", "arglist"):
            items = list(a[1])
            if a[0] == "list":
                b = rng.choice([("list", items, rng.choice("sc") if len(items) > 1 else a[2], a[3]),
                                ("list", items, a[2], not a[3]), ("arglist", items), ("list", items[::-1], a[2], a[3])])
            else:
                b = rng.choice([("list", items, "c", False), ("arglist", items[::-1]), ("arglist", items + [("null",)])])
        elif k < 0.7:
            # mutate one atom deep inside
            b = mutate(a, rng)
        else:
            b = G.gen_value(rng, 2)
        yield from pair_case(a, b, "struct", text=(i % 3 == 0))
    # --- maps whose numeric keys are within the tolerance of a key of the other map (== is not
    # transitive on numbers, so a one-sided inclusion test is order dependent)
    n = (150 if quick else 4000) * boost
    for i in range(n):
        base = rng.choice([1.0, 1.0, 2.0, 0.5, 10.0, 0.1, 3.0, float(rng.randint(1, 100))])
        v = rng.choice([("str", "x", "n"), num(1.0), ("bool", True)])
        lo, hi = step(base, -rng.choice([1, 1, 2])), step(base, rng.choice([1, 1, 2]))
        # a second key of the other map: never == base (a literal with two == keys is an error)
        other = num(rng.choice([x for x in (5.0, 7.0, base * 2, base + 11.0) if abs(x - base) > 1e-6]))
        a = ("map", [(num(lo), v), (num(hi), v)])
        b = ("map", [(num(base), v), (other, v)])
        if rng.random() < 0.5:
            a, b = b, a
        yield from pair_case(a, b, "map-nearkeys", text=(i % 2 == 0))
    # empty list / empty map / empty arglist
    empties = [("list", [], "u", False), ("list", [], "u", True), ("map", []), ("arglist", []), ("str", "", "n"),
               ("str", "", "d"), ("null",), ("bool", False), num(0.0), ("list", [("null",)], "c", False)]
    for a in empties:
        for b in empties:
            yield from pair_case(a, b, "empties")


def mutate(v, rng):
    k = v[0]
    if k == "num":
        return ("num", bits_of(near(float_of(v[1]), rng)), v[2], v[3])
    if k == "str":
        return ("str", v[1] + rng.choice(["", "x"]), rng.choice("nds"))
    if k in ("list", "arglist") and v[1]:
        items = list(v[1])
        j = rng.randrange(len(items))
        items[j] = mutate(items[j], rng)
        return (k, items) + tuple(v[2:])
    if k == "map" and v[1]:
        kv = list(v[1])
        j = rng.randrange(len(kv))
        kv[j] = (kv[j][0], mutate(kv[j][1], rng)) if rng.random() < 0.6 else (mutate(kv[j][0], rng), kv[j][1])
        return ("map", kv)
    return v


# ------------------------------------------------------------------ oracle
def parse_pair(case):
    """(kind info for the oracle) from the term fields — the generator objects are not kept,
    the line is the case"""
    f = case.lines[0].split("\t")
    return f


def num_info(termtext):
    t = termtext.split(" ")
    if t[0] in ("n", "na") and len(t) == 3:
        return float_of(int(t[1])), int(t[2])
    return None


def has_nan(termtext):
    t = termtext.split(" ")
    for i, tok in enumerate(t):
        if tok in ("n", "na") and i + 1 < len(t) and t[i + 1].isdigit():
            x = float_of(int(t[i + 1]))
            if x != x:
                return True
    return False


def oracle(f, r):
    """the statement of C12 evaluated on the implementation's 12 results"""
    if len(r) != 12:
        return "crash or malformed result: " + r[:40]
    for i in range(6):
        if r[i] not in "TF":
            return f"{VEC[i]} is not a boolean ({r[i]})"
    if r[0] != r[1]:
        return f"a==b is {r[0]} but b==a is {r[1]}"
    if (r[2] == "T") == (r[0] == "T"):
        return "a!=b is not the negation of a==b"
    if (r[3] == "T") == (r[1] == "T"):
        return "b!=a is not the negation of b==a"
    op = f[0]
    nan_a = has_nan(f[1]) if op != "seqi" else False
    nan_b = has_nan(f[2]) if op != "seqi" else False
    if not nan_a and r[4] != "T":
        return "a==a is false for a value that is not NaN"
    if not nan_b and r[5] != "T":
        return "b==b is false for a value that is not NaN"
    if op != "seqi":
        na, nb = num_info(f[1]), num_info(f[2])
        if na and nb and na[0] == na[0] and nb[0] == nb[0] and G.css_comparable(na[1], nb[1]):
            if any(c not in "TF" for c in (r[6], r[7])):
                return "a<b / a>b did not evaluate to booleans for comparable numbers"
            cnt = (r[6] == "T") + (r[0] == "T") + (r[7] == "T")
            if cnt != 1:
                return f"trichotomy: {cnt} of a<b, a==b, a>b hold"
    return None


def canon(impl, model):
    """positions the model does not decide ('?') are masked; for the order operators an error
    and an unevaluated operation are the same class"""
    if model is None or len(impl) != 12 or len(model) != 12:
        return impl, model
    # an error of an order operator counts as "unevaluated" only where the model says unevaluated
    # (non-number operands through SassScript); where the model says error (numbers with incompatible
    # units) the implementation must report an error too
    i2 = "".join(("N" if (c == "E" and k >= 6 and model[k] == "N") else c) if model[k] != "?" else "?"
                 for k, c in enumerate(impl))
    return i2, model


def judge(case, impl, asis, spec):
    f = case.lines[0].split("\t")
    if f[0] in ("numeq", "c12scale"):
        # `Number`'s own PartialEq/PartialOrd at the public API: correspondence only
        return Verdict(asis is None or impl == asis, None)
    why = oracle(f, impl)
    i2, a2 = canon(impl, asis)
    return Verdict(asis is None or i2 == a2, why)


def nontrivial(case, impl, spec):
    f = case.lines[0].split("\t")
    if f[0] in ("numeq", "c12scale"):
        return f[1] != f[2]
    return len(impl) == 12 and f[1] != f[2] and "E" not in impl[:6]


LEVEL_TEXT = ("Proof (Lean 4): symmetry of == for all values by mutual structural induction given symmetric number equality, "
              "symmetry of the repaired relative-epsilon test, != as negation, reflexivity off NaN, trichotomy of <, ==, > for "
              "comparable numbers, over a model of Number/Numeric/CssString/Rgba/Value PartialEq+PartialOrd and Operator::eval; "
              "refutations for the code as is (1 == 1-2^-52 one way only; arglist != itself). Tied to the code by exact agreement "
              "on generated pairs, bit-exact through the public API and through compiled SassScript.")
LEVEL_NOTE = ("Trusted: Lean kernel; IEEE facts NumCmpLaws for f64 (proved for the exact carrier XRat only); Lean Float = Rust f64; "
              "conversion factors extracted from the running code; hsl()/hwb() colour conversion is not modelled (oracle on the "
              "implementation only).")
TECHNIQUE = "Lean 4 theorems over a model of the equality/ordering impls + differential correspondence on value pairs"


def __getattr__(name):
    """ALWAYS_QUIRKS is computed: flags of the shared value model that belong to open findings of
    other properties (e.g. C13's map-equality findings) are live iff their witness still fails."""
    if name == "ALWAYS_QUIRKS":
        return G.live_value_flags(ID)
    raise AttributeError(name)
