"""C07 — Output is well framed and correctly encoded.

Cases
  c07w <e|c> <css|scss> <hex src> <tree>   generated CSS tree: rendered as plain-CSS input (and, for a
        family of shapes, as nested SCSS with the tree predicted by `Dest` below); the harness compiles
        `src`, the Lean model (`Writer.compile`) writes `tree`; compared byte for byte.
  compile scss <e|c> 10 input.scss <hex>   spec-corpus input (no model opinion): oracle only.
The oracle (`oracle`) evaluates the four clauses of the statement on the raw output bytes.
"""
import os
import re
from tools.vlib import Case, Verdict, hx, unhx, REPO

ID = "C07"
DRIVER = "drv_C07"
THEOREM_MODS = ["RsassModel.Theorems.C07"]
LEVEL = "proof"
CASE_TIMEOUT = 60

BOM = b"\xef\xbb\xbf"
CHARSET = b'@charset "UTF-8";'


# ----------------------------------------------------------------------------------------
# the oracle: the statement, clause by clause, on raw bytes
# ----------------------------------------------------------------------------------------
def _cls(x):
    return {34: "dq", 39: "sq", 42: "star", 47: "slash", 40: "lp", 41: "rp", 123: "lbrace", 125: "rbrace",
            91: "lbrack", 93: "rbrack", 92: "bs", 117: "u", 85: "u", 114: "r", 82: "r", 108: "l", 76: "l"}.get(x, "o")


def scan_step(mode, stack, ok, x):
    """one step of the automaton `Writer.step` (lean/RsassModel/Writer/Scan.lean); mode is a
    string, normal modes are 'n', 'n/', 'nu', 'nur', 'nurl'"""
    c = _cls(x)
    if mode[0] == "n":
        if c == "dq":
            return "dq", stack, ok
        if c == "sq":
            return "sq", stack, ok
        if mode == "n/" and c == "star":
            return "cmt", stack, ok
        if mode == "nurl" and c == "lp":
            return "url", stack, ok
        if c == "lbrace":
            return "n", stack + "{", ok
        if c == "lbrack":
            return "n", stack + "[", ok
        if c in ("rbrace", "rbrack"):
            want = "{" if c == "rbrace" else "["
            if not stack:
                return "n", stack, False
            return "n", stack[:-1], ok and stack[-1] == want
        if c == "bs":
            return "esc", stack, ok
        if c == "slash":
            return "n/", stack, ok
        if c == "u":
            return "nu", stack, ok
        if mode == "nu" and c == "r":
            return "nur", stack, ok
        if mode == "nur" and c == "l":
            return "nurl", stack, ok
        return "n", stack, ok
    if mode == "esc":
        return "n", stack, ok
    if mode in ("dq", "sq"):
        q = "dq" if mode == "dq" else "sq"
        if c == q:
            return "n", stack, ok
        if c == "bs":
            return mode + "E", stack, ok
        return mode, stack, ok
    if mode in ("dqE", "sqE"):
        return mode[:-1], stack, ok
    if mode == "cmt":
        return ("cmtS" if c == "star" else "cmt"), stack, ok
    if mode == "cmtS":
        if c == "slash":
            return "n", stack, ok
        return ("cmtS" if c == "star" else "cmt"), stack, ok
    if mode == "url":
        if c == "rp":
            return "n", stack, ok
        if c == "bs":
            return "urlE", stack, ok
        if c == "dq":
            return "urlDq", stack, ok
        if c == "sq":
            return "urlSq", stack, ok
        return "url", stack, ok
    if mode == "urlE":
        return "url", stack, ok
    if mode in ("urlDq", "urlSq"):
        q = "dq" if mode == "urlDq" else "sq"
        if c == q:
            return "url", stack, ok
        if c == "bs":
            return mode + "E", stack, ok
        return mode, stack, ok
    if mode in ("urlDqE", "urlSqE"):
        return mode[:-1], stack, ok
    raise AssertionError(mode)


def scan_balance(out):
    mode, stack, ok = "n", "", True
    for x in out:
        mode, stack, ok = scan_step(mode, stack, ok, x)
    return ok and stack == ""


def custom_value_mask(out):
    """mask[i] = True when byte i lies inside the value of a custom property (`--name: value`)"""
    n = len(out)
    mask = [False] * n
    mode, stack, ok = "n", "", True
    decl_start = True     # at the start of a declaration / item
    i = 0
    while i < n:
        x = out[i]
        if mode[0] == "n" and decl_start and out[i:i + 2] == b"--":
            j = i
            while j < n and out[j] not in b":;{}":
                j += 1
            if j < n and out[j] == 58:
                # value: up to `;` or the closing `}` at this nesting depth, outside strings etc.
                m2, st2, ok2 = "n", "", True
                k = j + 1
                while k < n:
                    if m2[0] == "n" and st2 == "" and out[k] in b";}":
                        break
                    m2, st2, ok2 = scan_step(m2, st2, ok2, out[k])
                    mask[k] = True
                    k += 1
                i = k
                decl_start = False
                continue
        if mode[0] == "n":
            if x in b"{;}":
                decl_start = True
            elif x in b" \t\r\n\x0c":
                pass
            elif mode == "n/" and x == 42:
                pass  # comment opens; decl_start unchanged
            elif x == 47 and decl_start:
                pass
            else:
                decl_start = False
        mode, stack, ok = scan_step(mode, stack, ok, x)
        i += 1
    return mask


def clause_failures(out, style):
    """the statement evaluated on one successful output; returns a list of failed clause names"""
    bad = []
    if out and (not out.endswith(b"\n") or out.endswith(b"\n\n")):
        bad.append("newline: output is neither empty nor ends with exactly one newline")
    if not scan_balance(out):
        bad.append("balance: braces/brackets do not balance outside strings, comments and url()")
    ascii_only = all(x < 128 for x in out)
    marker = out.startswith(BOM) if style == "c" else out.startswith(CHARSET)
    if not ascii_only and not marker:
        bad.append("marker: non-ASCII output without " + ("byte-order mark" if style == "c" else '@charset "UTF-8";'))
    if style == "c":
        mask = custom_value_mask(out)
        where = newline_contexts(out)
        kinds = sorted({where[i] for i, x in enumerate(out[:-1]) if x == 10 and not mask[i]})
        for k in kinds:
            bad.append("linebreak(" + k + "): compressed output has a line break before the final one "
                       + {"comment": "inside a comment", "atargs": "inside at-rule arguments", "other": ""}[k])
    return bad


def newline_contexts(out):
    """for every byte position: 'comment' (inside /*..*/), 'atargs' (between `@name` and the `{` or `;`
    that ends the at-rule prelude) or 'other' — used to name where a line break sits"""
    res = []
    mode, stack, ok = "n", "", True
    prelude = False
    for x in out:
        if mode[0] == "n":
            if x == 64:
                prelude = True
            elif x in b"{;}":
                prelude = False
        res.append("comment" if mode in ("cmt", "cmtS") else "atargs" if prelude else "other")
        mode, stack, ok = scan_step(mode, stack, ok, x)
    return res


def oracle(res, style):
    if res.startswith(("panic:", "abort:")):
        return None          # crashes are C01's subject; nothing to say about an output
    if not res.startswith("ok:"):
        return None
    bad = clause_failures(bytes.fromhex(res[3:]), style)
    return "; ".join(bad) if bad else None


# ----------------------------------------------------------------------------------------
# generated trees
# ----------------------------------------------------------------------------------------
class A:
    """an atom: source text, and the text rsass prints for it in expanded / compressed style"""
    __slots__ = ("src", "e", "c")

    def __init__(self, src, e=None, c=None):
        self.src = src
        self.e = src if e is None else e
        self.c = self.e if c is None else c


IDENTS = ["a", "b", "c", "x", "foo", "bar", "b-c", "qux1", "é", "ünï", "日本"]
PROPS = ["color", "b", "margin-left", "-x-y", "wídth", "x1"]
VALUES = [A("red"), A("12"), A("1.5px"), A("0.5", "0.5", ".5"), A("-0.25em", "-0.25em", "-.25em"), A('"a b"'),
          A('"é"'), A("a b"), A("a, b", "a, b", "a,b"), A("a,b", "a, b", "a,b"), A("f(a, 1)"), A("#abc"),
          A("url(foo.png)"), A('url("a)b")'), A("é"), A("1 2,3 4", "1 2, 3 4", "1 2,3 4"), A("[a b]"), A('"{"'),
          A("\"a'b\""), A("10%"), A("a\n  b", "a b"), A('"}"'), A('"/*"'), A("a/b"), A("U+26"), A('"日本 語"')]
SELS = [A("a"), A(".c"), A("#i"), A("a.b"), A("a b"), A("a > b", "a > b", "a>b"), A("a>b", "a > b", "a>b"),
        A("a, b", "a, b", "a,b"), A("a ,\n b", "a, b", "a,b"), A("a:hover"), A("a::before"), A("[x=y]"),
        A('[x="y z"]'), A("*"), A("a + b", "a + b", "a+b"), A("a ~ b", "a ~ b", "a~b"), A(".é"),
        A(":not(.a, .b)", ":not(.a, .b)", ":not(.a,.b)"), A('[x="{"]'), A("a\nb", "a b"), A(".日本"), A(".a\\{b")]
MEDIA = [A("screen"), A("print and (min-width: 10px)"), A("(a: b)"), A("screen, print", "screen, print", "screen,print"),
         A("not screen"), A("only screen and (a: 0.5)", "only screen and (a: 0.5)", "only screen and (a: .5)"),
         A("(width >= 600px)"), A("screen and (a: b), print", "screen and (a: b), print", "screen and (a: b),print")]
ATNAMES = ["foo", "-x-bar", "supports", "font-face", "page", "keyframes"]
ATARGS = [None, A("bar"), A('"x y" (a: b) z'), A("(a: b)"), A("é"), A("k"), A("a\n  b"), A("a  b (c\n d)")]
IMPORTS = [A('"x.css"'), A("url(x.css)"), A('"é.css"')]
COMMENT_WORDS = ["x", " c ", " multi\n line ", " a\n   b ", "*\n * doc\n ", " é ", "! loud ", "", "**", "# map ",
                 " x\n      deep\n      er ", " {", " } ", " \" ", " a\n\n b ", "\n", " t\n", " a\n* b\n*", "/", " url( ",
                 "# sourceMappingURL=x.map ", "# sourceURL=y", "#", "# sourceMappingURL", "#x\n   y"]
CUSTOM = [(" 1 2", False), ("a", False), (" {a b}", False), ('"q"', True), ('"é"', True), (" {a\n b}", False),
          ("[x](y)", False), (" é", False)]
WS = ["", "", " ", "\n", "\n  ", "  ", "\t"]


def _is_ascii(x):
    if x is None:
        return True
    if isinstance(x, A):
        return _is_ascii(x.src)
    if isinstance(x, tuple):
        return all(_is_ascii(y) for y in x if not isinstance(y, bool))
    if isinstance(x, bytes):
        return all(b < 128 for b in x)
    return all(ord(ch) < 128 for ch in x)


def tok(b):
    return "x" + (b if isinstance(b, bytes) else b.encode()).hex()


def enc_tree(nodes, style=None):
    out = []
    for n in nodes:
        k = n[0]
        if k == "C":
            out += ["C", tok(n[1])]
        elif k == "I":
            out += ["I", tok(n[1].e), tok(n[1].c)]
        elif k == "P":
            out += ["P", tok(n[1]), tok(n[2].e), tok(n[2].c)]
        elif k == "V":
            out += ["V", tok(n[1]), tok(n[2]), "1" if n[3] else "0"]
        elif k == "R":
            out += ["R"] + (["-"] if n[1] is None else [tok(n[1].e), tok(n[1].c)]) + ["("] + enc_tree(n[2]) + [")"]
        elif k == "M":
            out += ["M", tok(n[1].e), tok(n[1].c), "("] + enc_tree(n[2]) + [")"]
        elif k == "L":
            out += ["L", tok(n[1])] + (["-"] if n[2] is None else [tok(n[2].e), tok(n[2].c)])
        elif k == "B":
            out += ["B", tok(n[1])] + (["-"] if n[2] is None else [tok(n[2].e), tok(n[2].c)]) + ["("] + enc_tree(n[3]) + [")"]
        elif k == "S":
            out += ["S"]
    return out


def gen_comment(rng):
    if rng.random() < 0.6:
        return rng.choice(COMMENT_WORDS)
    # structured multi-line comment with varying indentation of the continuation lines
    lines = [rng.choice([" x", "", "*", " é"])]
    for _ in range(rng.randint(1, 3)):
        lines.append(" " * rng.randint(0, 7) + rng.choice(["b", "* b", "", "*", "é", "b */".replace("*/", "* /")]))
    return "\n".join(lines) + rng.choice(["", " ", "\n", "\n   "])


def css_tree(rng, ctx, depth, nonascii):
    """returns (nodes, src) for a body in context ctx: top | rule | media | at"""
    nodes, src = [], ""
    n = rng.choice([0, 1, 1, 2, 2, 3, 4]) if depth else rng.choice([1, 2, 3, 4, 5])
    w = lambda: rng.choice(WS)
    pick = lambda l: rng.choice([x for x in l if nonascii or _is_ascii(x)])
    for _ in range(n):
        kinds = {"top": ["C", "I", "R", "R", "R", "M", "B"], "rule": ["C", "I", "P", "P", "P", "V"],
                 "media": ["C", "I", "R", "R", "M", "B"], "at": ["C", "I", "R", "P", "P"]}[ctx]
        k = rng.choice(kinds)
        if depth >= 3 and k in ("M", "B"):
            k = "R"
        if k == "C":
            t = pick([gen_comment(rng) for _ in range(4)] + ["x"])
            nodes.append(("C", t.encode()))
            src += "/*" + t + "*/" + w()
        elif k == "I":
            a = pick(IMPORTS)
            nodes.append(("I", a))
            src += "@import" + rng.choice([" ", "  "]) + a.src + ";" + w()
        elif k == "P":
            name, v = pick(PROPS), pick(VALUES)
            nodes.append(("P", name.encode(), v))
            src += name + ":" + w() + v.src + ";" + w()
        elif k == "V":
            name = "--" + pick(IDENTS)
            val, quoted = pick([c for c in CUSTOM])
            # custom_value: a trailing newline of a raw value becomes a space
            nodes.append(("V", name.encode(), val.encode(), quoted))
            src += name + ":" + val + ";" + w()
        elif k == "R":
            sel = pick(SELS)
            body, bsrc = css_tree(rng, "rule", depth + 1, nonascii)
            nodes.append(("R", sel, body))
            src += sel.src + w() + "{" + w() + bsrc + "}" + w()
        elif k == "M":
            args = pick(MEDIA)
            body, bsrc = css_tree(rng, "media", depth + 1, nonascii)
            nodes.append(("M", args, body))
            src += "@media " + args.src + w() + "{" + w() + bsrc + "}" + w()
        elif k == "B":
            name, args = pick(ATNAMES), pick(ATARGS)
            body, bsrc = css_tree(rng, "at", depth + 1, nonascii)
            nodes.append(("B", name.encode(), args, body))
            src += "@" + name + (" " + args.src if args else "") + rng.choice(["", " ", "\n"]) + "{" + w() + bsrc + "}" + w()
    return nodes, src


# ---- SCSS family: the same node kinds written as nested SCSS; `Dest` is a port of
# ---- rsass/src/output/cssdest.rs (RuleDest / AtRuleDest / AtMediaDest / CssData) that predicts the tree.
class Dest:
    def __init__(self, kind, parent=None, sel=None, name=None, args=None, rule=None):
        self.kind, self.parent, self.sel, self.name, self.args = kind, parent, sel, name, args
        self.rule = rule          # list (body of the carried rule) or None
        self.rsel = sel
        self.body = []
        self.imports = []

    # --- CssDestination
    def push_item(self, it):
        k = self.kind
        if k == "data":
            (self.imports if it[0] == "I" else self.body).append(it)
        elif k == "rule":
            if it[0] == "S":
                return
            if it[0] == "L":
                self.rule.append(it)
            else:
                self.commit_rule()
                self.parent.push_item(it)
        else:
            if it[0] != "S":
                self.commit_inner()      # 242f60b: what is collected for the enclosing rule goes first
                self.body.append(it)

    def commit_inner(self):
        """cssdest.rs `commit_rule(&mut self.rule, &mut self.body)` of AtRuleDest / AtMediaDest"""
        if self.rule:
            self.body.append(("R", self.rsel, self.rule))
            self.rule = []

    def push_leaf(self, it):     # push_property / push_custom_property / push_comment
        if self.kind == "data":
            self.body.append(it)
        elif self.rule is not None:
            self.rule.append(it)
        else:
            self.body.append(it)

    def separate(self):
        if self.kind == "data":
            self.body.append(("S",))

    def commit_rule(self):
        if self.rule:
            r = ("R", self.rsel, self.rule)
            self.rule = []
            self.parent.push_item(r)

    def start_rule(self, sel):
        return Dest("rule", self, sel=sel, rule=[])

    def carried_sel(self):
        return self.rsel if self.rule is not None else None

    def start_media(self, args):
        cs = self.carried_sel()
        d = Dest("media", self, args=args, rule=([] if cs is not None else None))
        d.rsel = cs
        return d

    def start_at(self, name, args):
        cs = None if name in (b"font-face", b"keyframes") else self.carried_sel()
        d = Dest("at", self, name=name, args=args, rule=([] if cs is not None else None))
        d.rsel = cs
        return d

    def drop(self):
        if self.kind == "rule":
            self.commit_rule()
        elif self.kind == "at":
            self.commit_inner()
            self.parent.push_item(("B", self.name, self.args, self.body))
        elif self.kind == "media":
            self.commit_inner()
            self.parent.push_item(("M", self.args, self.body))
        self.parent.separate()


def nest(parent, child):
    """selector nesting for the family used here: parent is None or an atom made of complex selectors
    joined by commas; child is a single complex selector"""
    if parent is None:
        return child
    return A(None, ", ".join(p + " " + child.e for p in parent.e.split(", ")),
             ",".join(p + " " + child.c for p in parent.c.split(",")))


SCSS_SELS = [A("a"), A(".c"), A("#i"), A("a.b"), A("a b"), A("a > b", "a > b", "a>b"), A("a:hover"), A("[x=y]"), A(".é")]
SCSS_PARENTS = SCSS_SELS + [A("a, b", "a, b", "a,b"), A(".x, .y > z", ".x, .y > z", ".x,.y>z")]
SCSS_VALUES = [A("red"), A("12"), A("1.5px"), A("0.5", "0.5", ".5"), A('"a b"'), A('"é"'), A("a b"), A("a, b", "a, b", "a,b"),
               A("f(a, 1)"), A("url(foo.png)"), A("é"), A('"{"'), A("10%"), A("1 + 1", "2"), A('"}"'), A("-0.25em", "-0.25em", "-.25em")]
SCSS_ATS = [(b"foo", A("bar")), (b"foo", None), (b"-x-bar", A("baz qux")), (b"supports", A("(a: b)")), (b"foo", A("é"))]


def scss_body(rng, dest, scope_sel, depth, style, nonascii, in_rule):
    """emit a random body into `dest` (predicting the tree) and return its SCSS source"""
    src = ""
    pick = lambda l: rng.choice([x for x in l if nonascii or _is_ascii(x)])
    for _ in range(rng.choice([1, 2, 2, 3, 4])):
        kinds = ["P", "P", "P", "C", "R", "M", "B", "L", "V"] if in_rule else ["R", "R", "R", "C", "M", "B", "L"]
        k = rng.choice(kinds)
        if depth >= 3 and k in "RMB":
            k = "P" if in_rule else "C"
        if k == "P":
            name, v = pick(PROPS), pick(SCSS_VALUES)
            dest.push_leaf(("P", name.encode(), v))
            src += name + ": " + v.src + ";\n"
        elif k == "V":
            name = "--" + pick(IDENTS)
            val = rng.choice([" 1 2", "a", " {a b}"])
            dest.push_leaf(("V", name.encode(), val.encode(), False))
            src += name + ":" + val + ";\n"
        elif k == "C":
            t = pick([" x ", " c\n   d ", " é ", "* doc\n * more\n ", "! loud ", "! loud\n      more ", "!"])
            if style == "e" or t.startswith("!"):
                # transform.rs Item::Comment: compressed style keeps only `/*! … */` comments
                dest.push_leaf(("C", t.encode()))
            src += "/*" + t + "*/\n"
        elif k == "L":
            name, args = pick(SCSS_ATS)
            dest.push_item(("L", name, args))
            src += "@" + name.decode() + (" " + args.src if args else "") + ";\n"
        elif k == "R":
            child = pick(SCSS_SELS if scope_sel is not None else SCSS_PARENTS)
            sel = nest(scope_sel, child)
            d = dest.start_rule(sel)
            inner = scss_body(rng, d, sel, depth + 1, style, nonascii, True)
            d.drop()
            src += child.src + " {\n" + inner + "}\n"
        elif k == "M":
            args = pick(MEDIA[:5])
            d = dest.start_media(args)
            inner = scss_body(rng, d, scope_sel, depth + 1, style, nonascii, scope_sel is not None)
            d.drop()
            src += "@media " + args.src + " {\n" + inner + "}\n"
        elif k == "B":
            name, args = pick(SCSS_ATS)
            d = dest.start_at(name, args)
            inner = scss_body(rng, d, scope_sel, depth + 1, style, nonascii, scope_sel is not None)
            d.drop()
            src += "@" + name.decode() + (" " + args.src if args else "") + " {\n" + inner + "}\n"
    return src


def scss_case(rng, style, nonascii):
    # the body is generated twice with the same random stream so that both styles see one source
    st = rng.getstate()
    data = Dest("data")
    src = scss_body(rng, data, None, 0, style, nonascii, False)
    return src, data.imports + data.body, st


def deep_cases(rng):
    """towers of 38..64 nested blocks (the indentation passes the 80 preallocated columns of `get_indent` at depth 41)
    around a rule with a declaration and a (loud, multi-line) comment — both styles"""
    depths = [38, 40, 41, 42, rng.randint(43, 63), 64]
    for d in depths:
        inner_css = [("P", b"b", A("c")), ("C", b"! x\n   y "), ("C", b" z ")]
        # (1) plain CSS: @media tower around a rule
        tree = [("R", A("a"), inner_css)]
        src = "a{b:c;/*! x\n   y *//* z */}"
        for i in range(d):
            tree = [("M", A("screen"), tree)]
            src = "@media screen{" + src + "}"
        for st in "ec":
            yield Case("\t".join(["c07w", st, "css", hx(src), " ".join(enc_tree(tree))]), "deep-nesting", {"depth": d})
        # (2) SCSS: tower of unknown at-rules around a rule; (3) the same tower inside a rule (carried selector)
        for inside_rule in (False, True):
            for st in "ec":
                data = Dest("data")
                dests = []
                cur, sel = data, None
                if inside_rule:
                    sel = A("p")
                    cur = cur.start_rule(sel)
                    dests.append(cur)
                for i in range(d):
                    cur = cur.start_at(("l%d" % i).encode(), None)
                    dests.append(cur)
                rsel = nest(sel, A("a"))
                r = cur.start_rule(rsel)
                r.push_leaf(("P", b"b", A("c")))
                r.push_leaf(("C", b"! x\n   y "))
                if st == "e":
                    r.push_leaf(("C", b" z "))
                r.drop()
                for x in reversed(dests):
                    x.drop()
                src = "a{b:c;/*! x\n   y *//* z */}"
                for i in reversed(range(d)):
                    src = "@l%d{" % i + src + "}"
                if inside_rule:
                    src = "p{" + src + "}"
                yield Case("\t".join(["c07w", st, "scss", hx(src), " ".join(enc_tree(data.imports + data.body))]),
                           "deep-nesting", {"depth": d})


def gen(tier, rng, boost=1):
    yield from deep_cases(rng)
    n_css = (350 if tier == "quick" else 6000) * boost
    n_scss = (250 if tier == "quick" else 4000) * boost
    fixed = [
        ("", []),
        ("a{}", [("R", A("a"), [])]),
        ("/* x */", [("C", b" x ")]),
        ('@import url(x.css);', [("I", A("url(x.css)"))]),
        ('a{b:"é"}', [("R", A("a"), [("P", b"b", A('"é"'))])]),
        ("/*# m */a{b:c}", [("C", b"# m "), ("R", A("a"), [("P", b"b", A("c"))])]),
        ("a{/*# m */}", [("R", A("a"), [("C", b"# m ")])]),
        ("/*# sourceMappingURL=m */a{b:c}", [("C", b"# sourceMappingURL=m "), ("R", A("a"), [("P", b"b", A("c"))])]),
        ("a{/*# sourceURL=m */}", [("R", A("a"), [("C", b"# sourceURL=m ")])]),
        ("@foo{/*# sourceURL=m */}", [("B", b"foo", None, [("C", b"# sourceURL=m ")])]),
        ("@foo{/* only */}", [("B", b"foo", None, [("C", b" only ")])]),
        ("@foo{}", [("B", b"foo", None, [])]),
        ("@media screen{a{}}", [("M", A("screen"), [("R", A("a"), [])])]),
        ("a{--x:a\n}", [("R", A("a"), [("V", b"--x", b"a ", False)])]),
    ]
    for src, tree in fixed:
        for st in "ec":
            yield Case("\t".join(["c07w", st, "css", hx(src), " ".join(enc_tree(tree))]), "css-fixed")
    for i in range(n_css):
        nonascii = rng.random() < 0.4
        tree, src = css_tree(rng, "top", 0, nonascii)
        src = rng.choice(["", "", "\n", " "]) + src
        for st in "ec":
            yield Case("\t".join(["c07w", st, "css", hx(src), " ".join(enc_tree(tree))]), "css-tree")
    for i in range(n_scss):
        nonascii = rng.random() < 0.4
        src, tree_e, state = scss_case(rng, "e", nonascii)
        after = rng.getstate()
        rng.setstate(state)
        src_c, tree_c, _ = scss_case(rng, "c", nonascii)
        rng.setstate(after)
        assert src == src_c
        yield Case("\t".join(["c07w", "e", "scss", hx(src), " ".join(enc_tree(tree_e))]), "scss-tree")
        yield Case("\t".join(["c07w", "c", "scss", hx(src), " ".join(enc_tree(tree_c))]), "scss-tree")
    # interpolated atoms that are not closed (known finding C07-interp-brace) and closed ones
    for v, ok in (('#{"{"}', False), ('#{"}"}', False), ('#{"["}', False), ('#{"{}"}', True), ('"#{"{"}"', True), ('#{"/*"}', False)):
        for st in "ec":
            text = v if "#" != v[0] else None
            val = {'#{"{"}': "{", '#{"}"}': "}", '#{"["}': "[", '#{"{}"}': "{}", '"#{"{"}"': '"{"', '#{"/*"}': "/*"}[v]
            tree = [("R", A("a"), [("P", b"b", A(val))]), ("S",)]
            yield Case("\t".join(["c07w", st, "scss", hx("a{b: " + v + "}"), " ".join(enc_tree(tree))]), "interp-atom")
    yield from spec_corpus_cases(tier, rng, boost)


# ----------------------------------------------------------------------------------------
# spec corpus: inputs embedded in rsass/tests/spec/**/*.rs as `runner().ok("…")` literals
# ----------------------------------------------------------------------------------------
def rust_literal(s, i):
    """parse a Rust string literal starting at s[i] == '"'; returns (value, end index)"""
    assert s[i] == '"'
    i += 1
    out = []
    n = len(s)
    while i < n:
        ch = s[i]
        if ch == '"':
            return "".join(out), i + 1
        if ch == "\\":
            c2 = s[i + 1]
            if c2 == "\n":
                i += 2
                while i < n and s[i] in " \t\r\n":
                    i += 1
                continue
            if c2 == "u":
                j = s.index("}", i)
                out.append(chr(int(s[i + 3:j], 16)))
                i = j + 1
                continue
            if c2 == "x":
                out.append(chr(int(s[i + 2:i + 4], 16)))
                i += 4
                continue
            out.append({"n": "\n", "t": "\t", "r": "\r", "\\": "\\", '"': '"', "'": "'", "0": "\0"}.get(c2, c2))
            i += 2
            continue
        out.append(ch)
        i += 1
    raise ValueError("unterminated literal")


_SPEC_CACHE = {}


def spec_inputs():
    root = os.path.join(REPO, "rsass", "tests", "spec")
    if root in _SPEC_CACHE:
        return _SPEC_CACHE[root]
    res = []
    for d, _, files in sorted(os.walk(root)):
        for fn in sorted(files):
            if not fn.endswith(".rs") or fn in ("main.rs", "testrunner.rs"):
                continue
            try:
                text = open(os.path.join(d, fn), encoding="utf-8").read()
            except (OSError, UnicodeDecodeError):
                continue
            if "mock_file" in text:
                continue
            for m in re.finditer(r"runner\(\)\s*\.ok\(\s*(?=\")", text):
                try:
                    src, j = rust_literal(text, m.end())
                    k = text.index('"', j)
                    if text[j:k].strip() != "),":
                        exp = None
                    else:
                        exp, _ = rust_literal(text, k)
                except (ValueError, IndexError):
                    continue
                res.append((os.path.relpath(os.path.join(d, fn), root), src, exp))
    _SPEC_CACHE[root] = res
    return res


def spec_corpus_cases(tier, rng, boost):
    allin = spec_inputs()
    if tier == "quick":
        k = min(len(allin), 250 * boost)
        chosen = [allin[i] for i in sorted(rng.sample(range(len(allin)), k))]
    else:
        chosen = allin
    for path, src, exp in chosen:
        ref_bad = []
        if exp is not None:
            ref_bad = [b.split(":")[0] for b in clause_failures(exp.encode(), "e")]
        for st in "ec":
            yield Case("\t".join(["compile", "scss", st, "10", "input.scss", hx(src)]), "spec-corpus",
                       {"file": path, "ref_fails": ref_bad})


# ----------------------------------------------------------------------------------------
def judge(case, impl, asis, spec):
    f = case.lines[0].split("\t")
    if f[0] == "c07w":
        style = f[1]
        why = oracle(impl, style)
        im = impl if impl.startswith("ok:") else "err:" if impl.startswith("err:") else impl
        a = asis if asis is None or asis.startswith("ok:") else "err:"
        return Verdict(a is None or im == a, why)
    # spec corpus: oracle only; a clause the sass-spec reference output itself does not meet is not demanded
    style = f[2]
    why = None
    if impl.startswith("ok:"):
        bad = [b for b in clause_failures(bytes.fromhex(impl[3:]), style)
               if b.split(":")[0] not in case.note.get("ref_fails", [])]
        why = "; ".join(bad) if bad else None
    return Verdict(True, why)


FINDING_OF_KIND = {"linebreak(comment)": "C07-comment-compressed", "linebreak(atargs)": "C07-atargs-nl-compressed"}


def explained(case, r, live):
    """generated trees: the as-is model must reproduce the output and differ from the specification model;
    spec-corpus inputs (no model opinion): every failed clause must be of a kind a live finding covers"""
    ids = {f["id"] for f in live}
    if case.lines[0].startswith("c07w\t"):
        return bool(r["v"].corr_ok and live and all(a is not None for a in r["asis"]) and r["asis"] != r["spec"])
    kinds = {k.split(":")[0] for k in (r["v"].fails or "").split("; ")}
    return bool(kinds) and all(FINDING_OF_KIND.get(k) in ids for k in kinds)


def nontrivial(case, impl, spec):
    return isinstance(impl, str) and impl.startswith("ok:") and len(impl) > 3


def shrink(case, still_fails):
    return None


RULE = ("towers of 38..64 nested @media / unknown at-rule blocks (indentation beyond get_indent's 80 preallocated columns) "
        "around a rule with a declaration and comments, plain CSS and SCSS, both styles; CSS trees (comments incl. multi-line/indented, imports, rules, @media, unknown at-rules, declarations, custom "
        "properties; 40% with non-ASCII atoms; nesting <= 4) rendered as plain-CSS input with random whitespace and as nested "
        "SCSS (tree predicted by a port of cssdest.rs), both styles, compared byte-exact with the model writer; plus "
        "spec-corpus inputs (quick: 250 sampled, thorough: all without mock files) in both styles under the byte oracle; "
        "non-trivial = successful compilation with non-empty output")
LEVEL_TEXT = ("Proof (Lean 4) over a function-by-function model of CssBuf, the css tree writers and CssData::into_buffer: "
              "exactly-one-final-newline, encoding marker iff non-ASCII, brace/bracket balance by induction over the tree, "
              "no line break in compressed output; tied to the code byte-exact on generated trees in both styles, and a raw-byte "
              "oracle of all four clauses on every successful output incl. the spec corpus.")
LEVEL_NOTE = ("Atoms (selector/value/argument text) are opaque to the model; the balance theorem has the hypothesis that atoms "
              "are closed, which is exactly what the known finding C07-interp-brace violates. css::Function is not modelled.")
TECHNIQUE = "Lean 4 theorems over an executable writer model + byte-exact differential correspondence + byte oracle"
TRUSTED = ["props/C07.py Dest: Python port of cssdest.rs predicting the tree for the SCSS family",
           "props/C07.py atom tables: the text rsass prints for each source atom in each style",
           "props/C07.py oracle (Python copy of the Lean scanner)"]
ASSUMPTIONS = ["atoms are opaque: selector/value formatting is outside this property's model"]
