"""C20 — Nested at-rules bubble and @at-root escapes correctly."""
import random
from tools.vlib import Case, Verdict
from props import _dest as D

ID = "C20"
DRIVER = "drv_C20"
THEOREM_MODS = ["RsassModel.Theorems.C20"]
LEVEL = "proof"
# Deviations of the as-is model that are not violations of C20's statement (they are findings of
# C21/C36, where the statement does demand the behaviour) and therefore always on here.
# Each is on only while the implementation still shows it on its probe program (D.LiveFlags).
ALWAYS_QUIRKS = D.LiveFlags(DRIVER, ["atRuleHoists", "closeSwallows", "hashCommentDropped", "compressedDropsBang",
                                     "commentInterpExpandedOnly", "compressedMultilineGarbled"])
RULE = ("programs = 1-3 top-level items; rules up to depth 4 mixing declarations, nested rules, nested-property "
        "blocks, @media / @supports / unknown at-rules, body-less at-rules, @at-root with and without selector, "
        "@keyframes (also vendor-prefixed), optionally wrapped in @if/@each/mixins with @content; both output styles; "
        "strata: bubble, media-in-media, at-root, keyframes, dynamic (mixins/control). "
        "non-trivial = an at-rule or @at-root sits inside a style rule and the implementation produced CSS")
TRUSTED = ["props/_dest.py: rendering of the program tree as SCSS and as model term, CSS tokenizer/tree builder, "
           "reference evaluation of the statement (Ref)",
           "selector nesting for the generated selector shapes (textual; the selector algebra is not part of C20)"]
ASSUMPTIONS = ["theorems hold for every selector/text algebra `Ops`; the driver instantiates it with a textual nest "
               "that is validated by exact agreement of the trees on every generated case",
               "media-query merging is represented as `a and b`"]
EXHAUSTIVE = {}

STRATA = [
    ("bubble", dict(media_in_media=0.0, atroot=0.1, keyframes=0.1)),
    ("media-in-media", dict(media_in_media=1.0, atroot=0.1)),
    ("at-root", dict(atroot=1.0, atroot_decl=0.0, media_in_media=0.0)),
    ("at-root-decl", dict(atroot=1.0, atroot_decl=0.5, media_in_media=0.0)),
    ("keyframes", dict(keyframes=1.0, vendor=0.4, media_in_media=0.0)),
    ("dynamic", dict(control=0.5, mixin=0.7, media_in_media=0.1, atroot=0.3)),
    ("mixed", dict(control=0.3, mixin=0.4, media_in_media=0.3, atroot=0.4, atroot_decl=0.1, keyframes=0.3,
                   vendor=0.2, comment=0.1)),
]


def fixed_cases():
    d = lambda k: ('D', "p%d" % k, ('l', "v%d" % k))
    progs = [
        [('R', 'a', [d(1), ('M', 'x', [d(2), ('R', 'f', [d(3)]), d(4)]), d(5)])],
        [('M', 'qa', [('R', 'x', [('M', 'qb', [d(1)])])])],
        [('R', 'a', [('O', None, [d(1)])])],
        [('R', 'a', [('O', None, [('R', 'b', [d(1)])])])],
        [('R', 'a', [('O', 'b &', [d(1)])])],
        [('R', 'a', [d(1), ('A', 'keyframes', 'k', [('R', 'from', [d(2)]), ('R', 'to', [d(3)])]), d(4)])],
        [('R', 'a', [('A', '-webkit-keyframes', 'k', [('R', 'from', [d(2)])])])],
        [('R', 'a', [d(1), ('A', 'supports', '(a: b)', [d(2)]), ('a', 'foo', 'bar'), d(3)])],
        [('R', 'a', [('R', 'b', [('A', 'foo', 't', [d(1), ('R', 'c', [d(2)])])])])],
        [('M', 'qa', [('A', 'supports', '(a: b)', [('R', 'x', [d(1)])])])],
        [('R', 'a', [('A', 'font-face', '', [d(1)])])],
    ]
    for p in progs:
        for st in "ec":
            yield Case(D.case_line(p, st), "fixed")


def gen(tier, rng, boost=1):
    yield from fixed_cases()
    n = (260 if tier == "quick" else 6000) * boost
    for name, w in STRATA:
        for _ in range(n):
            g = D.Gen(rng, **w)
            prog = g.program()
            yield Case(D.case_line(prog, rng.choice("eec")), name)


def show_entry(e):
    path = " > ".join("@media " + x[1] if x[0] == 'M' else "@" + x[1] + " " + x[2] for x in e[1]) or "top level"
    return f"{e[3]}: {e[4]} in [{path}] {{ {e[2]} }}"


def oracle(prog, compressed, it):
    """C20's statement on the implementation's own output tree"""
    if it[0] == 'crash':
        return "crash: " + it[1]
    ref = D.reference(prog, compressed)
    if ref[0] == 'err':
        return None if it[0] == 'err' else "compiled although the reference semantics rejects it: " + ref[1]
    if it[0] == 'err':
        return "valid program rejected"
    exp = [e for e in ref[1].entries if e[0] == 'D']
    act = [e for e in D.flatten(it[1]) if e[0] == 'D']
    me, ma = D.multiset(exp), D.multiset(act)
    if me != ma:
        for e in exp:
            if ma.get(e, 0) < me[e]:
                got = [a for a in act if a[3:] == e[3:]]
                return ("expected " + show_entry(e) + "; got " +
                        ("; ".join(show_entry(a) for a in got[:2]) if got else "nothing"))
        extra = [a for a in act if me.get(a, 0) < ma[a]]
        return "unexpected " + show_entry(extra[0])
    # declaration order inside every (at-rule path, selector) group
    groups = {}
    for e in exp:
        groups.setdefault(e[1:3], []).append(e)
    for a_key in groups:
        if [a for a in act if a[1:3] == a_key] != groups[a_key]:
            return "declaration order changed inside " + show_entry(groups[a_key][0])
    return None


def judge(case, impl, asis, spec):
    prog, compressed = D.prog_of(case.lines[0])
    it = D.impl_tree(impl)
    corr = asis is None or it == D.model_tree(asis)
    return Verdict(corr, oracle(prog, compressed, it))


def _nested_at(stmts, in_rule):
    for s in stmts:
        k = s[0]
        if k in 'MAO' and in_rule:
            return True
        if k == 'R' and _nested_at(s[2], True):
            return True
        if k in 'MLPUXO' and _nested_at(s[2], in_rule):
            return True
        if k == 'A' and _nested_at(s[3], in_rule):
            return True
        if k == 'I' and (_nested_at(s[2], in_rule) or _nested_at(s[3], in_rule)):
            return True
        if k == 'Y' and s[2] and _nested_at(s[2], in_rule):
            return True
    return False


def nontrivial(case, impl, spec):
    if not impl.startswith("ok:"):
        return False
    prog, _ = D.prog_of(case.lines[0])
    return _nested_at(prog, False)


def shrink(case, still_fails):
    return D.shrink_case(case, still_fails)


LEVEL_TEXT = ("Proof (Lean 4) over a frame-stack model of cssdest.rs (RuleDest/AtRuleDest/AtMediaDest/NsRuleDest with "
              "Drop made an explicit close) and of the destination half of handle_item: bubbling of an at-rule through "
              "any number of enclosing rule frames, selector copy, @at-root and @keyframes contexts, for every selector "
              "algebra; tied to the code by agreement of canonical output trees on generated programs, plus an "
              "independent reference evaluation of the statement on the implementation's own CSS.")
LEVEL_NOTE = ("Trusted: Lean kernel; program rendering / CSS tree builder / reference semantics in props/_dest.py; textual "
              "selector nesting. Three deviations are open findings (media in media not merged, declarations directly "
              "in @at-root keep the parent rule, vendor-prefixed keyframes get prefixed selectors).")
TECHNIQUE = "Lean 4 theorems over an explicit frame-stack model + differential correspondence on canonical output trees"
