"""C16 — Variable assignment follows Sass scoping."""
import itertools
from tools.vlib import Case, Verdict
from props._coregen import *  # noqa: F401,F403
from props import _coregen as G

ID = "C16"
DRIVER = "drv_C16"
THEOREM_MODS = ["RsassModel.Theorems.C16"]
LEVEL = "proof"
# structural facts of the code as it is (not deviations by themselves): which flow-control
# bodies have no scope of their own.  `spec` = every flag off.
ALWAYS_QUIRKS = ["noIfScope"]
CASE_TIMEOUT = 20

RULE = ("programs = (a) bounded-exhaustive: every statement forest with <= 3 (quick) / 4 (thorough) nodes over "
        "{$a: n, $a: n !global, $a: n !default, $a: $a + 10, read $a} x {rule, @if, @else, @each, @for, @while, "
        "@media, @include-with-content-block, mixin body, function body}, with and without a leading global "
        "declaration, at least one read; (b) random programs nesting rules, @if/@each/@for/@while, @media, "
        "@supports, mixins (with @content), functions to depth 4 over $a $b $c (+ loop variables and parameters "
        "that shadow them), reads emitted as declarations `r{pN: $x}` at every level; (c) `!default` over a variable holding "
        "(), null null, (null,), unquote(\"\"), \"\", [], 0, false, null, 5 x 19 places (flat, rule, local, @media, @if, loops, mixin, "
        "content block, function, parameter, parameter default, !global !default, nested). Non-trivial = the spec "
        "model gives a definite non-error result with at least one emitted read.")
TRUSTED = ["props/_coregen.py prints the same program object as SCSS and as the model's term",
           "regex extraction of `pN: value;` lines from rsass's expanded output"]
ASSUMPTIONS = ["reads whose result depends on whether a variable first declared inside an ended @if/@each/@for/"
               "@while block is still visible are not judged (spec model answers `unspec` from that point on; "
               "the emitted prefix is still compared)",
               "values are integers/identifiers; programs leaving the modelled fragment are answered "
               "`unmodelled` and skipped (counted)"]

VARS = ["a", "b", "c"]


# ------------------------------------------------------------------ bounded-exhaustive
LEAVES = ["set", "glob", "dflt", "inc", "read"]
BLOCKS = ["rule", "if", "else", "each", "for", "while", "media", "inclblock", "mixinbody", "fnbody"]


def forests(n):
    """all ordered forests with exactly n nodes; node = (label, children)"""
    if n == 0:
        yield []
        return
    for k in range(1, n + 1):          # size of first tree
        for first in trees(k):
            for rest in forests(n - k):
                yield [first] + rest


def trees(n):
    if n == 1:
        for l in LEAVES:
            yield (l, [])
        return
    for kids in forests(n - 1):
        for b in BLOCKS:
            yield (b, kids)


class Ctr:
    def __init__(self):
        self.n = 0
        self.defs = []

    def next(self):
        self.n += 1
        return self.n


def has_read(forest):
    return any(l == "read" or has_read(k) for l, k in forest)


def fn_ok(forest):
    """inside a function body only declarations and flow control are generated"""
    return all(l in ("set", "glob", "dflt", "inc", "if", "else", "each", "for", "while") and fn_ok(k) for l, k in forest)


def build(forest, c, infn=False):
    out = []
    for label, kids in forest:
        n = c.next()
        if label == "set":
            out.append(decl("a", num(n)))
        elif label == "glob":
            out.append(decl("a", num(n), glob=True))
        elif label == "dflt":
            out.append(decl("a", num(n), dflt=True))
        elif label == "inc":
            out.append(decl("a", add(var("a"), num(10))))
        elif label == "read":
            if infn:
                out.append(decl("a", add(var("a"), num(100))))   # no emission inside functions
            else:
                out.append(emit(f"p{n}", var("a")))
        elif label == "rule":
            out.append(rule(build(kids, c, infn)))
        elif label == "media":
            out.append(media(build(kids, c, infn)))
        elif label == "if":
            out.append(if_(TRUE, build(kids, c, infn)))
        elif label == "else":
            out.append(if_(FALSE, [], build(kids, c, infn)))
        elif label == "each":
            out.append(each("i", lst([num(1), num(2)]), build(kids, c, infn)))
        elif label == "for":
            out.append(for_("i", num(1), num(2), True, build(kids, c, infn)))
        elif label == "while":
            k = f"k{n}"
            out.append(decl(k, num(0)))
            out.append(while_(lt(var(k), num(2)), [decl(k, add(var(k), num(1)))] + build(kids, c, infn)))
        elif label == "inclblock":
            out.append(incl("wrap", [], build(kids, c, infn)))
        elif label == "mixinbody":
            m = f"m{n}"
            c.defs.append(mixin(m, Params(), build(kids, c, infn)))
            out.append(incl(m))
        elif label == "fnbody":
            f = f"f{n}"
            c.defs.append(func(f, Params(), build(kids, c, True) + [ret(var("a"))]))
            out.append(emit(f"p{n}", call(f, [])) if not infn else decl("a", call(f, [])))
    return out


def valid(forest, infn=False):
    for l, k in forest:
        if l == "fnbody":
            if not fn_ok(k):
                return False
        elif l in ("inclblock", "mixinbody", "rule", "media"):
            if infn:
                return False
            if not valid(k, infn):
                return False
        elif not valid(k, infn):
            return False
    return True


def exhaustive(maxn):
    wrap = mixin("wrap", Params(), [content()])
    for n in range(1, maxn + 1):
        for f in forests(n):
            if not valid(f):
                continue
            if not (has_read(f) or any(l == "fnbody" for l, _ in f)):
                # a trailing read makes every program observable
                pass
            for pre in (True, False):
                c = Ctr()
                body = build(f, c)
                # mixin/function definitions are hoisted to the top level *after* the optional
                # global declaration, so their closures see the global scope
                prog = ([decl("a", num(0))] if pre else []) + [wrap] + c.defs + body + [emit("p99", var("a"))]
                yield Case(program_line(prog), f"exh{n}" + ("g" if pre else "u"))


# ------------------------------------------------------------------ random deep programs
class RGen:
    def __init__(self, rng):
        self.rng = rng
        self.n = 0
        self.defs = []     # hoisted mixin / function declarations
        self.mixins = []   # (name, nparams, uses_content)
        self.funcs = []    # (name, nparams)

    def fresh(self):
        self.n += 1
        return self.n

    def expr(self, scope_vars, depth=0):
        r = self.rng
        k = r.random()
        if k < 0.35 or not scope_vars:
            return num(r.randint(0, 9))
        if k < 0.65:
            return var(r.choice(scope_vars))
        if k < 0.9 or not self.funcs or depth > 0:
            return add(var(r.choice(scope_vars)), num(r.randint(1, 9)))
        f, np = r.choice(self.funcs)
        return call(f, [("p", self.expr(scope_vars, 1)) for _ in range(np)])

    def cond(self, scope_vars):
        r = self.rng
        k = r.random()
        if k < 0.3 or not scope_vars:
            return r.choice([TRUE, FALSE, TRUE])
        if k < 0.7:
            return lt(var(r.choice(scope_vars)), num(r.randint(0, 12)))
        return eq(var(r.choice(scope_vars)), num(r.randint(0, 5)))

    def block(self, depth, vars_, infn=False, incontent=False, inmixin=False):
        r = self.rng
        out = []
        for _ in range(r.randint(1, 3 if depth < 3 else 2)):
            out += self.stmt(depth, vars_, infn, inmixin)
        return out

    def stmt(self, depth, vars_, infn, inmixin):
        r = self.rng
        k = r.random()
        allv = vars_
        if k < 0.30 or depth >= 4:
            x = r.choice(VARS)
            fl = r.random()
            e = self.expr(allv)
            return [decl(x, e, dflt=0.80 < fl < 0.90, glob=fl >= 0.90)]
        if k < 0.50 and not infn:
            return [emit(f"p{self.fresh()}", var(r.choice(allv or VARS)))]
        if k < 0.50:
            x = r.choice(VARS)
            return [decl(x, add(var(r.choice(allv or VARS)), num(100)))]
        kind = r.choice(["rule", "media", "atrule", "if", "if", "each", "for", "while", "incl", "inclblock", "content"]
                        if not infn else ["if", "if", "each", "for", "while"])
        if kind == "rule":
            return [rule(self.block(depth + 1, vars_, infn, inmixin=inmixin))]
        if kind == "media":
            return [media(self.block(depth + 1, vars_, infn, inmixin=inmixin))]
        if kind == "atrule":
            return [atrule(self.block(depth + 1, vars_, infn, inmixin=inmixin))]
        if kind == "if":
            t = self.block(depth + 1, vars_, infn, inmixin=inmixin)
            e = self.block(depth + 1, vars_, infn, inmixin=inmixin) if r.random() < 0.4 else []
            return [if_(self.cond(allv), t, e)]
        if kind in ("each", "for"):
            x = r.choice(["i", "i", "j", r.choice(VARS)])     # loop variables sometimes shadow $a/$b/$c
            b = self.block(depth + 1, vars_ + [x], infn, inmixin=inmixin)
            if kind == "each":
                return [each(x, lst([num(r.randint(1, 3)) for _ in range(r.randint(1, 3))]), b)]
            lo = r.randint(0, 2)
            return [for_(x, num(lo), num(lo + r.randint(0, 2)), r.random() < 0.7, b)]
        if kind == "while":
            kname = f"k{self.fresh()}"
            b = self.block(depth + 1, vars_, infn, inmixin=inmixin)
            return [decl(kname, num(0)),
                    while_(lt(var(kname), num(r.randint(1, 3))), [decl(kname, add(var(kname), num(1)))] + b)]
        if kind == "content":
            return [content()] if inmixin else [emit(f"p{self.fresh()}", var(r.choice(allv or VARS)))]
        if kind in ("incl", "inclblock"):
            if not self.mixins:
                return [emit(f"p{self.fresh()}", var(r.choice(allv or VARS)))]
            m, np, uses = r.choice(self.mixins)
            args = [("p", self.expr(allv)) for _ in range(np)]
            blk = self.block(depth + 1, vars_, infn, inmixin=inmixin) if (kind == "inclblock" and uses) else None
            return [incl(m, args, blk)]
        raise ValueError(kind)

    def program(self):
        r = self.rng
        prog = []
        declared = [v for v in VARS if r.random() < 0.8]
        for v in declared:
            prog.append(decl(v, num(r.randint(0, 9))))
        vars_ = declared or ["a"]
        if not declared:
            prog.append(decl("a", num(0)))
        # mixins and functions (declared at top level, after the globals)
        for _ in range(r.randint(0, 2)):
            name = f"m{self.fresh()}"
            np = r.randint(0, 2)
            pnames = [r.choice(["p", "q", r.choice(VARS)]) for _ in range(np)]
            if len(set(pnames)) < np:
                pnames = ["p", "q"][:np]
            uses = r.random() < 0.6
            body = self.block(2, vars_ + pnames, False, inmixin=True)
            if uses and not any(s.kind == "content" for s in body):
                body.append(content())
            prog.append(mixin(name, Params([(p, None) for p in pnames]), body))
            self.mixins.append((name, np, uses))
        for _ in range(r.randint(0, 2)):
            name = f"f{self.fresh()}"
            np = r.randint(0, 2)
            pnames = [r.choice(["p", "q", r.choice(VARS)]) for _ in range(np)]
            if len(set(pnames)) < np:
                pnames = ["p", "q"][:np]
            body = self.block(2, vars_ + pnames, True)
            body.append(ret(self.expr(vars_ + pnames)))
            prog.append(func(name, Params([(p, None) for p in pnames]), body))
            self.funcs.append((name, np))
        prog += self.block(1, vars_)
        prog += self.block(1, vars_)
        for v in vars_:
            prog.append(emit(f"p{self.fresh()}", var(v)))
        return prog


# hand-written shapes (one per scope-creating site + the clauses of the statement)
def fixed():
    a0 = decl("a", num(0))
    rd = lambda n: emit(f"p{n}", var("a"))
    inc = decl("a", add(var("a"), num(1)))
    shapes = {
        "for-top": [a0, for_("i", num(1), num(3), True, [decl("a", add(var("a"), var("i")))]), rd(1)],
        "while-top": [a0, decl("k", num(0)), while_(lt(var("k"), num(3)), [decl("k", add(var("k"), num(1))), inc]), rd(1)],
        "each-top": [a0, each("i", lst([num(1), num(2)]), [inc]), rd(1)],
        "if-top": [a0, if_(TRUE, [inc]), rd(1)],
        "rule-local": [rule([a0, rule([inc]), rd(1)])],
        "media-local": [rule([a0, media([inc]), rd(1)])],
        "atrule-local": [rule([a0, atrule([inc]), rd(1)])],
        "if-local": [rule([a0, if_(TRUE, [inc]), rd(1)])],
        "for-local": [rule([a0, for_("i", num(1), num(2), True, [inc]), rd(1)])],
        "content-local": [mixin("w", Params(), [content()]), rule([a0, incl("w", [], [inc]), rd(1)])],
        "mixin-shadow": [a0, mixin("m", Params(), [decl("a", num(5)), rd(1)]), incl("m"), rd(2)],
        "mixin-in-rule": [rule([a0, mixin("m", Params(), [inc]), incl("m"), rd(1)])],
        "fn-while": [func("f", Params(), [decl("k", num(0)), while_(lt(var("k"), num(3)), [decl("k", add(var("k"), num(1)))]), ret(var("k"))]),
                     emit("p1", call("f", []))],
        "fn-in-rule": [rule([a0, func("f", Params(), [inc, ret(num(0))]), decl("d", call("f", [])), rd(1)])],
        "fn-loopvar": [func("f", Params([("i", None)]), [for_("i", num(1), num(2), True, []), ret(var("i"))]), emit("p1", call("f", [("p", num(7))]))],
        "fn-eachvar": [func("f", Params([("i", None)]), [each("i", lst([num(1), num(2)]), []), ret(var("i"))]), emit("p1", call("f", [("p", num(7))]))],
        "global-flag": [a0, rule([decl("a", num(1), glob=True)]), rd(1)],
        "global-shadow": [a0, rule([decl("a", num(1)), rd(1)]), rd(2)],
        "default-set": [a0, decl("a", num(1), dflt=True), decl("b", NULL), decl("b", num(2), dflt=True), decl("c", num(3), dflt=True),
                        rd(1), emit("p2", var("b")), emit("p3", var("c"))],
        "loopvar-local": [decl("i", num(9)), for_("i", num(1), num(2), True, [emit("p1", var("i"))]), each("i", lst([num(4)]), [emit("p2", var("i"))]), emit("p3", var("i"))],
        "param-local": [decl("p", num(9)), mixin("m", Params([("p", None)]), [emit("p1", var("p")), decl("p", num(3)), emit("p2", var("p"))]),
                        incl("m", [("p", num(1))]), emit("p3", var("p"))],
        # loops after 2e77b95 / 90cea8e: per-round flow scopes
        "each-local-in-rule": [rule([a0, each("i", lst([num(1), num(2)]), [decl("a", add(var("a"), var("i")))]), rd(1)])],
        "each-in-fn": [func("f", Params([("n", None)]), [decl("s", num(0)), each("i", lst([num(1), num(2), num(3)]), [decl("s", add(var("s"), var("i")))]), ret(add(var("s"), var("n")))]),
                       emit("p1", call("f", [("p", num(10))]))],
        "for-in-fn-global": [a0, func("f", Params(), [decl("s", num(0)), for_("i", num(1), num(3), True, [decl("s", add(var("s"), var("i"))), decl("a", var("s"), glob=True)]), ret(var("s"))]),
                             emit("p1", call("f", [])), rd(2)],
        "nested-same-loopvar": [decl("i", num(9)), each("i", lst([num(1), num(2)]), [for_("i", num(5), num(6), True, [emit("p1", var("i"))]), emit("p2", var("i"))]), emit("p3", var("i"))],
        "each-top-global-in-if": [a0, each("i", lst([num(1), num(2)]), [if_(lt(var("i"), num(2)), [decl("a", add(var("a"), num(10)))], [decl("a", add(var("a"), num(100)))])]), rd(1)],
        "each-in-mixin-local": [a0, mixin("m", Params(), [decl("a", num(1)), each("i", lst([num(1), num(2)]), [decl("a", add(var("a"), var("i")))]), rd(1)]), incl("m"), rd(2)],
        "each-round-decl": [a0, each("i", lst([num(1), num(2)]), [decl("n", num(1), dflt=True), emit("p1", var("n")), decl("n", add(var("n"), num(1)))]), rd(2)],
        "while-in-each": [a0, each("i", lst([num(1), num(2)]), [decl("k", num(0)), while_(lt(var("k"), num(2)), [decl("k", add(var("k"), num(1))), decl("a", add(var("a"), var("i")))])]), rd(1)],
        "each-closure": [func("f", Params(), [ret(var("i"))]), each("i", lst([num(1), num(2)]), [emit("p1", call("f", []))])],
    }
    for name, prog in shapes.items():
        yield Case(program_line(prog), "fixed", {"shape": name})


# `!default` over values that are blank / falsy but not null (and over null itself)
BLANKS = {
    "empty-list": lambda: lst([]),                       # ()
    "null-null": lambda: lst([NULL, NULL], comma=False),  # null null
    "null-comma": lambda: lst([NULL], comma=True),        # (null,)
    "empty-unquoted": lambda: ident(""),                  # unquote("")
    "empty-quoted": lambda: qstr(""),                     # ""
    "empty-bracketed": lambda: blst([]),                  # []
    "zero": lambda: num(0),
    "false": lambda: FALSE,
    "null": lambda: NULL,                                 # the one value !default does overwrite
    "five": lambda: num(5),
}


def default_blank():
    """bounded-exhaustive: every blank value x every place the `!default` assignment can stand"""
    for bname, mk in BLANKS.items():
        printable = bname != "empty-unquoted"       # inspect(unquote("")) is an empty declaration value

        def obs(n):
            out = [emit(f"p{n}", inspect(eq(var("e"), num(1))))]
            if printable:
                out.append(emit(f"p{n + 1}", inspect(var("e"))))
            return out

        d = lambda glob=False: decl("e", num(1), dflt=True, glob=glob)
        contexts = {
            "flat": [decl("e", mk()), d()] + obs(1),
            "flat-global-flag": [decl("e", mk()), d(True)] + obs(1),
            "rule": [decl("e", mk()), rule([d()] + obs(1))] + obs(3),
            "rule-global-flag": [decl("e", mk()), rule([d(True)] + obs(1))] + obs(3),
            "local": [rule([decl("e", mk()), d()] + obs(1))],
            "local-nested": [rule([decl("e", mk()), rule([d()] + obs(1))] + obs(3))],
            "media": [decl("e", mk()), media([d()] + obs(1))] + obs(3),
            "if": [decl("e", mk()), if_(TRUE, [d()] + obs(1))] + obs(3),
            "each": [decl("e", mk()), each("i", lst([num(1), num(2)]), [d()] + obs(1))] + obs(3),
            "for": [decl("e", mk()), for_("i", num(1), num(2), True, [d()] + obs(1))] + obs(3),
            "while": [decl("e", mk()), decl("k", num(0)), while_(lt(var("k"), num(1)), [decl("k", add(var("k"), num(1))), d()] + obs(1))] + obs(3),
            "mixin": [decl("e", mk()), mixin("m", Params(), [d()] + obs(1)), incl("m")] + obs(3),
            "content": [decl("e", mk()), mixin("w", Params(), [content()]), rule([incl("w", [], [d()] + obs(1))])] + obs(3),
            "function": [decl("e", mk()), func("f", Params(), [d(), ret(inspect(eq(var("e"), num(1))))]), emit("p1", call("f", []))] + obs(3),
            "function-global-flag": [decl("e", mk()), func("f", Params(), [d(True), ret(num(0))]), emit("p1", call("f", []))] + obs(3),
            "param": [mixin("m", Params([("e", None)]), [d()] + obs(1)), incl("m", [("p", mk())])],
            "param-default": [mixin("m", Params([("e", mk())]), [d()] + obs(1)), incl("m")],
            "rule-if-for": [decl("e", mk()), rule([if_(TRUE, [for_("i", num(1), num(1), True, [d()] + obs(1))])] + obs(3))] + obs(5),
            "twice": [decl("e", mk()), d(), decl("e", num(2), dflt=True)] + obs(1),
        }
        for cname, prog in contexts.items():
            yield Case(program_line(prog), "default-blank", {"value": bname, "context": cname})


def gen(tier, rng, boost=1):
    yield from fixed()
    if boost == 1:
        yield from default_blank()
    if boost == 1:
        yield from exhaustive(3 if tier == "quick" else 4)
    n = (1500 if tier == "quick" else 20000) * boost
    for _ in range(n):
        g = RGen(rng)
        yield Case(program_line(g.program()), "random")


EXHAUSTIVE = {"quick": False, "thorough": False}


def judge(case, impl, asis, spec):
    ic = canon_impl(impl)
    if asis is None:                      # no term: not ours
        return Verdict(True, None)
    if asis == "fuel" or spec == "fuel":
        return Verdict(False, None)       # generator must only produce terminating programs
    corr = True if asis == "unmodelled" else (ic == asis)
    if not corr and spec.startswith("unspec:") and ic is not None and (
            ic == "err" or (ic.startswith("ok:") and ic[3:].startswith(spec[len("unspec:"):]))):
        # past the point where the run becomes unspecified the as-is model (which mirrors the
        # scope *structure* of today's code) need not be reproduced by a repaired implementation
        corr = True
    if ic is None or not (ic.startswith("ok:") or ic == "err"):
        return Verdict(corr, "crash: " + str(impl)[:60])
    fails = None
    if spec == "unmodelled":
        pass
    elif spec.startswith("unspec:"):
        prefix = spec[len("unspec:"):]
        if ic.startswith("ok:") and not ic[3:].startswith(prefix):
            fails = "emitted declarations differ from the specified ones before the run reaches an unspecified lookup"
    elif ic != spec:
        fails = f"variable reads differ from the specified scoping: got {ic} expected {spec}"
    return Verdict(corr, fails)


def nontrivial(case, impl, spec):
    return bool(spec) and spec.startswith("ok:") and len(spec) > 3


LEVEL_TEXT = ("Proof (Lean 4): heap-of-scopes model of variablescope.rs with the scope-creation sites of "
              "output/transform.rs and eval_body; theorems over the spec configuration (assignment refines the chain-level "
              "specification, !global, !default, loop variables and parameters local) for all heaps/programs, partial "
              "theorems + refutations for the code as it is; tied to the code by differential execution of generated and "
              "bounded-exhaustive programs against the as-is evaluator.")
LEVEL_NOTE = ("Trusted: Lean kernel; the SCSS/term double printing of the generator; extraction of declarations from "
              "the CSS text. Leaking of variables first declared inside flow-control blocks is deliberately not judged.")
TECHNIQUE = "Lean 4 theorems over an executable heap-of-scopes evaluator + differential correspondence on generated programs"

ALLQ = ALWAYS_QUIRKS + ["noEachScope", "fnNoFlowScopes", "localRule", "localMedia", "localAtRule", "localFor", "localWhile", "localMixin",
                        "localContent", "localFn", "localFnWhile"]
