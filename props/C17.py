"""C17 — Control-flow directives run the specified iterations.

Programs are generated as Python objects and rendered twice from the same object: as SCSS
text for rsass (harness op `c17.prog`, observable = the sequence of emitted declarations
`p<k>: inspect(..)`) and as a prefix term for the Lean machine `Flow.exec`.  The oracle
below is an independent Python interpreter of the statement of C17 (it shares nothing with
the Lean model).
"""
import re
from fractions import Fraction as F
from tools.vlib import Case, Verdict, hx, unhx

ID = "C17"
DRIVER = "drv_C17"
THEOREM_MODS = ["RsassModel.Theorems.C17"]
LEVEL = "proof"

# units used in ranges: value of one unit in its group's base (CSS Values)
UNITS = {"px": ("len", F(254, 960)), "in": ("len", F(254, 10)), "mm": ("len", F(1)), "cm": ("len", F(10)),
         "pc": ("len", F(254, 60)), "Q": ("len", F(1, 4)),
         "s": ("time", F(1)), "ms": ("time", F(1, 1000)), "deg": ("ang", F(1, 360)), "turn": ("ang", F(1)),
         "rem": ("rem", F(1)), "%": ("pct", F(1))}

# ------------------------------------------------------------------ values
# ('n',) null | ('b', bool) | ('i', int, unit|'-') | ('s', ident) | ('l', sep, [values]) | ('m', [(k, v)])


def v_term(v):
    t = v[0]
    if t == "n":
        return "n"
    if t == "b":
        return "t" if v[1] else "f"
    if t == "i":
        return f"i {v[1]} {v[2]}"
    if t == "s":
        return f"s {v[1]}"
    if t == "l":
        return " ".join([f"l {v[1]} {len(v[2])}"] + [v_term(x) for x in v[2]])
    return " ".join([f"m {len(v[1])}"] + [v_term(k) + " " + v_term(x) for k, x in v[1]])


def v_scss(v, top=True):
    """source text of a literal value (always parenthesised when composite)"""
    t = v[0]
    if t == "n":
        return "null"
    if t == "b":
        return "true" if v[1] else "false"
    if t == "i":
        return f"{v[1]}{'' if v[2] == '-' else v[2]}"
    if t == "s":
        return v[1]
    if t == "l":
        if not v[2]:
            return "()"
        if len(v[2]) == 1:
            return "(" + v_scss(v[2][0], False) + ",)"
        return "(" + (", " if v[1] == "c" else " ").join(v_scss(x, False) for x in v[2]) + ")"
    return "(" + ", ".join(v_scss(k, False) + ": " + v_scss(x, False) for k, x in v[1]) + ")"


def v_inspect(v):
    """meta.inspect text, independent re-statement for the oracle"""
    t = v[0]
    if t in ("n", "b", "i", "s"):
        return v_scss(v)
    if t == "l":
        if not v[2]:
            return "()"
        if len(v[2]) == 1 and v[1] == "c":
            return "(" + v_item(v[2][0], "c") + ",)"
        return (", " if v[1] == "c" else " ").join(v_item(x, v[1]) for x in v[2])
    return "(" + ", ".join(v_item(k, "c") + ": " + v_item(x, "c") for k, x in v[1]) + ")"


def v_item(x, sep):
    if x[0] == "l" and len(x[2]) >= 2 and not (sep == "c" and x[1] == "s"):
        return "(" + v_inspect(x) + ")"
    return v_inspect(x)


def truthy(v):
    return not (v[0] == "n" or (v[0] == "b" and not v[1]))


def items(v):
    if v[0] == "l":
        return list(v[2])
    if v[0] == "m":
        return [("l", "s", [k, x]) for k, x in v[1]]
    return [v]


# ------------------------------------------------------------------ expressions / statements
# expr: ('L', v) | ('V', n) | ('P', e, k) | ('T', e, k) | ('Q', e, v) | ('N', e)
# stmt: ('D', k, e) | ('A', x, e) | ('I', c, then, else) | ('E', names, e, body) | ('F', x, a, b, incl, body) | ('W', c, body)


def e_term(e):
    t = e[0]
    if t == "L":
        return "L " + v_term(e[1])
    if t == "V":
        return f"V {e[1]}"
    if t in ("P", "T"):
        return f"{t} {e_term(e[1])} {e[2]}"
    if t == "Q":
        return f"Q {e_term(e[1])} {v_term(e[2])}"
    return "N " + e_term(e[1])


def e_scss(e):
    t = e[0]
    if t == "L":
        return v_scss(e[1])
    if t == "V":
        return f"$v{e[1]}"
    if t == "P":
        return f"({e_scss(e[1])} + {e[2]})"
    if t == "T":
        return f"({e_scss(e[1])} < {e[2]})"
    if t == "Q":
        return f"({e_scss(e[1])} == {v_scss(e[2])})"
    return f"(not {e_scss(e[1])})"


def b_term(body):
    return " ".join([str(len(body))] + [s_term(s) for s in body])


def s_term(s):
    t = s[0]
    if t == "D":
        return f"D {s[1]} {e_term(s[2])}"
    if t == "A":
        return f"A {s[1]} {e_term(s[2])}"
    if t == "I":
        return f"I {e_term(s[1])} {b_term(s[2])} {b_term(s[3])}"
    if t == "E":
        return f"E {len(s[1])} {' '.join(map(str, s[1]))} {e_term(s[2])} {b_term(s[3])}"
    if t == "F":
        return f"F {s[1]} {e_term(s[2])} {e_term(s[3])} {1 if s[4] else 0} {b_term(s[5])}"
    return f"W {e_term(s[1])} {b_term(s[2])}"


def b_scss(body, ind):
    return "".join(s_scss(s, ind) for s in body)


def s_scss(s, ind="  "):
    t = s[0]
    if t == "D":
        return f"{ind}p{s[1]}: inspect({e_scss(s[2])});\n"
    if t == "A":
        return f"{ind}$v{s[1]}: {e_scss(s[2])};\n"
    if t == "I":
        out = f"{ind}@if {e_scss(s[1])} {{\n{b_scss(s[2], ind + '  ')}{ind}}}"
        els = s[3]
        # an else body consisting of a single @if is written as `@else if`
        while len(els) == 1 and els[0][0] == "I":
            out += f" @else if {e_scss(els[0][1])} {{\n{b_scss(els[0][2], ind + '  ')}{ind}}}"
            els = els[0][3]
        if els:
            out += f" @else {{\n{b_scss(els, ind + '  ')}{ind}}}"
        return out + "\n"
    if t == "E":
        return (f"{ind}@each {', '.join('$v%d' % n for n in s[1])} in {e_scss(s[2])} {{\n"
                f"{b_scss(s[3], ind + '  ')}{ind}}}\n")
    if t == "F":
        return (f"{ind}@for $v{s[1]} from {e_scss(s[2])} {'through' if s[4] else 'to'} {e_scss(s[3])} {{\n"
                f"{b_scss(s[5], ind + '  ')}{ind}}}\n")
    return f"{ind}@while {e_scss(s[1])} {{\n{b_scss(s[2], ind + '  ')}{ind}}}\n"


def program_case(prog, stratum):
    src = "a {\n" + b_scss(prog, "  ") + "}\n"
    return Case(f"c17.prog\t{b_term(prog)}\t{hx(src)}", stratum, {"prog": prog})


# ------------------------------------------------------------------ oracle: the statement of C17

class Stop(Exception):
    pass


def o_eval(e, env):
    t = e[0]
    if t == "L":
        return e[1]
    if t == "V":
        for fr in reversed(env):
            if e[1] in fr:
                return fr[e[1]]
        raise Stop("undefined variable")
    if t == "P":
        v = o_eval(e[1], env)
        if v[0] != "i":
            raise Stop("operand")
        return ("i", v[1] + e[2], v[2])
    if t == "T":
        v = o_eval(e[1], env)
        if v[0] != "i":
            raise Stop("operand")
        return ("b", v[1] < e[2])
    if t == "Q":
        return ("b", o_eval(e[1], env) == e[2])
    return ("b", not truthy(o_eval(e[1], env)))


def o_range(a, b, incl):
    if a[0] != "i" or b[0] != "i":
        raise Stop("not a number")
    x, u, y, w = a[1], a[2], b[1], b[2]
    if u != "-" and w != "-" and u != w:
        if u in UNITS and w in UNITS and UNITS[u][0] == UNITS[w][0]:
            q = F(y) * UNITS[w][1] / UNITS[u][1]
            if q.denominator != 1:
                raise Stop("bound is not an integer")
            y = int(q)
        else:
            raise Stop("incompatible unit")
    if y >= x:
        vals = list(range(x, y + 1 if incl else y))
    else:
        vals = list(range(x, y - 1 if incl else y, -1))
    return [("i", i, u) for i in vals]


def o_body(body, env, out, budget):
    for s in body:
        budget[0] -= 1
        if budget[0] < 0:
            raise Stop("budget")
        t = s[0]
        if t == "D":
            out.append((s[1], v_inspect(o_eval(s[2], env))))
        elif t == "A":
            val = o_eval(s[2], env)
            for fr in reversed(env):      # the innermost scope that declares the variable
                if s[1] in fr:
                    fr[s[1]] = val
                    break
            else:
                env[-1][s[1]] = val
        elif t == "I":
            o_body(s[2] if truthy(o_eval(s[1], env)) else s[3], env, out, budget)
        elif t == "E":
            names = s[1]
            for it in items(o_eval(s[2], env)):
                fr = {}
                if len(names) == 1:
                    fr[names[0]] = it
                else:
                    parts = items(it)
                    for i, n in enumerate(names):
                        fr[n] = parts[i] if i < len(parts) else ("n",)
                env.append(fr)            # the loop variables are local to each round
                o_body(s[3], env, out, budget)
                env.pop()
        elif t == "F":
            for val in o_range(o_eval(s[2], env), o_eval(s[3], env), s[4]):
                env.append({s[1]: val})
                o_body(s[5], env, out, budget)
                env.pop()
        else:
            env.append({})
            while truthy(o_eval(s[1], env)):
                o_body(s[2], env, out, budget)
            env.pop()


def oracle_run(prog):
    out = []
    try:
        o_body(prog, [{}], out, [100000])
    except Stop as e:
        if str(e) == "budget":
            return None
        return "err"
    return out


# ------------------------------------------------------------------ generator

IDENTS = ["a", "b", "c", "foo", "bar", "x", "y"]


def g_scalar(rng):
    k = rng.random()
    if k < 0.45:
        return ("i", rng.randint(-6, 6), rng.choice(["-", "-", "px", "em", "%", "s"]))
    if k < 0.8:
        return ("s", rng.choice(IDENTS))
    if k < 0.88:
        return ("b", rng.random() < 0.5)
    return ("n",)


def g_list(rng, depth, maxlen=6):
    n = rng.choice([0, 2, 2, 3, 3, 4, 5, 6, 1])
    n = min(n, maxlen)
    sep = rng.choice("sc")
    if n == 1:
        sep = "c"
    xs = []
    for _ in range(n):
        if depth > 0 and rng.random() < 0.4:
            xs.append(g_list(rng, depth - 1, 4) if rng.random() < 0.85 else g_map(rng, 0))
        else:
            xs.append(g_scalar(rng))
    return ("l", sep, xs)


def g_map(rng, depth):
    n = rng.randint(1, 6 if depth else 3)
    keys = rng.sample(IDENTS + ["k1", "k2", "k3"], n)
    kv = []
    for k in keys:
        if depth > 0 and rng.random() < 0.35:
            v = g_list(rng, 0, 3)
            if len(v[2]) < 2:
                v = g_scalar(rng)
        else:
            v = g_scalar(rng)
        kv.append((("s", k), v))
    return ("m", kv)


class G:
    def __init__(self, rng):
        self.rng = rng
        self.nvar = 0
        self.nprop = 0
        self.scope = []  # visible variables: (id, kind) kind in num/any

    def var(self):
        self.nvar += 1
        return self.nvar - 1

    def prop(self):
        self.nprop += 1
        return self.nprop - 1

    def read_expr(self):
        rng = self.rng
        if self.scope and rng.random() < 0.85:
            x, kind = rng.choice(self.scope)
            if kind in ("num", "big", "acc") and rng.random() < 0.3:
                return ("P", ("V", x), rng.randint(-3, 3))
            return ("V", x)
        return ("L", g_scalar(rng))

    def cond(self):
        rng = self.rng
        k = rng.random()
        nums = [v for v in self.scope if v[1] in ("num", "big", "acc")]
        if nums and k < 0.4:
            return ("T", ("V", rng.choice(nums)[0]), rng.randint(-4, 5))
        if self.scope and k < 0.6:
            x, kind = rng.choice(self.scope)
            e = ("Q", ("V", x), g_scalar(rng))
            return ("N", e) if rng.random() < 0.3 else e
        # literal conditions of every truthiness: only false and null are falsey
        v = rng.choice([("n",), ("b", False), ("b", True), ("i", 0, "-"), ("s", "a"), ("l", "s", []), ("i", 0, "px"),
                        ("n",), ("b", False)])
        return ("N", ("L", v)) if rng.random() < 0.2 else ("L", v)

    def body(self, depth, n=None):
        rng = self.rng
        n = rng.randint(1, 3) if n is None else n
        out = []
        for _ in range(n):
            out += self.stmt(depth)
        return out

    def stmt(self, depth):
        rng = self.rng
        k = rng.random()
        accs = [v for v in self.scope if v[1] == "acc"]
        if accs and rng.random() < 0.15:
            # assignment to a variable declared in an enclosing scope (accumulator): updates it there
            x = rng.choice(accs)[0]
            return [("A", x, ("P", ("V", x), rng.randint(-3, 3)))]
        if depth <= 0 or k < 0.3:
            return [("D", self.prop(), self.read_expr())]
        if k < 0.5:
            return [self.if_chain(depth)]
        if k < 0.7:
            return self.for_loop(depth)
        if k < 0.9:
            return [self.each_loop(depth)]
        return self.while_loop(depth)

    def if_chain(self, depth, n=None):
        rng = self.rng
        n = rng.randint(1, 4) if n is None else n
        branches = [(self.cond(), self.body(depth - 1, rng.randint(1, 2))) for _ in range(n)]
        els = self.body(depth - 1, 1) if rng.random() < 0.6 else []
        node = els
        for c, b in reversed(branches):
            node = [("I", c, b, node)]
        return node[0]

    def for_loop(self, depth):
        rng = self.rng
        x = self.var()
        a = rng.randint(-6, 6)
        b = rng.randint(-6, 6) if rng.random() < 0.85 else a
        k = rng.random()
        pre = []
        if k < 0.45:
            ua = ub = "-"
        elif k < 0.6:
            ua = ub = rng.choice(["px", "em", "%", "s", "rem"])
        elif k < 0.75:
            ua, ub = rng.choice([("px", "-"), ("-", "px"), ("em", "-"), ("-", "s"), ("%", "-")])
        elif k < 0.93:
            # convertible units: the `to` bound is converted into the unit of `from`
            ua, ub = rng.choice([("mm", "cm"), ("cm", "mm"), ("ms", "s"), ("s", "ms"), ("px", "in"), ("in", "px"), ("Q", "mm"),
                                 ("mm", "Q"), ("pc", "in"), ("deg", "turn"), ("px", "pc")])
            r = UNITS[ub][1] / UNITS[ua][1]
            # choose the bounds so that the converted `to` bound is an integer near `from`
            # (sometimes not an integer: an error is expected)
            target = a + rng.randint(-4, 4)
            q = F(target) / r
            if q.denominator == 1 and rng.random() < 0.9:
                b = int(q)
            else:
                b = rng.randint(-2, 2)
                conv = F(b) * r
                if conv.denominator == 1:
                    a = int(conv) + rng.randint(-4, 4)
        else:
            ua, ub = rng.choice([("px", "em"), ("px", "s"), ("em", "%"), ("s", "deg"), ("rem", "px")])
        ea, eb = ("L", ("i", a, ua)), ("L", ("i", b, ub))
        if self.scope and abs(a) <= 6 and rng.random() < 0.15:
            # the bound read from a variable (magnitudes of all numeric variables are small)
            nums = [v for v in self.scope if v[1] == "num"]
            if nums:
                eb = ("V", rng.choice(nums)[0])
        self.scope.append((x, "num" if abs(a) <= 8 and ua == ub else "big"))
        body = self.body(depth - 1)
        self.scope.pop()
        res = pre + [("F", x, ea, eb, rng.random() < 0.5, body)]
        if rng.random() < 0.04:
            res.append(("D", self.prop(), ("V", x)))  # read after the loop: out of scope
        return res

    def each_loop(self, depth):
        rng = self.rng
        nn = rng.choice([1, 1, 2, 2, 3])
        names = [self.var() for _ in range(nn)]
        k = rng.random()
        if k < 0.5:
            src = g_list(rng, 1 if nn == 1 else 2)
            if nn > 1 and src[0] == "l":
                # destructuring: elements are mostly lists of varying length (missing -> null, excess ignored)
                xs = []
                for _ in range(rng.randint(0, 6)):
                    r = rng.random()
                    if r < 0.65:
                        xs.append(g_list(rng, 0, 4))
                    elif r < 0.8:
                        xs.append(g_map(rng, 0))
                    else:
                        xs.append(g_scalar(rng))
                if len(xs) == 1:
                    src = ("l", "c", xs)
                else:
                    src = ("l", rng.choice("sc"), xs)
        elif k < 0.85:
            src = g_map(rng, 1)
        else:
            src = g_scalar(rng)
        for n in names:
            self.scope.append((n, "any"))
        body = [("D", self.prop(), ("V", n)) for n in names]
        if depth > 1 and rng.random() < 0.4:
            body += self.body(depth - 1, 1)
        for _ in names:
            self.scope.pop()
        return ("E", names, ("L", src), body)

    def while_loop(self, depth):
        rng = self.rng
        c = self.var()
        start = rng.randint(-3, 3)
        bound = start + rng.randint(-1, 5)
        unit = rng.choice(["-", "-", "px"])
        self.scope.append((c, "num"))
        body = self.body(depth - 1, rng.randint(1, 2))
        self.scope.pop()
        body.append(("A", c, ("P", ("V", c), 1)))
        return [("A", c, ("L", ("i", start, unit))), ("W", ("T", ("V", c), bound), body)]


def gen_program(rng, kind):
    g = G(rng)
    prog = []
    for _ in range(rng.randint(0, 2)):
        x = g.var()
        v = g_scalar(rng)
        prog.append(("A", x, ("L", v)))
        g.scope.append((x, "num" if v[0] == "i" else "any"))
    if rng.random() < 0.6:
        x = g.var()
        prog.append(("A", x, ("L", ("i", rng.randint(-3, 3), rng.choice(["-", "-", "px"])))))
        g.scope.append((x, "acc"))
    if kind == "if":
        prog.append(g.if_chain(2))
        prog.append(g.if_chain(1, 4))
    elif kind == "for":
        prog += g.for_loop(2)
    elif kind == "each":
        prog.append(g.each_loop(2))
    elif kind == "while":
        prog += g.while_loop(2)
    else:
        prog += g.body(3, rng.randint(1, 3))
    for x, kind in g.scope:
        if kind == "acc":
            prog.append(("D", g.prop(), ("V", x)))   # the accumulator read after all loops
    return prog


def exhaustive_for():
    """every range with bounds in [-3, 3], both forms, unitless and px"""
    k = 0
    for a in range(-3, 4):
        for b in range(-3, 4):
            for incl in (True, False):
                for ua, ub in (("-", "-"), ("px", "px"), ("px", "-"), ("-", "px")):
                    if (ua, ub) != ("-", "-") and (a + b + incl) % 3:
                        continue
                    yield [("F", 0, ("L", ("i", a, ua)), ("L", ("i", b, ub)), incl, [("D", 0, ("V", 0))])]


def exhaustive_if():
    """every truthiness pattern of chains of up to 4 branches, with and without @else"""
    lits = [("n",), ("b", False), ("b", True), ("i", 0, "-"), ("l", "s", [])]
    import itertools
    for n in range(1, 5):
        for pat in itertools.product(range(len(lits)), repeat=n):
            if n == 4 and sum(pat) % 3:
                continue
            for has_else in (True, False):
                node = [("D", 99, ("L", ("s", "else")))] if has_else else []
                for i in reversed(range(n)):
                    node = [("I", ("L", lits[pat[i]]), [("D", i, ("L", ("s", "then")))], node)]
                yield node


def gen(tier, rng, boost=1):
    for p in exhaustive_for():
        yield program_case(p, "for-exhaustive")
    for p in exhaustive_if():
        yield program_case(p, "if-exhaustive")
    n = (1200 if tier == "quick" else 12000) * boost
    kinds = ["if", "for", "for", "each", "each", "while", "mixed", "mixed"]
    for i in range(n):
        kind = kinds[i % len(kinds)]
        yield program_case(gen_program(rng, kind), kind)


# ------------------------------------------------------------------ judge

def canon(res):
    if res.startswith("err:") or res == "err":
        return "err"
    if res.startswith("ok:"):
        return "ok:" + unhx(res[3:])
    return res


def judge(case, impl, asis, spec):
    ci = canon(impl)
    corr = asis is None or ci == canon(asis)
    if impl.startswith(("panic:", "abort:")):
        return Verdict(corr, "crash: " + impl[:60])
    prog = case.note.get("prog")
    if prog is None:
        return Verdict(corr, None if (spec is None or ci == canon(spec)) else "differs from the specification model")
    prog = tuplify(prog)
    want = oracle_run(prog)
    if want is None:
        return Verdict(corr, None)
    if want == "err":
        return Verdict(corr, None if ci == "err" else "an error was expected (undefined variable, non-integer or incompatible bound)")
    if ci == "err":
        return Verdict(corr, "unexpected error: " + unhx(impl[4:])[:100])
    got = [tuple(l.split("=", 1)) for l in ci[3:].split("\n") if l]
    exp = [(str(k), v) for k, v in want]
    if got != exp:
        i = 0
        while i < min(len(got), len(exp)) and got[i] == exp[i]:
            i += 1
        return Verdict(corr, f"declaration #{i}: got {got[i] if i < len(got) else None}, expected {exp[i] if i < len(exp) else None}"
                             f" ({len(got)} vs {len(exp)} declarations)")
    return Verdict(corr, None)


def tuplify(x):
    """notes read back from JSON (replay) have lists for tuples"""
    if isinstance(x, list):
        return [tuplify(y) for y in x] if (not x or not isinstance(x[0], str) or len(x[0]) != 1 or not x[0].isalpha()) else tuple(tuplify(y) for y in x)
    return x


def nontrivial(case, impl, spec):
    return impl.startswith("ok:") and len(impl) > 3


RULE = ("exhaustive: every @for range with bounds in [-3,3] (through/to, unitless and px) and every truthiness pattern of "
        "@if chains of 1-4 branches over {null,false,true,0,()} with/without @else; random: programs of nested @if/@else if "
        "chains (<=4 branches), @for with bounds in [-6,6] (+converted bounds) with same / unitless / convertible / incompatible units, "
        "@each over lists (<=6 items, nested lists and maps as items), maps (<=6 entries) and scalars with 1-3 loop variables, "
        "@while with a counter; loop variables read after the loop; non-trivial = at least one declaration emitted")
TRUSTED = ["harness op c17.prog (extracts the `p<k>: value;` lines of the compiled CSS)",
           "props/C17.py renders one program object as SCSS and as the model's term; its Python interpreter is the oracle",
           "meta.inspect text of lists/maps as modelled in Flow/Display.lean (validated text-exactly by the run)"]
ASSUMPTIONS = ["values are integers with units, identifiers, booleans, null, lists and maps; number arithmetic beyond `$v + k`, "
               "`$v < k` and `==` on scalars is C11/C12's subject",
               "all generated code lies inside one style rule (the special assignment rule for global variables, C16's subject, "
               "does not arise); a variable first defined inside an @if block is not read after it"]
LEVEL_TEXT = ("Proof (Lean 4) over an abstract machine (`Flow.exec`) mirroring handle_item's IfStatement/Each/For/While, ValueRange, "
              "SrcRange::evaluate, iter_items and define_multi: first-truthy branch of an if chain, the exact list of integers of "
              "ascending/descending through/to ranges, the unit of the loop variable, destructuring with null for missing positions "
              "and map entries as pairs, @while unfolding, fuel monotonicity of the whole machine; tied to the code by text-exact "
              "agreement of the emitted declaration sequences on generated programs, and an independent Python interpreter as oracle.")
LEVEL_NOTE = ("Trusted: Lean kernel, harness, program renderer, inspect model. The function-body variant (variablescope.rs eval_body) "
              "is exercised only through @function strata if present; assignment scoping is C16's subject.")
TECHNIQUE = "Lean 4 theorems over an executable abstract machine + exact differential correspondence on generated programs"
