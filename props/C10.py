"""C10 — Numbers are printed as correctly rounded decimals."""
import re
import struct
from fractions import Fraction
from tools.vlib import Case, Verdict, hx, unhx

ID = "C10"
DRIVER = "drv_C10"
THEOREM_MODS = ["RsassModel.Theorems.C10"]
LEVEL = "proof"
RULE = ("numfmt cases = (f64 bit pattern, precision 0..20, style) from strata: random doubles by bits, "
        "uniform reals, 1-17 digit decimal literals, ties/carries (x.9999.., x.5, x.95..), subnormals, "
        "huge integers, non-finite; non-trivial = finite value with a non-zero fraction (the digit loop runs); "
        "expr cases = non-finite numbers in declarations (calc() wrapping)")
TRUSTED = ["f64 arithmetic of Lean's Float (driver) = f64 arithmetic of Rust (same IEEE ops, same libm log10)",
           "python fractions oracle for the rounding bound"]
ASSUMPTIONS = ["the parametric theorems hold for every NumOps carrier; that Rust's f64 operations are the "
               "Float instance is validated by exact string agreement on every generated case",
               "rounding tolerance: exact half-ulp of the printed place plus 2^-50 accumulated f64 error of "
               "the repeated `frac *= 10` steps"]


def bits_of(x):
    return struct.unpack("<Q", struct.pack("<d", x))[0]


def float_of(bits):
    return struct.unpack("<d", struct.pack("<Q", bits))[0]


def gen(tier, rng, boost=1):
    n = (6000 if tier == "quick" else 120000) * boost
    special = [0.0, -0.0, float("inf"), float("-inf"), float("nan"), 5e-324, -5e-324, 1e23, 1e22,
               2.0 ** 53, 2.0 ** 53 + 2, 1e308, 1.7976931348623157e308, 0.5, -0.5, 0.05, 0.95, 0.995,
               9.5, 99.5, 0.1, 0.3, 1.25, 2.5, -2.5, 1e15 + 0.5, 10.123456789012345, 999.9999999999999,
               0.9999999999, 0.99999999999, 1e-10, 1e-11, 4503599627370495.5, 0.000001, 123456789012345680.0]
    for x in special:
        for p in (0, 1, 2, 5, 10, 15, 16, 20):
            for st in "ec":
                yield Case(f"numfmt\t{bits_of(x)}\t{p}\t{st}", "special")
    for i in range(n):
        k = rng.random()
        if k < 0.25:
            x, s = rng.uniform(-1000, 1000), "uniform"
        elif k < 0.45:
            x, s = round(rng.uniform(-100, 100), rng.randint(0, 17)), "decimal-literal"
        elif k < 0.55:
            x, s = float_of(rng.getrandbits(64)), "random-bits"
        elif k < 0.63:
            x, s = float(rng.randint(0, 10 ** rng.randint(1, 30))), "huge-int"
        elif k < 0.78:
            x, s = rng.randint(0, 1000) + 1 - 10.0 ** -rng.randint(1, 17), "carry"
            if rng.random() < 0.3:
                x = -x
        elif k < 0.88:
            d = rng.randint(1, 12)
            x, s = (rng.randint(-10 ** d, 10 ** d) * 10 + 5) / 10.0 ** (d + 1), "tie"
        elif k < 0.94:
            x, s = rng.randint(-10 ** 6, 10 ** 6) / 2.0 ** rng.randint(1, 20), "dyadic"
        else:
            x, s = float_of(rng.getrandbits(52) | (rng.getrandbits(1) << 63)), "subnormal"
        p = rng.randint(0, 20)
        yield Case(f"numfmt\t{bits_of(x)}\t{p}\t{rng.choice('ec')}", s)
    for e, want in (("math.div(1,0)", "calc(infinity)"), ("math.div(-1,0)", "calc(-infinity)"),
                    ("math.div(0,0)", "calc(NaN)"), ("math.div(1px,0)", "calc(infinity * 1px)"),
                    ("1.5", "1.5"), ("-0.0", "0"), ("0.30000000000000004", "0.3")):
        for st in "ec":
            src = '@use "sass:math";a{b:' + e + '}'
            yield Case("compile\tscss\t" + st + "\t10\tin.scss\t" + hx(src), "nonfinite-decl", {"want": want})


NUM = re.compile(r"(-?)(\d*)(?:\.(\d+))?")


def oracle(bits, prec, style, text):
    """the property's statement, evaluated exactly on the implementation's text"""
    x = float_of(bits)
    if x != x:
        return None if text == "NaN" else "NaN must print as NaN"
    if x in (float("inf"), float("-inf")):
        want = "-infinity" if x < 0 else "infinity"
        return None if text == want else f"{want} expected"
    m = NUM.fullmatch(text)
    if not m or (m.group(2) == "" and m.group(3) is None):
        return "not a plain decimal numeral (exponent or stray characters)"
    sign, ip, fp = m.group(1), m.group(2), m.group(3) or ""
    if fp.endswith("0"):
        return "trailing fractional zero"
    ax = abs(Fraction(x))
    whole = int(ax)
    # significant-digit cap as the statement puts it: at most 16 significant digits
    if whole == 0:
        cap = 16
    else:
        nd = len(str(whole))
        cap = 16 - (nd - 1 if whole == 10 ** (nd - 1) else nd)  # = 16 - ceil(log10 whole)
    k = max(0, min(prec, cap))
    if ax >= 2 ** 53:
        # integral; Rust prints the shortest digits that read back
        if fp:
            return "fraction printed for an integral value"
        try:
            back = float(ip)
        except (ValueError, OverflowError):
            return "integer part does not read back"
        if back != abs(x):
            return "integer part does not read back to the same double"
        val = Fraction(int(ip))
    else:
        if len(fp) > max(k, 0):
            # cap edge: the statement allows at most `precision` digits and 16 significant digits
            return f"{len(fp)} fractional digits printed, at most {k} allowed (precision {prec}, cap {cap})"
        if ip == "":
            if style != "c":
                return "leading zero dropped outside compressed style"
            ipv = 0
        else:
            if ip != str(int(ip)):
                return "integer part has leading zeros"
            if style == "c" and int(ip) == 0 and fp:
                return "leading zero kept in compressed style"
            ipv = int(ip)
        val = Fraction(ipv) + (Fraction(int(fp), 10 ** len(fp)) if fp else 0)
        tol = Fraction(1, 2) / 10 ** k + Fraction(1, 2 ** 50)
        if abs(val - ax) > tol:
            return f"printed value is not the value rounded to {k} places"
        # ties away from zero, when the tie is exact and representable
        if abs(val - ax) == Fraction(1, 2) / 10 ** k and val < ax:
            return "exact tie rounded towards zero"
    if sign == "-" and (x > 0 or val == 0):
        return "minus sign on a non-negative numeral (negative zero)"
    if sign == "" and x < 0 and val != 0:
        return "sign lost"
    return None


def judge(case, impl, asis, spec):
    f = case.lines[0].split("\t")
    if f[0] == "numfmt":
        text = unhx(impl) if re.fullmatch(r"[0-9a-f]*", impl) else impl
        why = oracle(int(f[1]), int(f[2]), f[3], text) if not impl.startswith(("panic:", "abort:")) else "crash: " + impl[:40]
        return Verdict(impl == asis, why)
    # compile cases: python-side expectation only (model echoes)
    want = case.note.get("want")
    if f[2] == "c" and want.startswith("0."):
        want = want[1:]
    ok = impl.startswith("ok:") and (": " + want + ";" in unhx(impl[3:]) or ":" + want + "}" in unhx(impl[3:]))
    return Verdict(True, None if ok else f"declaration value should print as {want}")


def nontrivial(case, impl, spec):
    f = case.lines[0].split("\t")
    if f[0] != "numfmt":
        return False
    x = float_of(int(f[1]))
    return x == x and abs(x) != float("inf") and x != int(x)

LEVEL_TEXT = ("Proof (Lean 4) over the line-by-line model of Number's Display impl, parametric in the number carrier: "
              "fractional digit count bound, non-finite texts, no negative zero, leading-zero rule; tied to the code by exact "
              "string agreement of Number::format with the Float-instantiated model on every generated f64 bit pattern, "
              "plus an exact-rational oracle of the rounding statement on the implementation's own text.")
LEVEL_NOTE = ("Trusted: Lean kernel; Lean Float = IEEE f64 as used by Rust (validated by the correspondence run); the Python "
              "rational oracle; libm log10. The correctly-rounded clause is currently decided by the exact-rational oracle on "
              "generated inputs, not yet by a Rat theorem.")
TECHNIQUE = "Lean 4 theorems over a parametric model of the formatter + exact differential correspondence on f64 bit patterns"
