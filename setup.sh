#!/bin/sh
# Builds the framework offline from files on disk: Rust harness (against /repo) and every Lean module + driver.
set -e
cd "$(dirname "$0")"
export CARGO_NET_OFFLINE=true
mkdir -p .cache evidence replays
[ -f harness/Cargo.lock ] || cp /repo/Cargo.lock harness/Cargo.lock
(cd harness && cargo build --offline)
DRIVERS=$(python3 tools/gen_lake.py --list-drivers)
(cd lean && lake build RsassModel $DRIVERS)
echo setup done
