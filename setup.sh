#!/bin/sh
# Builds the framework offline from files on disk: the Rust harness (against /repo) and, for every
# property claimed in MANIFEST.json, its Lean theorem modules and model driver.  A property whose
# Lean build fails here is reported by its own check (exit 2); it must not stop the others.
cd "$(dirname "$0")"
export CARGO_NET_OFFLINE=true
mkdir -p .cache evidence replays
[ -f harness/Cargo.lock ] || cp /repo/Cargo.lock harness/Cargo.lock
(cd harness && cargo build --offline) || { echo "setup: harness build failed"; exit 1; }
python3 tools/gen_lake.py
TARGETS=$(python3 - <<'PY'
import importlib, json, sys
sys.path.insert(0, ".")
out = []
for c in json.load(open("MANIFEST.json"))["checks"]:
    try:
        m = importlib.import_module("props." + c["property_id"])
    except Exception as e:
        continue
    out += list(getattr(m, "THEOREM_MODS", []))
    if getattr(m, "DRIVER", None):
        out.append(m.DRIVER)
print(" ".join(dict.fromkeys(out)))
PY
)
(cd lean && lake build $TARGETS) || echo "setup: some Lean targets failed to build (their checks will report it)"
echo setup done
