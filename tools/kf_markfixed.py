#!/usr/bin/env python3
"""kf_markfixed.py ID=COMMIT [ID=COMMIT ...] — marks known findings fixed (under the file lock).
Only use for findings whose witness no longer fails on /repo (see evidence `known_findings_not_reproduced`)."""
import fcntl, json, os, sys
HERE = os.path.dirname(os.path.dirname(os.path.abspath(__file__)))
path = os.path.join(HERE, "known_findings.json")
with open(os.path.join(HERE, ".cache", "kf.lock"), "w") as lk:
    fcntl.flock(lk, fcntl.LOCK_EX)
    data = json.load(open(path))
    byid = {f["id"]: f for f in data["findings"]}
    for a in sys.argv[1:]:
        i, c = a.split("=")
        if i not in byid:
            print("unknown", i); continue
        byid[i]["status"] = "fixed"; byid[i]["commit"] = c
        print("fixed", i, c)
    tmp = path + ".tmp"
    json.dump(data, open(tmp, "w"), indent=1, ensure_ascii=False); open(tmp, "a").write("\n")
    os.replace(tmp, path)
