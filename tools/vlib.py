"""Shared machinery for every property check (DESIGN.md section 2).

A property module (props/Cxx.py) provides:

    ID            = "C10"
    DRIVER        = "drv_C10"                      # lean_exe name (root RsassModel/Driver/C10.lean)
    THEOREM_MODS  = ["RsassModel.Theorems.C10"]    # modules holding the property theorems
    LEVEL         = "proof"
    RULE          = "how cases are generated / what is non-trivial"
    TRUSTED       = [...]                          # extra trusted-base strings
    ASSUMPTIONS   = [...]
    def gen(tier, rng, boost=1) -> iterable of Case
    def judge(case, impl, asis, spec) -> Verdict   # optional; default compares outputs
    def nontrivial(case, impl, spec) -> bool       # optional
    def extract(ctx) -> None                       # optional T1 step (rewrites Generated/*.lean)
    def shrink(case, still_fails) -> Case          # optional
    def static_checks(ctx) -> list[str]            # optional T3 source guards: returns problems

A Case carries one or more protocol lines.  The harness (real code) answers each line
with one line; the Lean driver answers each line with `asis[\\tspec]`.
"""
import fcntl
import hashlib
import json
import os
import random
import re
import select
import subprocess
import sys
import time

VERIF = os.path.dirname(os.path.dirname(os.path.abspath(__file__)))
REPO = os.environ.get("VERIF_REPO", "/repo").rstrip("/")
CACHE = os.path.join(VERIF, ".cache")
LEAN = os.path.join(VERIF, "lean")
if REPO == "/repo":
    HARNESS_DIR = os.path.join(VERIF, "harness")
    HARNESS_BIN = os.path.join(CACHE, "target", "debug", "rsass-verif")
    OUT = VERIF
else:
    # Self-test mode: run the same checks against a scratch copy/worktree of kaj/rsass
    # (VERIF_REPO=/tmp/wt ./check Cxx).  Uses its own harness copy, target dir, evidence
    # and replay directories so that the registered checks against /repo are not disturbed.
    _tag = os.path.basename(REPO) + "-" + hashlib.sha1(REPO.encode()).hexdigest()[:8]
    OUT = os.path.join(CACHE, "alt-" + _tag)
    HARNESS_DIR = os.path.join(OUT, "harness")
    HARNESS_BIN = os.path.join(OUT, "target", "debug", "rsass-verif")


def _prepare_alt_harness():
    src = os.path.join(VERIF, "harness")
    os.makedirs(os.path.join(HARNESS_DIR, ".cargo"), exist_ok=True)
    subprocess.run(["rsync", "-a", "--delete", "--exclude", ".cargo", "--exclude", "Cargo.lock", "--exclude", "Cargo.toml",
                    src + "/", HARNESS_DIR + "/"], check=True)
    toml = open(os.path.join(src, "Cargo.toml")).read().replace('"/repo/rsass"', '"' + REPO + '/rsass"')
    cfg = open(os.path.join(src, ".cargo", "config.toml")).read().replace("/verif/.cache/target", os.path.join(OUT, "target"))
    for path, content in ((os.path.join(HARNESS_DIR, "Cargo.toml"), toml), (os.path.join(HARNESS_DIR, ".cargo", "config.toml"), cfg)):
        if not os.path.exists(path) or open(path).read() != content:
            open(path, "w").write(content)
ALLOWED_AXIOMS = {"propext", "Classical.choice", "Quot.sound"}
FORBIDDEN = re.compile(
    r"\bsorry\b|\badmit\b|^\s*axiom\s|native_decide|bv_decide|implemented_by|\bunsafe\s|maxHeartbeats\s+0\b|\bextern\b"
)


def hx(s):
    if isinstance(s, str):
        s = s.encode("utf-8")
    return s.hex()


def unhx(s):
    try:
        return bytes.fromhex(s).decode("utf-8", "replace")
    except ValueError:
        return "<bad-hex:" + s + ">"


def show(res):
    """human-readable form of a protocol result such as ok:<hex> / err:<hex>"""
    if res is None:
        return None
    out = []
    for part in res.split("\t"):
        m = re.fullmatch(r"(ok|err|panic):([0-9a-f]*)", part)
        if m:
            out.append(m.group(1) + ":" + unhx(m.group(2)))
        elif re.fullmatch(r"(?:[0-9a-f]{2})+", part) and not part.isdigit():
            out.append(unhx(part))
        else:
            out.append(part)
    return "\t".join(out)


class Case:
    __slots__ = ("lines", "stratum", "note")

    def __init__(self, lines, stratum="gen", note=None):
        if isinstance(lines, str):
            lines = [lines]
        self.lines = list(lines)
        self.stratum = stratum
        self.note = note or {}

    def key(self):
        return "\n".join(self.lines)

    def to_json(self):
        return {"lines": self.lines, "stratum": self.stratum, "note": self.note}

    @staticmethod
    def from_json(d):
        return Case(d["lines"], d.get("stratum", "replay"), d.get("note"))


class Verdict:
    """corr_ok: implementation agrees with the as-is model on this case.
    fails: None if the property holds on the implementation's result, else a reason."""

    __slots__ = ("corr_ok", "fails")

    def __init__(self, corr_ok=True, fails=None):
        self.corr_ok = corr_ok
        self.fails = fails


def default_judge(case, impl, asis, spec):
    # a model answer of None means the driver does not model this op (no opinion)
    return Verdict(asis is None or impl == asis,
                   None if (spec is None or impl == spec) else "implementation differs from the specification model")


class InfraError(Exception):
    pass


class lock:
    def __init__(self, name):
        os.makedirs(CACHE, exist_ok=True)
        self.path = os.path.join(CACHE, name + ".lock")

    def __enter__(self):
        self.f = open(self.path, "w")
        fcntl.flock(self.f, fcntl.LOCK_EX)

    def __exit__(self, *a):
        fcntl.flock(self.f, fcntl.LOCK_UN)
        self.f.close()


def env_offline():
    e = dict(os.environ)
    e["CARGO_NET_OFFLINE"] = "true"
    e.setdefault("CARGO_TERM_COLOR", "never")
    return e


def build_harness(log):
    """B1: build the harness against /repo's current working tree."""
    if REPO != "/repo":
        _prepare_alt_harness()
    lockfile = os.path.join(HARNESS_DIR, "Cargo.lock")
    if not os.path.exists(lockfile):
        src = os.path.join(REPO, "Cargo.lock")
        if not os.path.exists(src):  # Cargo.lock is not tracked upstream: scratch worktrees lack it
            src = os.path.join(VERIF, "harness", "Cargo.lock")
        subprocess.run(["cp", src, lockfile], check=True)
    with lock("cargo" if REPO == "/repo" else "cargo-" + os.path.basename(OUT)):
        t = time.time()
        p = subprocess.run(
            ["cargo", "build", "--offline"], cwd=HARNESS_DIR, env=env_offline(),
            stdout=subprocess.PIPE, stderr=subprocess.STDOUT, text=True)
        log["harness_build_s"] = round(time.time() - t, 1)
        if p.returncode != 0:
            raise InfraError("harness build failed:\n" + p.stdout[-4000:])


def gen_lake():
    subprocess.run([sys.executable, os.path.join(VERIF, "tools", "gen_lake.py")], check=True)


def lake_build(targets, log):
    """B3: build theorem modules and driver under a lock. Returns (ok, output)."""
    with lock("lake"):
        gen_lake()
        t = time.time()
        p = subprocess.run(["lake", "build"] + targets, cwd=LEAN,
                           stdout=subprocess.PIPE, stderr=subprocess.STDOUT, text=True)
        log["lake_build_s"] = round(time.time() - t, 1)
        return p.returncode == 0, p.stdout


def strip_comments(src):
    # remove /- ... -/ (nested) and -- comments
    out = []
    i, depth, n = 0, 0, len(src)
    while i < n:
        if src.startswith("/-", i):
            depth += 1
            i += 2
        elif depth and src.startswith("-/", i):
            depth -= 1
            i += 2
        elif depth:
            if src[i] == "\n":
                out.append("\n")
            i += 1
        elif src.startswith("--", i):
            while i < n and src[i] != "\n":
                i += 1
        else:
            out.append(src[i])
            i += 1
    return "".join(out)


def module_path(mod):
    return os.path.join(LEAN, *mod.split(".")) + ".lean"


def module_closure(mods):
    """transitive RsassModel.* imports of the given modules"""
    seen, todo = [], list(mods)
    while todo:
        m = todo.pop()
        if m in seen or not m.startswith("RsassModel"):
            continue
        seen.append(m)
        try:
            src = open(module_path(m)).read()
        except OSError:
            continue
        for im in re.findall(r"^\s*(?:public\s+)?import\s+(\S+)", strip_comments(src), re.M):
            todo.append(im)
    return sorted(seen)


def theorem_names(mod):
    """property theorems = every `theorem` declared in a Theorems module (with namespaces)"""
    src = strip_comments(open(module_path(mod)).read())
    names, ns = [], []
    for line in src.split("\n"):
        m = re.match(r"\s*namespace\s+(\S+)", line)
        if m:
            ns.append(m.group(1))
            continue
        m = re.match(r"\s*end\s+(\S+)", line)
        if m and ns and ns[-1] == m.group(1):
            ns.pop()
            continue
        m = re.match(r"\s*(?:@\[[^\]]*\]\s*)*(?:private\s+|protected\s+)?theorem\s+(\S+)", line)
        if m:
            names.append(".".join(ns + [m.group(1)]))
    return names


def audit(prop, log):
    """B4: forbidden constructs + `#print axioms` for every property theorem.
    Returns (theorems, discharged, axioms_used, problems)."""
    problems = []
    mods = module_closure(prop.THEOREM_MODS + ["RsassModel.Driver." + prop.ID])
    for m in mods:
        try:
            src = strip_comments(open(module_path(m)).read())
        except OSError:
            continue
        for ln, line in enumerate(src.split("\n"), 1):
            if FORBIDDEN.search(line):
                problems.append(f"forbidden construct in {m}:{ln}: {line.strip()[:80]}")
    theorems = []
    for m in prop.THEOREM_MODS:
        theorems += [(m, t) for t in theorem_names(m)]
    if not theorems:
        problems.append("no property theorems found")
        return [], 0, [], problems
    os.makedirs(os.path.join(LEAN, "RsassModel", "Audit"), exist_ok=True)
    apath = os.path.join(LEAN, "RsassModel", "Audit", prop.ID + ".lean")
    body = "".join(f"import {m}\n" for m in prop.THEOREM_MODS)
    body += "".join(f"#print axioms {t}\n" for _, t in theorems)
    if not os.path.exists(apath) or open(apath).read() != body:
        open(apath, "w").write(body)
    p = subprocess.run(["lake", "env", "lean", apath], cwd=LEAN, stdout=subprocess.PIPE,
                       stderr=subprocess.STDOUT, text=True)
    out = p.stdout
    discharged, used = 0, set()
    for _, t in theorems:
        m = re.search(r"'" + re.escape(t) + r"' (does not depend on any axioms|depends on axioms: \[([^\]]*)\])", out, re.S)
        if not m:
            problems.append(f"theorem {t}: no #print axioms result")
            continue
        ax = set()
        if m.group(2):
            ax = {a.strip() for a in m.group(2).replace("\n", " ").split(",") if a.strip()}
        used |= ax
        bad = ax - ALLOWED_AXIOMS
        if bad:
            problems.append(f"theorem {t} depends on non-standard axioms {sorted(bad)}")
        else:
            discharged += 1
    if p.returncode != 0 and not problems:
        problems.append("audit file failed to elaborate: " + out[-500:])
    # thorough tier: independent re-check of the compiled theorem modules with leanchecker
    if log.get("tier") == "thorough" and not problems:
        t = time.time()
        lc = subprocess.run(["lake", "env", "leanchecker"] + list(prop.THEOREM_MODS), cwd=LEAN,
                            stdout=subprocess.PIPE, stderr=subprocess.STDOUT, text=True)
        log["leanchecker_s"] = round(time.time() - t, 1)
        log["leanchecker_rc"] = lc.returncode
        if lc.returncode != 0:
            problems.append("leanchecker rejected the theorem modules: " + lc.stdout[-300:])
    log["audit"] = {"theorems": len(theorems), "discharged": discharged, "axioms": sorted(used)}
    return [t for _, t in theorems], discharged, sorted(used), problems


def _run_lines(cmd, lines, per_case_timeout, first_line=None):
    """Feed lines to a line-protocol process; returns list of outputs, same length.
    If the process dies or stalls, the offending line gets `abort:<why>` and the process
    is restarted on the remaining lines."""
    results = []
    idx = 0
    n = len(lines)
    while idx < n:
        chunk = lines[idx:]
        data = ("" if first_line is None else first_line + "\n") + "\n".join(chunk) + "\n"
        p = subprocess.Popen(cmd, stdin=subprocess.PIPE, stdout=subprocess.PIPE,
                             stderr=subprocess.DEVNULL)
        import threading

        def feed(proc=p, d=data.encode()):
            try:
                proc.stdin.write(d)
                proc.stdin.close()
            except (BrokenPipeError, OSError):
                pass

        th = threading.Thread(target=feed, daemon=True)
        th.start()
        got = []
        buf = b""
        why = None
        fd = p.stdout.fileno()
        while len(got) < len(chunk):
            r, _, _ = select.select([fd], [], [], per_case_timeout)
            if not r:
                why = "timeout"
                break
            b = os.read(fd, 1 << 16)
            if not b:
                break
            buf += b
            while b"\n" in buf:
                l, buf = buf.split(b"\n", 1)
                got.append(l.decode("utf-8", "replace"))
        if why == "timeout":
            p.kill()
        p.wait()
        results += got[: len(chunk)]
        if len(got) >= len(chunk):
            break
        if why is None:
            rc = p.returncode
            why = f"signal{-rc}" if rc is not None and rc < 0 else f"exit{rc}"
        results.append("abort:" + why)
        idx = len(results)
    return results[:n]


def run_impl(lines, per_case_timeout=30):
    return _run_lines([HARNESS_BIN], lines, per_case_timeout)


def run_model(driver, lines, quirks, per_case_timeout=120):
    exe = os.path.join(LEAN, ".lake", "build", "bin", driver)
    if not os.path.exists(exe):
        raise InfraError("model driver not built: " + exe)
    return _run_lines([exe], lines, per_case_timeout, first_line="quirks\t" + ",".join(sorted(quirks)))


def split_model(out):
    """model line `asis[\\tspec]` -> (asis, spec)"""
    if "\t" in out:
        a, s = out.split("\t", 1)
        return a, s
    return out, out


def load_findings(pid):
    path = os.path.join(VERIF, "known_findings.json")
    if not os.path.exists(path):
        return []
    data = json.load(open(path))
    return [f for f in data.get("findings", []) if f.get("property") == pid]


def corpus_cases(pid):
    d = os.path.join(VERIF, "corpus", pid)
    cases = []
    if os.path.isdir(d):
        for fn in sorted(os.listdir(d)):
            if fn.endswith(".json"):
                for c in json.load(open(os.path.join(d, fn))):
                    cases.append(Case.from_json(c))
    return cases


class Ctx:
    """what a property module sees"""

    def __init__(self, pid, tier, seed):
        self.pid, self.tier, self.seed = pid, tier, seed
        self.log = {}
        self.rng = random.Random((seed << 16) ^ int(hashlib.sha1(pid.encode()).hexdigest()[:8], 16))

    def impl(self, lines, timeout=30):
        return run_impl(lines, timeout)


def evaluate(prop, cases, quirks):
    """run implementation and model on the cases; returns list of result dicts"""
    flat = []
    for c in cases:
        flat += c.lines
    timeout = getattr(prop, "CASE_TIMEOUT", 30)
    impl = run_impl(flat, timeout) if flat else []
    # a per-case timeout may be machine load rather than a hang: re-run each timed-out line
    # alone with a fourfold limit before believing it
    for i, r in enumerate(impl):
        if r == "abort:timeout":
            again = run_impl([flat[i]], timeout * 4)
            if again:
                impl[i] = again[0]
    uses_model = getattr(prop, "DRIVER", None) is not None
    model = run_model(prop.DRIVER, flat, quirks) if (flat and uses_model) else [None] * len(flat)
    if len(impl) != len(flat) or len(model) != len(flat):
        raise InfraError(f"line count mismatch impl={len(impl)} model={len(model)} cases={len(flat)}")
    judge = getattr(prop, "judge", default_judge)
    res = []
    i = 0
    for c in cases:
        k = len(c.lines)
        im = impl[i:i + k]
        mo = model[i:i + k]
        i += k
        if uses_model:
            if any(m is None or m.startswith("abort:") or m == "bad-args" for m in mo):
                raise InfraError(f"model driver failed on case {c.lines!r}: {mo!r}")
            # `bad-op`: the driver does not model this op -> no opinion (None)
            pairs = [(None, None) if m == "bad-op" else split_model(m) for m in mo]
            asis = [a for a, _ in pairs]
            spec = [s for _, s in pairs]
        else:
            asis = spec = [None] * k
        if k == 1:
            v = judge(c, im[0], asis[0], spec[0])
        else:
            v = judge(c, im, asis, spec)
        res.append({"case": c, "impl": im, "asis": asis, "spec": spec, "v": v})
    return res


def write_json(path, obj):
    os.makedirs(os.path.dirname(path), exist_ok=True)
    tmp = path + ".tmp"
    with open(tmp, "w") as f:
        json.dump(obj, f, indent=1, ensure_ascii=False)
        f.write("\n")
    os.replace(tmp, path)


def describe(r):
    c = r["case"]
    return {
        "lines": c.lines,
        "readable": [show(l) for l in c.lines],
        "stratum": c.stratum,
        "note": c.note,
        "impl": [show(x) for x in r["impl"]],
        "model_asis": [show(x) for x in r["asis"]],
        "model_spec": [show(x) for x in r["spec"]],
        "correspondence_ok": r["v"].corr_ok,
        "property_failure": r["v"].fails,
    }


def run_check(prop, tier, seed, replay=None):
    """Extraction-based properties rewrite lean/RsassModel/Generated/*.lean from the running
    code.  They serialise on one lock; a self-test run (VERIF_REPO) restores the files it
    found, so that a mutated tree never leaves its tables behind for the registered checks."""
    if not hasattr(prop, "extract"):
        return _run_check(prop, tier, seed, replay)
    gdir = os.path.join(LEAN, "RsassModel", "Generated")
    with lock("generated"):
        saved = {}
        if REPO != "/repo" and os.path.isdir(gdir):
            for fn in os.listdir(gdir):
                if fn.endswith(".lean"):
                    saved[fn] = open(os.path.join(gdir, fn), "rb").read()
        try:
            return _run_check(prop, tier, seed, replay)
        finally:
            for fn, data in saved.items():
                path = os.path.join(gdir, fn)
                if not os.path.exists(path) or open(path, "rb").read() != data:
                    open(path, "wb").write(data)


def _run_check(prop, tier, seed, replay=None):
    t0 = time.time()
    pid = prop.ID
    ctx = Ctx(pid, tier, seed)
    log = ctx.log
    log["tier"] = tier
    evidence_path = os.path.join(OUT, "evidence", pid + ".json")
    obligations_broken = []

    # B1
    build_harness(log)
    # B2 extraction (T1)
    if hasattr(prop, "extract"):
        prop.extract(ctx)
    # B3
    targets = list(prop.THEOREM_MODS)
    if getattr(prop, "DRIVER", None):
        targets.append(prop.DRIVER)
    ok, out = lake_build(targets, log)
    if not ok:
        if hasattr(prop, "extract") and hasattr(prop, "on_broken_build"):
            obligations_broken += prop.on_broken_build(ctx, out)
        else:
            raise InfraError("lake build failed:\n" + out[-4000:])
    # B4
    theorems, discharged, axioms, problems = audit(prop, log)
    if ok and problems:
        raise InfraError("audit failed: " + "; ".join(problems))
    # T3 static guards
    static_problems = []
    if hasattr(prop, "static_checks"):
        static_problems = prop.static_checks(ctx) or []
        obligations_broken += ["static guard: " + s for s in static_problems]

    # known findings: replay witnesses to decide which deviation flags are live
    findings = load_findings(pid)
    open_f = [f for f in findings if f.get("status") == "open"]
    fixed_f = [f for f in findings if f.get("status") == "fixed"]
    quirks = set()
    live = []
    if open_f:
        wcases = [Case(f["witness"], "witness", {"finding": f["id"]}) for f in open_f]
        # spec / as-is independent: flags off
        wres = evaluate(prop, wcases, set(getattr(prop, "ALWAYS_QUIRKS", [])))
        for f, r in zip(open_f, wres):
            if r["v"].fails is not None:
                live.append(f)
                for fl in f.get("flags", []):
                    quirks.add(fl)
    quirks |= set(getattr(prop, "ALWAYS_QUIRKS", []))

    # cases
    if replay:
        rj = json.load(open(replay))
        cases = [Case.from_json(rj["case"])] if "case" in rj else []
    else:
        cases = corpus_cases(pid)
        cases += [Case(f["witness"], "fixed-witness", {"finding": f["id"]}) for f in fixed_f]
        cases += [Case(f["witness"], "witness", {"finding": f["id"]}) for f in live]
        cases += list(prop.gen(tier, ctx.rng, 1))
    res = evaluate(prop, cases, quirks)

    def classify(res):
        mism = [r for r in res if not r["v"].corr_ok]
        fail = [r for r in res if r["v"].fails is not None]
        # a failure is explained by a known finding when the as-is model (with the live
        # deviation flags) reproduces the implementation's result
        # (the model must have an opinion, reproduce the implementation, and differ from spec)
        def is_explained(r):
            if hasattr(prop, "explained"):
                return bool(prop.explained(r["case"], r, live))
            return bool(r["v"].corr_ok and quirks and all(a is not None for a in r["asis"])
                        and r["asis"] != r["spec"])
        new = [r for r in fail if not is_explained(r)]
        explained = [r for r in fail if is_explained(r)]
        return mism, fail, new, explained

    mism, fail, new, explained = classify(res)
    searched = 0
    if (mism or obligations_broken) and not new and not replay:
        # extended search (DESIGN 2.2): 10x budget, fresh seeds
        extra = list(prop.gen(tier, random.Random(ctx.rng.getrandbits(64)), 10))
        searched = len(extra)
        res2 = evaluate(prop, extra, quirks)
        m2, f2, n2, e2 = classify(res2)
        res += res2
        mism += m2
        fail += f2
        new += n2
        explained += e2

    # evidence
    nontrivial = getattr(prop, "nontrivial", None)
    distinct = set()
    strata = {}
    outcome_kinds = {}
    for r in res:
        c = r["case"]
        strata[c.stratum] = strata.get(c.stratum, 0) + 1
        kind = "|".join((x or "").split(":", 1)[0][:12] if ":" in (x or "") else "val" for x in r["impl"])
        outcome_kinds[kind] = outcome_kinds.get(kind, 0) + 1
        nt = nontrivial(c, r["impl"] if len(c.lines) > 1 else r["impl"][0],
                        r["spec"] if len(c.lines) > 1 else r["spec"][0]) if nontrivial else \
            not any((x or "").startswith(("err:", "abort:", "bad-")) for x in r["impl"])
        if nt:
            distinct.add(c.key())
    samples = []
    seen_strata = set()
    for r in res:
        if r["case"].stratum not in seen_strata and len(samples) < 12:
            seen_strata.add(r["case"].stratum)
            d = describe(r)
            samples.append({k: d[k] for k in ("readable", "stratum", "impl", "model_spec")})
    violations = 0
    replay_path = None
    status_lines = []
    if new:
        violations = len(new)
        r = new[0]
        if hasattr(prop, "shrink") and not replay:
            try:
                def still_fails(c2):
                    rr = evaluate(prop, [c2], quirks)[0]
                    return rr["v"].fails is not None and rr in classify([rr])[2]
                c2 = prop.shrink(r["case"], still_fails)
                if c2 is not None:
                    r = evaluate(prop, [c2], quirks)[0]
            except Exception as e:  # shrinking is best effort
                log["shrink_error"] = repr(e)
        d = describe(r)
        h = hashlib.sha1(r["case"].key().encode()).hexdigest()[:10]
        replay_path = os.path.join(OUT, "replays", f"{pid}-{h}.json")
        write_json(replay_path, {
            "property": pid, "kind": "failing-input", "case": r["case"].to_json(), "detail": d,
            "seed": seed, "tier": tier, "active_deviation_flags": sorted(quirks),
            "how_to_replay": f"./check {pid} --replay {replay_path}",
            "other_failing_cases": [describe(x)["readable"] for x in new[1:6]],
        })
        status_lines.append(f"VIOLATION property={pid} replay={replay_path}")
    elif mism or obligations_broken:
        violations = len(mism) + len(obligations_broken)
        what = {"property": pid, "kind": "no-failing-input-found",
                "broken_obligations": obligations_broken,
                "broken_correspondence": [describe(x) for x in mism[:10]],
                "correspondence": f"impl vs as-is model, driver {getattr(prop, 'DRIVER', None)}",
                "theorems": theorems, "searched_extra_cases": searched,
                "seed": seed, "tier": tier, "active_deviation_flags": sorted(quirks)}
        if mism:
            what["case"] = mism[0]["case"].to_json()
        h = hashlib.sha1(json.dumps(what, sort_keys=True, default=str).encode()).hexdigest()[:10]
        replay_path = os.path.join(OUT, "replays", f"{pid}-{h}.json")
        write_json(replay_path, what)
        status_lines.append(f"VIOLATION property={pid} replay={replay_path} no-failing-input-found")

    kf_lines = []
    if not replay:
        for f in live:
            kf_lines.append(f"KNOWN-FINDING: property={pid} {f['id']}: {f['what']}")

    cov = {
        "obligations": len(theorems) + len(getattr(prop, "EXTRA_OBLIGATIONS", [])),
        "discharged": discharged + (len(getattr(prop, "EXTRA_OBLIGATIONS", [])) if not static_problems else 0),
        "checker_cmd": f"cd lean && lake build {' '.join(targets)} && lake env lean RsassModel/Audit/{pid}.lean",
        "trusted_base": ["Lean 4.33.0 kernel", "axioms used by the property theorems: " + (", ".join(axioms) or "none"),
                         "leanchecker re-check of the theorem modules (thorough tier)" if tier == "thorough" else "leanchecker not run in the quick tier",
                         "Rust harness /verif/harness (calls rsass in-process)", "tools/vlib.py differ",
                         "Lean driver protocol parsing (RsassModel/Basic/Proto.lean)"] + list(getattr(prop, "TRUSTED", [])),
        "theorems": theorems,
        "evaluations": len(res),
        "distinct_nontrivial": len(distinct),
        "rule": getattr(prop, "RULE", ""),
        "samples": samples,
        "strata": strata,
        "impl_outcome_kinds": outcome_kinds,
        "correspondence_mismatches": len(mism),
        "property_failures_explained_by_known_findings": len(explained),
        "property_failures_new": len(new),
        "known_findings_live": [f["id"] for f in live],
        "known_findings_not_reproduced": [f["id"] for f in open_f if f not in live],
        "deviation_flags_on": sorted(quirks),
        "extended_search_cases": searched,
        "exhaustive": bool(getattr(prop, "EXHAUSTIVE", {}).get(tier, False)),
        "timings": log,
    }
    if hasattr(prop, "extra_coverage"):
        cov.update(prop.extra_coverage(ctx, res) or {})
    ev = {
        "property_id": pid, "tier": tier, "seed": seed, "level": getattr(prop, "LEVEL", "proof"),
        "coverage": cov,
        "assumptions": list(getattr(prop, "ASSUMPTIONS", [])),
        "wall_s": round(time.time() - t0, 2),
        "violations": violations,
    }
    if not replay:
        write_json(evidence_path, ev)
    for l in kf_lines:
        print(l)
    if replay:
        for r in res:
            print(json.dumps(describe(r), indent=1, ensure_ascii=False))
    for l in status_lines:
        print(l)
    print(f"[{pid}] tier={tier} seed={seed} cases={len(res)} nontrivial={len(distinct)} theorems={discharged}/{len(theorems)} "
          f"mismatches={len(mism)} failures(new/explained)={len(new)}/{len(explained)} wall={ev['wall_s']}s")
    return 1 if status_lines else 0
