#!/usr/bin/env python3
"""Renders known_findings.json as FINDINGS.md (the table DESIGN.md section 8 refers to)."""
import json, os
HERE = os.path.dirname(os.path.dirname(os.path.abspath(__file__)))
from vlib import show
data = json.load(open(os.path.join(HERE, "known_findings.json")))["findings"]
out = ["# Known findings (generated from known_findings.json by tools/mkfindings.py)", "",
       "`open` = genuine defect of kaj/rsass still present on the tree under /repo, reported by the check as a `KNOWN-FINDING:` line (exit 0);",
       "`fixed` = repaired by the named `fix:` commit in /repo; suppresses nothing, its witness runs first in every check.", "",
       "| property | id | status | what fails | call site | witness (decoded) |", "|---|---|---|---|---|---|"]
def esc(s):
    return str(s).replace("|", "\\|").replace("\n", "⏎")
for f in sorted(data, key=lambda f: (f["property"], f["id"])):
    st = f["status"] + (" " + f.get("commit", "") if f["status"] == "fixed" else "")
    w = show(f["witness"]) or ""
    out.append(f"| {f['property']} | {f['id']} | {st} | {esc(f['what'])[:300]} | {esc(f['site'])[:200]} | `{esc(w)[:200]}` |")
open(os.path.join(HERE, "FINDINGS.md"), "w").write("\n".join(out) + "\n")
print(len(data), "findings;", sum(1 for f in data if f["status"] == "open"), "open")
