#!/usr/bin/env python3
"""C01 / T3: inventory of panic-capable sites in <repo>/rsass/src.

A *site* is one textual occurrence of a construct that can panic at run time in Rust:

  unwrap   `.unwrap()`                expect  `.expect(`
  macro    `unreachable!` `panic!` `unimplemented!` `todo!` `assert!` `assert_eq!`
           `assert_ne!` `debug_assert*!`   (the harness profile has debug-assertions on)
  index    indexing / slicing  `expr[..]`
  arith    `+ - * / %` (and the `op=` forms) where an operand is cheaply recognisable as
           an integer (integer literal, `.len()`, `.count()`, `as <int type>`, an identifier
           declared with an integer type in the same file), and every compound assignment
           through a dereference (`*p += q`)
  api      std calls with a panicking precondition that occur in the tree:
           `.split_at(` `.split_off(` `.split_at_mut(` `.repeat(` `.insert_str(` `.remove(<non-&>`

Code inside `#[cfg(test)]` items, `#[test]` functions, doc comments, comments and string
literals is ignored.  The key of a site is

    (file relative to rsass/src, enclosing item path, normalised expression, ordinal)

with no line numbers: `ordinal` counts equal (file, fn, expression) triples in source
order, so that moving code up or down does not change any key.

usage: extract_panic_sites.py [REPO]   -> JSON list on stdout
"""
import json
import os
import re
import sys

INT_TY = r"(?:usize|isize|u8|u16|u32|u64|u128|i8|i16|i32|i64|i128)"


def strip_code(src):
    """Returns (code, text): `code` has comments and string/char literal *contents* blanked
    (newlines kept, offsets unchanged) and is what the patterns are matched on; `text` has
    only the comments blanked and is what expression keys are cut from."""
    out = list(src)
    keep = list(src)
    i, n = 0, len(src)

    def blank(a, b, comment=False):
        for k in range(a, b):
            if out[k] != "\n":
                out[k] = " "
                if comment:
                    keep[k] = " "

    while i < n:
        c = src[i]
        if src.startswith("//", i):
            j = src.find("\n", i)
            j = n if j < 0 else j
            blank(i, j, True)
            i = j
        elif src.startswith("/*", i):
            depth, j = 1, i + 2
            while j < n and depth:
                if src.startswith("/*", j):
                    depth += 1
                    j += 2
                elif src.startswith("*/", j):
                    depth -= 1
                    j += 2
                else:
                    j += 1
            blank(i, j, True)
            i = j
        elif c == '"' or (c in "br" and re.match(r'b?r?#*"', src[i:i + 8]) and (i == 0 or not (src[i - 1].isalnum() or src[i - 1] == "_"))):
            m = re.match(r'(b?)(r?)(#*)"', src[i:i + 40])
            if not m:
                i += 1
                continue
            raw, hashes = m.group(2), m.group(3)
            j = i + m.end()
            if raw:
                end = src.find('"' + hashes, j)
                end = n if end < 0 else end
                blank(j, end)
                i = end + 1 + len(hashes)
            else:
                while j < n and src[j] != '"':
                    j += 2 if src[j] == "\\" else 1
                blank(i + m.end(), j)
                i = j + 1
        elif c == "'" or (c == "b" and src.startswith("b'", i) and (i == 0 or not (src[i - 1].isalnum() or src[i - 1] == "_"))):
            k = i + (2 if c == "b" else 1)
            # char literal: 'x', '\n', '\u{..}', '\''   lifetime: 'a (no closing quote right after)
            m = re.match(r"(\\(?:u\{[0-9a-fA-F_]+\}|x[0-9a-fA-F]{2}|.)|[^\\'])'", src[k:k + 14])
            if m:
                blank(k, k + m.end() - 1)
                i = k + m.end()
            else:
                i = k
        else:
            i += 1
    return "".join(out), "".join(keep)


def match_brace(code, i, open_c="{", close_c="}"):
    """index just after the brace matching the one at i"""
    depth, n = 0, len(code)
    while i < n:
        if code[i] == open_c:
            depth += 1
        elif code[i] == close_c:
            depth -= 1
            if depth == 0:
                return i + 1
        i += 1
    return n


def blank_test_items(code):
    """blank out the item following each #[cfg(test)] / #[test] attribute"""
    out = list(code)
    for m in re.finditer(r"#\[\s*(?:cfg\s*\(\s*test\s*\)|test)\s*\]", code):
        i = m.end()
        # the item ends at the first `;` at depth 0 or at the brace matching the first `{`
        j = i
        n = len(code)
        while j < n and code[j] not in "{;":
            j += 1
        end = match_brace(code, j) if j < n and code[j] == "{" else j + 1
        for k in range(m.start(), min(end, n)):
            if out[k] != "\n":
                out[k] = " "
    return "".join(out)


KEYWORDS_BEFORE_BRACKET = {"let", "in", "return", "match", "if", "mut", "ref", "else", "as", "const", "static",
                           "for", "while", "move", "box", "dyn", "impl", "where", "break", "yield"}


def contexts(code):
    """ctx[i] = enclosing item path (impl header / fn / static / macro names) of offset i"""
    n = len(code)
    ctx = [""] * n
    stack = []
    pending = None
    tok = re.compile(
        r"\bfn\s+([A-Za-z_][A-Za-z0-9_]*)"
        r"|(?m:^[ \t]*(?:pub(?:\([^)]*\))?\s+)?(?:unsafe\s+)?(impl|trait|mod)\b([^{;]*))"
        r"|\b(?:static|const)\s+(?:mut\s+)?([A-Z][A-Z0-9_]*)\s*:"
        r"|\bmacro_rules\s*!\s*([A-Za-z_][A-Za-z0-9_]*)"
        r"|[{};]")
    cur = ""
    last = 0
    for m in tok.finditer(code):
        s = m.start()
        for k in range(last, s):
            ctx[k] = cur
        last = s
        t = m.group(0)
        if m.group(1):
            pending = "fn " + m.group(1)
        elif m.group(2):
            hdr = re.sub(r"\s+", " ", (m.group(2) + m.group(3)).strip())
            pending = re.sub(r"\bwhere\b.*$", "", hdr).strip()
        elif m.group(4):
            pending = "static " + m.group(4)
        elif m.group(5):
            pending = "macro " + m.group(5)
        elif t == "{":
            stack.append(pending)
            if pending and pending.startswith("static "):
                pass
            pending = None
            cur = " / ".join(x for x in stack if x)
        elif t == "}":
            if stack:
                stack.pop()
            pending = None
            cur = " / ".join(x for x in stack if x)
        elif t == ";":
            pending = None
    for k in range(last, n):
        ctx[k] = cur
    return ctx


def receiver_start(code, pos):
    """start offset of the postfix-expression chain that ends just before `pos`"""
    i = pos
    while i > 0:
        c = code[i - 1]
        if c in " \n\t":
            # allow line breaks inside method chains: `foo\n    .bar()`
            j = i - 1
            while j > 0 and code[j - 1] in " \n\t":
                j -= 1
            nxt = code[i:i + 1]
            if j > 0 and (nxt == "." or nxt == "?") and (code[j - 1].isalnum() or code[j - 1] in "_)]?"):
                i = j
                continue
            break
        if c in ")]":
            open_c = "(" if c == ")" else "["
            depth, j = 0, i - 1
            while j >= 0:
                if code[j] == c:
                    depth += 1
                elif code[j] == open_c:
                    depth -= 1
                    if depth == 0:
                        break
                j -= 1
            i = max(j, 0)
            continue
        if c.isalnum() or c in "_.?!&*" or (c == ":" and i > 1 and code[i - 2] == ":") or (c == ":" and code[i:i + 1] == ":"):
            i -= 1
            continue
        break
    return i


def arith_span(code, a, b):
    """smallest bracket-balanced expression segment around the operator at [a, b)"""
    i, depth = a, 0
    while i > 0:
        c = code[i - 1]
        if c in "{}" and depth == 0:
            break
        if c in ")]}":
            depth += 1
        elif c in "([{":
            if depth == 0:
                break
            depth -= 1
        elif depth == 0 and (c in ",;|" or (c == "=" and code[i - 2:i - 1] not in ("=", "!", "<", ">") and code[i:i + 1] != "=")
                             or (c == ">" and code[i - 2:i - 1] == "=")):
            break
        i -= 1
    k, depth = b, 0
    n = len(code)
    while k < n:
        c = code[k]
        if c in "{}" and depth == 0:
            break
        if c in "([{":
            depth += 1
        elif c in ")]}":
            if depth == 0:
                break
            depth -= 1
        elif depth == 0 and c in ",;":
            break
        k += 1
    return i, k


def norm(s):
    s = re.sub(r"\s+", "", s)
    return s[:200]


def int_names(code):
    """identifiers of this file that are cheaply recognisable as integer-typed"""
    names = set(re.findall(r"\b([a-z_][a-z0-9_]*)\s*:\s*&?\s*(?:mut\s+)?" + INT_TY + r"\b", code))
    for m in re.finditer(r"\blet\s+(?:mut\s+)?([a-z_][a-z0-9_]*)\s*(?::[^=;]+)?=\s*([^;]*);", code):
        rhs = m.group(2).rstrip()
        if re.search(r"(?:\bas\s+" + INT_TY + r"|\.len\(\)|\.count\(\)|\.indent_level\(\))\)?$", rhs):
            names.add(m.group(1))
    names.discard("self")
    return names


def sites_of_file(rel, src):
    code, text = strip_code(src)
    code = blank_test_items(code)
    ctx = contexts(code)
    ints = int_names(code)
    found = []  # (offset, kind, expr)

    def cut(a, b):
        return norm(text[a:b])

    for m in re.finditer(r"\.\s*unwrap\s*\(\s*\)", code):
        a = receiver_start(code, m.start())
        found.append((m.start(), "unwrap", cut(a, m.end())))
    for m in re.finditer(r"\.\s*expect\s*\(", code):
        a = receiver_start(code, m.start())
        e = match_brace(code, m.end() - 1, "(", ")")
        found.append((m.start(), "expect", cut(a, e)))
    for m in re.finditer(r"\b(unreachable|panic|unimplemented|todo|assert|assert_eq|assert_ne|debug_assert|debug_assert_eq|debug_assert_ne)\s*!\s*[(\[{]", code):
        e = match_brace(code, m.end() - 1, code[m.end() - 1], {"(": ")", "[": "]", "{": "}"}[code[m.end() - 1]])
        found.append((m.start(), "macro", cut(m.start(), e)))
    for m in re.finditer(r"\[", code):
        i = m.start()
        j = i
        while j > 0 and code[j - 1] in " \t":
            j -= 1
        if j == 0:
            continue
        p = code[j - 1]
        if not (p.isalnum() or p in "_)]?"):
            continue
        if p.isalnum() or p == "_":
            k = j
            while k > 0 and (code[k - 1].isalnum() or code[k - 1] == "_"):
                k -= 1
            word = code[k:j]
            if word in KEYWORDS_BEFORE_BRACKET or (k > 0 and code[k - 1] == "'"):
                continue
            if j != i:  # `ident [` with a space: a pattern/type, not an index expression
                continue
        e = match_brace(code, i, "[", "]")
        a = receiver_start(code, i)
        found.append((i, "index", cut(a, e)))
    # arithmetic with an operand that is cheaply recognisable as an integer
    intlit = r"(?<![\w.])\d[\d_]*(?:" + INT_TY + r")?(?![\w.]|\.\d)"
    intish_left = re.compile(r"(?:" + intlit + r"|\.(?:len|count|indent_level)\(\)|\bas\s+" + INT_TY + r"\)?|\b(?P<id>[a-z_][a-z0-9_]*))\s*$")
    intish_right = re.compile(r"^\s*(?:" + intlit + r"|[\w.]+\.len\(\)|[\w.]+\s+as\s+" + INT_TY + r"|(?:[a-z_][a-z0-9_]*\.)*(?P<id>[a-z_][a-z0-9_]*)\b(?![(.:!]))")
    for m in re.finditer(r"(?<=[\w)\]])\s(\+|-|\*|/|%)(=?)\s(?=[\w(&*-])", code):
        line_a = code.rfind("\n", 0, m.start()) + 1
        line_b = code.find("\n", m.end())
        left = code[line_a:m.start()]
        right = code[m.end():line_b if line_b >= 0 else len(code)]
        ml, mr = intish_left.search(left), intish_right.match(right)
        okl = bool(ml) and (ml.group("id") is None or ml.group("id") in ints)
        okr = bool(mr) and (mr.group("id") is None or mr.group("id") in ints)
        # `*place op= value`: a compound assignment through a reference (pattern-bound counters,
        # unit exponents, map entries)
        deref = bool(m.group(2)) and re.search(r"(?:^|[\s{;(])\*[\w.()]+(?:\([^()]*\))*\s*$", left) is not None
        if okl or okr or deref:
            a, k = arith_span(code, m.start(), m.end())
            found.append((m.start(), "arith", cut(a, k)))
    for m in re.finditer(r"\.\s*(split_at|split_off|split_at_mut|repeat|insert_str)\s*\(|\.\s*(remove)\s*\(\s*(?![&\s])", code):
        a = receiver_start(code, m.start())
        e = match_brace(code, code.index("(", m.start()), "(", ")")
        found.append((m.start(), "api", cut(a, e)))

    found.sort()
    seen = {}
    res = []
    for off, kind, expr in found:
        fn = ctx[off] if off < len(ctx) else ""
        k = (rel, fn, kind, expr)
        seen[k] = seen.get(k, 0) + 1
        line = code.count("\n", 0, off) + 1
        res.append({"file": rel, "fn": fn, "kind": kind, "expr": expr, "ord": seen[k], "line": line})
    return res


def extract(repo):
    root = os.path.join(repo, "rsass", "src")
    res = []
    for d, dirs, files in sorted(os.walk(root)):
        dirs.sort()
        for f in sorted(files):
            if not f.endswith(".rs"):
                continue
            p = os.path.join(d, f)
            rel = os.path.relpath(p, root)
            if rel in ("testutil.rs",):
                continue
            res += sites_of_file(rel, open(p, encoding="utf-8").read())
    return res


def key_of(s):
    return "|".join((s["file"], s["fn"], s["kind"], s["expr"], str(s["ord"])))


if __name__ == "__main__":
    args = [a for a in sys.argv[1:] if not a.startswith("--")]
    repo = args[0] if args else os.environ.get("VERIF_REPO", "/repo")
    sites = extract(repo)
    if "--summary" in sys.argv:
        import collections
        print(dict(collections.Counter(s["kind"] for s in sites)), len(sites))
    elif "--list" in sys.argv:
        for x in sites:
            print(f'{x["file"]}:{x["line"]} {x["kind"]} [{x["fn"]}] {x["expr"]} #{x["ord"]}')
    else:
        json.dump(sites, sys.stdout, indent=1)
