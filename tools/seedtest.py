#!/usr/bin/env python3
"""Runs registered checks against the seeded changes under /verif/seeded/<id>/.

For each seeded change (patch.diff + meta.json naming the property it breaks) a scratch
worktree of /repo is created under /tmp, the patch applied, and
`VERIF_REPO=<worktree> ./check <property> --tier <tier>` run (plus any extra properties
listed in meta.json "also_check").  The worktree, its build output and the alternate
harness directory are removed afterwards.  Results go to seeded/RESULTS.json / RESULTS.md.

usage: tools/seedtest.py [--tier quick|thorough] [--jobs J] [--in-repo] [id ...]
  --in-repo   apply the patch to /repo itself (git apply), run ./check, and undo it
              (git checkout -- .) — serial, exactly as the registered commands run.
"""
import argparse, concurrent.futures as cf, hashlib, json, os, shutil, subprocess, sys, time
HERE = os.path.dirname(os.path.dirname(os.path.abspath(__file__)))
SEEDED = os.path.join(HERE, "seeded")


def sh(cmd, **kw):
    return subprocess.run(cmd, stdout=subprocess.PIPE, stderr=subprocess.STDOUT, text=True, **kw)


def run_one(sid, tier, in_repo):
    d = os.path.join(SEEDED, sid)
    meta = json.load(open(os.path.join(d, "meta.json")))
    patch = os.path.join(d, meta.get("patch", "patch.diff"))
    props = [meta["property"]] + list(meta.get("also_check", []))
    out = {"id": sid, "property": meta["property"], "checks": {}}
    if in_repo:
        wt = "/repo"
        r = sh(["git", "-C", "/repo", "apply", patch])
        if r.returncode != 0:
            out["error"] = "patch does not apply: " + r.stdout[-300:]
            return out
        env = dict(os.environ)
    else:
        wt = f"/tmp/seedrun-{sid}"
        sh(["git", "-C", "/repo", "worktree", "remove", "--force", wt])
        shutil.rmtree(wt, ignore_errors=True)
        r = sh(["git", "-C", "/repo", "worktree", "add", "--detach", wt])
        r = sh(["git", "-C", wt, "apply", patch])
        if r.returncode != 0 and meta.get("base_commit"):
            # /repo moved on since the change was written: test it on the commit it was made for
            sh(["git", "-C", wt, "checkout", "-q", "--detach", meta["base_commit"]])
            r = sh(["git", "-C", wt, "apply", patch])
            out["tested_on"] = meta["base_commit"]
        if r.returncode != 0:
            out["error"] = "patch does not apply: " + r.stdout[-300:]
            sh(["git", "-C", "/repo", "worktree", "remove", "--force", wt])
            return out
        env = dict(os.environ, VERIF_REPO=wt)
    try:
        for p in props:
            t = time.time()
            r = sh([os.path.join(HERE, "check"), p, "--tier", tier], cwd=HERE, env=env)
            viol = [l for l in r.stdout.split("\n") if l.startswith("VIOLATION")]
            info = {"rc": r.returncode, "wall_s": round(time.time() - t, 1), "violation_lines": viol,
                    "summary": [l for l in r.stdout.split("\n") if l.startswith("[")][-1:]}
            if viol:
                rp = viol[0].split("replay=")[1].split()[0]
                try:
                    rj = json.load(open(rp))
                    info["replay_kind"] = rj.get("kind")
                    det = rj.get("detail") or {}
                    info["replay_case"] = det.get("readable") or rj.get("broken_obligations")
                    info["replay_reason"] = det.get("property_failure")
                except Exception as e:
                    info["replay_error"] = repr(e)
            if r.returncode not in (0, 1):
                info["stderr_tail"] = r.stdout[-600:]
            out["checks"][p] = info
    finally:
        if in_repo:
            sh(["git", "-C", "/repo", "checkout", "--", "."])
        else:
            sh(["git", "-C", "/repo", "worktree", "remove", "--force", wt])
            shutil.rmtree(wt, ignore_errors=True)
            tag = os.path.basename(wt) + "-" + hashlib.sha1(wt.encode()).hexdigest()[:8]
            shutil.rmtree(os.path.join(HERE, ".cache", "alt-" + tag), ignore_errors=True)
    out["detected"] = any(c.get("rc") == 1 and c.get("violation_lines") for c in out["checks"].values())
    return out


def main():
    ap = argparse.ArgumentParser()
    ap.add_argument("--tier", default="quick")
    ap.add_argument("--jobs", type=int, default=3)
    ap.add_argument("--in-repo", action="store_true")
    ap.add_argument("ids", nargs="*")
    a = ap.parse_args()
    ids = a.ids or sorted(x for x in os.listdir(SEEDED) if os.path.exists(os.path.join(SEEDED, x, "meta.json")))
    jobs = 1 if a.in_repo else a.jobs
    results = []
    with cf.ThreadPoolExecutor(jobs) as ex:
        for r in ex.map(lambda s: run_one(s, a.tier, a.in_repo), ids):
            results.append(r)
            tag = "DETECTED" if r.get("detected") else ("ERROR " + r.get("error", "") if "error" in r else "MISSED")
            print(f"{r['id']:28s} {r['property']} {tag}")
            for p, c in r.get("checks", {}).items():
                print(f"    {p}: rc={c['rc']} {c['wall_s']}s {c.get('replay_kind','')} {str(c.get('replay_reason',''))[:120]}")
    path = os.path.join(SEEDED, "RESULTS.json")
    old = {}
    if os.path.exists(path):
        old = {r["id"]: r for r in json.load(open(path))}
    for r in results:
        r["tier"] = a.tier
        r["mode"] = "in-repo" if a.in_repo else "worktree"
        old[r["id"]] = r
    json.dump(sorted(old.values(), key=lambda r: r["id"]), open(path, "w"), indent=1)
    # remember the outcome of the FIRST run of every seed (checks may be strengthened after a miss)
    hpath = os.path.join(SEEDED, "HISTORY.json")
    hist = json.load(open(hpath)) if os.path.exists(hpath) else {}
    for r in results:
        if r["id"] not in hist and "error" not in r:
            hist[r["id"]] = {"first_run": "DETECTED" if r.get("detected") else "MISSED"}
    json.dump(hist, open(hpath, "w"), indent=1, sort_keys=True)


main()
