#!/usr/bin/env python3
"""Runs every claimed check (or the ones given) and prints a summary table.
usage: tools/runall.py [--tier quick|thorough] [--seed N] [--jobs J] [C10 C11 ...]"""
import argparse, concurrent.futures as cf, json, os, subprocess, sys, time
HERE = os.path.dirname(os.path.dirname(os.path.abspath(__file__)))
ap = argparse.ArgumentParser()
ap.add_argument("--tier", default="quick")
ap.add_argument("--seed", default="1")
ap.add_argument("--jobs", type=int, default=4)
ap.add_argument("props", nargs="*")
a = ap.parse_args()
props = a.props or sorted(f[:-3] for f in os.listdir(os.path.join(HERE, "props")) if __import__("re").fullmatch(r"C\d+\.py", f))
def run(p):
    t = time.time()
    r = subprocess.run([os.path.join(HERE, "check"), p, "--tier", a.tier, "--seed", a.seed], cwd=HERE,
                       capture_output=True, text=True)
    lines = [l for l in r.stdout.split("\n") if l.startswith(("VIOLATION", "KNOWN-FINDING", "["))]
    err = r.stderr.strip().split("\n")[-1] if r.returncode not in (0, 1) else ""
    return p, r.returncode, round(time.time() - t, 1), lines, err
with cf.ThreadPoolExecutor(a.jobs) as ex:
    for p, rc, dt, lines, err in ex.map(run, props):
        print(f"{p} rc={rc} {dt}s")
        for l in lines:
            print("   ", l[:220])
        if err:
            print("    ERR:", err[:300])
