#!/usr/bin/env python3
"""Confirms seeded changes delivered by the independent sub-agents and files them under
/verif/seeded/<id>/ (patch.diff, demo.sh, meta.json, README.md).

For /tmp/seed-<PROP>-out/{patchN.diff,demoN.sh,README.md}:
  1. scratch worktree of /repo HEAD under /tmp, patch applied (git apply, then --3way);
  2. `cargo build --offline -p rsass-cli` must succeed;
  3. demoN.sh <patched tree> must exit non-zero (property broken with the change);
  4. demoN.sh <clean tree> must exit 0 (property holds without it);
  5. the existing test suite must pass completely on the patched tree (with --no-suite this step is
     deferred: the seed is filed with suite "pending" and `seedconfirm.py --suite [ids]` runs it later);
  6. the worktree and its build output are removed.
Only a change that passes 1-5 is kept.

usage: tools/seedconfirm.py PROP [PROP ...]      (e.g. C28 C07)
"""
import json, os, re, shutil, subprocess, sys, time
HERE = os.path.dirname(os.path.dirname(os.path.abspath(__file__)))
CLEAN = "/tmp/sc-clean"


def sh(cmd, **kw):
    return subprocess.run(cmd, stdout=subprocess.PIPE, stderr=subprocess.STDOUT, text=True, **kw)


def head():
    return sh(["git", "-C", "/repo", "rev-parse", "--short", "HEAD"]).stdout.strip()


def ensure_clean(h=None, path=None):
    h = h or head()
    path = path or CLEAN
    return _ensure_clean(h, path)


def _ensure_clean(h, CLEAN):
    cur = sh(["git", "-C", CLEAN, "rev-parse", "--short", "HEAD"]).stdout.strip() if os.path.isdir(CLEAN) else ""
    if cur != h:
        sh(["git", "-C", "/repo", "worktree", "remove", "--force", CLEAN])
        shutil.rmtree(CLEAN, ignore_errors=True)
        sh(["git", "-C", "/repo", "worktree", "add", "--detach", CLEAN, h])
        shutil.copy("/repo/Cargo.lock", CLEAN)
    r = sh(["cargo", "build", "--offline", "-p", "rsass-cli"], cwd=CLEAN)
    if r.returncode != 0:
        raise SystemExit("clean build failed: " + r.stdout[-500:])


NO_SUITE = False


def run_suite(wt):
    r = sh(["cargo", "nextest", "run", "--workspace", "--no-fail-fast", "--test-threads", "8", "--offline"], cwd=wt)
    m = re.search(r"Summary \[[^\]]*\] (\d+) tests run: (\d+) passed.*", r.stdout)
    ok = bool(m) and m.group(1) == m.group(2) and int(m.group(1)) >= 6796 and r.returncode == 0
    return ok, (m.group(0) if m else r.stdout[-300:])


def suite_phase(ids):
    """phase 2: run the existing suite on every filed seed whose suite result is pending"""
    sdir = os.path.join(HERE, "seeded")
    for sid in ids or sorted(os.listdir(sdir)):
        mp = os.path.join(sdir, sid, "meta.json")
        if not os.path.exists(mp):
            continue
        meta = json.load(open(mp))
        if not str(meta["confirmed"].get("existing_suite", "")).startswith("pending"):
            continue
        wt = f"/tmp/sc-{sid}"
        sh(["git", "-C", "/repo", "worktree", "remove", "--force", wt])
        shutil.rmtree(wt, ignore_errors=True)
        sh(["git", "-C", "/repo", "worktree", "add", "--detach", wt, meta["base_commit"]])
        shutil.copy("/repo/Cargo.lock", wt)
        try:
            r = sh(["git", "-C", wt, "apply", os.path.join(sdir, sid, "patch.diff")])
            if r.returncode != 0:
                print(sid, "patch does not apply to its base", flush=True)
                continue
            ok, summary = run_suite(wt)
            meta["confirmed"]["existing_suite"] = summary
            meta["confirmed"]["existing_suite_passes"] = ok
            json.dump(meta, open(mp, "w"), indent=1)
            print(sid, "SUITE OK" if ok else "SUITE FAILS -> remove this seed", summary, flush=True)
        finally:
            sh(["git", "-C", "/repo", "worktree", "remove", "--force", wt])
            shutil.rmtree(wt, ignore_errors=True)


def suite_batch_phase(maxn=12):
    """phase 2, batched: seeds whose suite result is pending are grouped by base commit; as many patches
    as apply on top of each other (at most `maxn`) are applied to ONE worktree and the suite is run once.
    A green run is recorded for every member as a batch result (each patch was also run ALONE by its
    author, whose summary line is in the seed's README.md); a red batch is re-run seed by seed."""
    sdir = os.path.join(HERE, "seeded")
    pending = {}
    for sid in sorted(os.listdir(sdir)):
        mp = os.path.join(sdir, sid, "meta.json")
        if os.path.exists(mp):
            meta = json.load(open(mp))
            if str(meta["confirmed"].get("existing_suite", "")).startswith("pending"):
                pending.setdefault(meta["base_commit"], []).append(sid)
    bn = 0
    for base, ids in pending.items():
        todo = list(ids)
        while todo:
            bn += 1
            wt = f"/tmp/sc-batch{bn}"
            sh(["git", "-C", "/repo", "worktree", "remove", "--force", wt])
            shutil.rmtree(wt, ignore_errors=True)
            sh(["git", "-C", "/repo", "worktree", "add", "--detach", wt, base])
            shutil.copy("/repo/Cargo.lock", wt)
            members, rest = [], []
            for sid in todo:
                pf = os.path.join(sdir, sid, "patch.diff")
                if len(members) < maxn and sh(["git", "-C", wt, "apply", pf]).returncode == 0:
                    members.append(sid)
                else:
                    rest.append(sid)
            if not members:
                print("cannot apply", todo, flush=True)
                break
            ok, summary = run_suite(wt)
            print(f"batch {bn} base {base} {members}: {'OK' if ok else 'FAILS'} {summary}", flush=True)
            sh(["git", "-C", "/repo", "worktree", "remove", "--force", wt])
            shutil.rmtree(wt, ignore_errors=True)
            if ok:
                for sid in members:
                    mp = os.path.join(sdir, sid, "meta.json")
                    meta = json.load(open(mp))
                    meta["confirmed"]["existing_suite"] = summary + f" (lead's run with this change applied together with {len(members) - 1} other seeded changes: {', '.join(m for m in members if m != sid)}; the author's run of this change alone is quoted in README.md)"
                    meta["confirmed"]["existing_suite_passes"] = True
                    json.dump(meta, open(mp, "w"), indent=1)
            else:
                suite_phase(members)
            todo = rest


def confirm(prop, n, outdir):
    sid = f"{prop}-{n}"
    patch = os.path.join(outdir, f"patch{n}.diff")
    demo = os.path.join(outdir, f"demo{n}.sh")
    res = {"id": sid, "property": prop, "base_commit": head()}
    if not (os.path.exists(patch) and os.path.exists(demo)):
        res["rejected"] = "patch or demo missing"
        return res
    wt = f"/tmp/sc-{sid}"
    sh(["git", "-C", "/repo", "worktree", "remove", "--force", wt])
    shutil.rmtree(wt, ignore_errors=True)
    sh(["git", "-C", "/repo", "worktree", "add", "--detach", wt])
    shutil.copy("/repo/Cargo.lock", wt)
    clean = CLEAN
    try:
        r = sh(["git", "-C", wt, "apply", patch])
        if r.returncode != 0:
            # the tree moved on (fix: commits landed) since the change was written: fall back to
            # the commit the sub-agent worked on
            seedwt = f"/tmp/seed-{prop}"
            base = sh(["git", "-C", seedwt, "rev-parse", "--short", "HEAD"]).stdout.strip() if os.path.isdir(seedwt) else ""
            if not base:
                res["rejected"] = "patch does not apply to current HEAD and the base commit is unknown: " + r.stdout[-200:]
                return res
            sh(["git", "-C", wt, "checkout", "-q", "--detach", base])
            r = sh(["git", "-C", wt, "apply", patch])
            if r.returncode != 0:
                res["rejected"] = "patch applies neither to HEAD nor to its base " + base + ": " + r.stdout[-200:]
                return res
            res["base_commit"] = base
            clean = "/tmp/sc-clean-" + base
            _ensure_clean(base, clean)
        r = sh(["cargo", "build", "--offline", "-p", "rsass-cli"], cwd=wt)
        if r.returncode != 0:
            res["rejected"] = "does not compile: " + r.stdout[-300:]
            return res
        os.chmod(demo, 0o755)
        rp = sh(["bash", demo, wt], cwd=outdir, timeout=5400)
        rc = sh(["bash", demo, clean], cwd=outdir, timeout=5400)
        res["demo_patched_rc"] = rp.returncode
        res["demo_clean_rc"] = rc.returncode
        res["demo_patched_tail"] = rp.stdout[-400:]
        if rp.returncode == 0 or rc.returncode != 0:
            res["rejected"] = f"demo does not discriminate (patched rc={rp.returncode}, clean rc={rc.returncode})"
            return res
        if NO_SUITE:
            res["suite"] = "pending (phase 2: tools/seedconfirm.py --suite)"
        else:
            ok, summary = run_suite(wt)
            res["suite"] = summary
            if not ok:
                res["rejected"] = "existing test suite does not pass with the change"
                return res
        # keep it
        d = os.path.join(HERE, "seeded", sid)
        os.makedirs(d, exist_ok=True)
        diff = sh(["git", "-C", wt, "diff"]).stdout
        open(os.path.join(d, "patch.diff"), "w").write(diff)
        shutil.copy(demo, os.path.join(d, "demo.sh"))
        readme = os.path.join(outdir, "README.md")
        if os.path.exists(readme):
            shutil.copy(readme, os.path.join(d, "README.md"))
        meta = {"id": sid, "property": prop, "patch": "patch.diff", "demo": "demo.sh",
                "base_commit": res["base_commit"],
                "applies_to_head_at_confirmation": res["base_commit"] == head(),
                "origin": "independent sub-agent given only the property text and a scratch worktree",
                "needs": "see README.md (section for patch %d)" % n,
                "confirmed": {"applies_and_compiles": True, "demo_fails_with_patch": True, "demo_passes_without": True,
                              "existing_suite": res["suite"],
                              "commands": ["git apply patch.diff", "cargo build --offline -p rsass-cli",
                                           "bash demo.sh <patched tree>  -> exit %d" % rp.returncode,
                                           "bash demo.sh <clean tree>    -> exit 0",
                                           "cargo nextest run --workspace --no-fail-fast --offline"]}}
        json.dump(meta, open(os.path.join(d, "meta.json"), "w"), indent=1)
        res["kept"] = True
        return res
    finally:
        sh(["git", "-C", "/repo", "worktree", "remove", "--force", wt])
        shutil.rmtree(wt, ignore_errors=True)


def main():
    global NO_SUITE
    args = sys.argv[1:]
    if args and args[0] == "--suite":
        return suite_phase(args[1:])
    if args and args[0] == "--suite-batch":
        return suite_batch_phase()
    if args and args[0] == "--no-suite":
        NO_SUITE = True
        args = args[1:]
    ensure_clean()
    for prop in args:
        outdir = f"/tmp/seed-{prop}-out"
        for n in (1, 2):
            if os.path.exists(os.path.join(HERE, "seeded", f"{prop}-{n}", "meta.json")):
                continue
            try:
                r = confirm(prop, n, outdir)
            except subprocess.TimeoutExpired as e:
                r = {"id": f"{prop}-{n}", "error": "timeout: " + str(e)[:200]}
            r.pop("demo_patched_tail", None); print(json.dumps(r), flush=True)


main()
