#!/usr/bin/env python3
"""Adds or updates one entry of /verif/known_findings.json under a file lock.
usage: kf_add.py --property C12 --id C12-numeq-asymmetric --flags numEqAsymmetric[,other]
                 --site 'rsass/src/value/number.rs PartialEq' --what 'short description'
                 --witness-file FILE   (file holding the single protocol line, tabs literal)
                 [--status open|fixed] [--commit SHA]
(--witness 'line with \\t escapes' is accepted too)"""
import argparse, fcntl, json, os
HERE = os.path.dirname(os.path.dirname(os.path.abspath(__file__)))
ap = argparse.ArgumentParser()
ap.add_argument("--property", required=True)
ap.add_argument("--id", required=True)
ap.add_argument("--flags", default="")
ap.add_argument("--site", required=True)
ap.add_argument("--what", required=True)
ap.add_argument("--witness")
ap.add_argument("--witness-file")
ap.add_argument("--status", default="open", choices=["open", "fixed"])
ap.add_argument("--commit")
a = ap.parse_args()
w = open(a.witness_file).read().rstrip("\n") if a.witness_file else a.witness.replace("\\t", "\t")
entry = {"id": a.id, "property": a.property, "status": a.status,
         "flags": [f for f in a.flags.split(",") if f], "site": a.site, "what": a.what, "witness": w}
if a.commit:
    entry["commit"] = a.commit
path = os.path.join(HERE, "known_findings.json")
os.makedirs(os.path.join(HERE, ".cache"), exist_ok=True)
with open(os.path.join(HERE, ".cache", "kf.lock"), "w") as lk:
    fcntl.flock(lk, fcntl.LOCK_EX)
    data = json.load(open(path))
    data["findings"] = [f for f in data["findings"] if f["id"] != a.id] + [entry]
    data["findings"].sort(key=lambda f: (f["property"], f["id"]))
    tmp = path + ".tmp"
    json.dump(data, open(tmp, "w"), indent=1, ensure_ascii=False)
    open(tmp, "a").write("\n")
    os.replace(tmp, path)
print("recorded", a.id)
