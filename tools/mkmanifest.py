#!/usr/bin/env python3
"""Writes MANIFEST.json from the property modules present in props/ (run by hand before a commit)."""
import importlib, json, os, subprocess, sys
HERE = os.path.dirname(os.path.dirname(os.path.abspath(__file__)))
sys.path.insert(0, HERE)
props = [json.loads(l) for l in open(os.path.join(HERE, "properties.jsonl"))]
checks, na = [], []
for p in props:
    pid = p["id"]
    tracked = subprocess.run(["git", "-C", HERE, "ls-files", "--error-unmatch", f"props/{pid}.py"],
                             capture_output=True).returncode == 0
    if not os.path.exists(os.path.join(HERE, "props", pid + ".py")) or ("--only-committed" in sys.argv and not tracked):
        na.append({"property_id": pid, "reason": "not claimed yet: model, theorems and correspondence for this property are planned (DESIGN.md section 7) but not built in this round"})
        continue
    m = importlib.import_module("props." + pid)
    if getattr(m, "NOT_CLAIMED", None):
        na.append({"property_id": pid, "reason": m.NOT_CLAIMED})
        continue
    checks.append({
        "property_id": pid,
        "quick_cmd": f"./check {pid} --tier quick",
        "thorough_cmd": f"./check {pid} --tier thorough",
        "evidence_file": f"/verif/evidence/{pid}.json",
        "replay_cmd_template": f"./check {pid} --replay {{path}}",
        "engine": "lean4-model+correspondence",
        "level_claimed": {"category": getattr(m, "LEVEL", "proof"), "text": m.LEVEL_TEXT,
                          "design_ref": getattr(m, "DESIGN_REF", f"DESIGN.md section 7, {pid}")},
        "level_note": m.LEVEL_NOTE,
        "technique": getattr(m, "TECHNIQUE", "Lean 4 theorems over a hand-written executable model + differential correspondence with the real code"),
    })
try:
    commits = subprocess.run(["git", "-C", "/repo", "log", "--format=%H %s", "--grep=^hook:"], capture_output=True, text=True).stdout.strip().split("\n")
    commits = [c.split()[0] for c in commits if c]
except Exception:
    commits = []
man = {
    "version": 1,
    "setup_cmd": "./setup.sh",
    "hooks": {
        "guard": "--cfg kaj_rsass_verif",
        "enable": "RUSTFLAGS='--cfg kaj_rsass_verif' via /verif/harness/.cargo/config.toml [build] rustflags; the harness crate has a path dependency on /repo/rsass and is rebuilt from /repo's working tree by every check",
        "baseline_off_cmd": "cd /repo && cargo nextest run --workspace --no-fail-fast --test-threads 8 --offline",
        "source_commits": commits,
        "add_only": True,
    },
    "engines": [{"name": "lean4-model+correspondence", "path": "/verif/lean, /verif/harness, /verif/tools/vlib.py",
                 "serves_properties": [c["property_id"] for c in checks],
                 "kind_free_text": "Lean 4 model + kernel-checked theorems per property (lean/RsassModel/Theorems), executable model drivers (lean_exe) run against the real rsass code through a Rust harness on generated cases; spec/as-is deviation flags tied to known_findings.json"}],
    "checks": checks,
    "not_applicable": na,
    "notes": "See DESIGN.md. exit 0 = held; exit 1 + VIOLATION line; exit 2 = machinery error (build failure). Known findings: known_findings.json.",
}
json.dump(man, open(os.path.join(HERE, "MANIFEST.json"), "w"), indent=1)
open(os.path.join(HERE, "MANIFEST.json"), "a").write("\n")
print(f"{len(checks)} checks, {len(na)} not claimed")
