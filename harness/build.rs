// Generates src/ops/mod.rs-equivalent dispatch from the files present in src/ops/,
// so that adding a property's op file needs no edit to a shared file.
use std::{env, fs, path::Path};
fn main() {
    let dir = Path::new("src/ops");
    let mut names: Vec<String> = fs::read_dir(dir)
        .unwrap()
        .filter_map(|e| e.ok())
        .filter_map(|e| {
            let n = e.file_name().into_string().ok()?;
            n.strip_suffix(".rs").map(str::to_string)
        })
        .filter(|n| n != "mod")
        .collect();
    names.sort();
    let mut out = String::new();
    let base = fs::canonicalize(dir).unwrap();
    for n in &names {
        out += &format!("#[path = \"{}/{}.rs\"] pub mod {};\n", base.display(), n, n);
    }
    out += "pub fn dispatch(op: &str, f: &[&str]) -> Option<String> {\n";
    for n in &names {
        out += &format!("    if let Some(r) = {n}::run(op, f) {{ return Some(r); }}\n");
    }
    out += "    None\n}\n";
    let dest = Path::new(&env::var("OUT_DIR").unwrap()).join("ops_gen.rs");
    fs::write(dest, out).unwrap();
    println!("cargo:rerun-if-changed=src/ops");
    println!("cargo:rustc-check-cfg=cfg(kaj_rsass_verif)");
    // Does the rsass tree we build against have the provided trait method
    // `Loader::find_first` (commit 31d0dab)?  Older trees (self-tests, seeded changes) do not;
    // the in-memory loaders override it only when it exists.
    println!("cargo:rustc-check-cfg=cfg(rsass_has_find_first)");
    println!("cargo:rerun-if-changed=Cargo.toml");
    if let Some(rsass) = rsass_path() {
        let loader = Path::new(&rsass).join("src/input/loader.rs");
        println!("cargo:rerun-if-changed={}", loader.display());
        if fs::read_to_string(&loader).is_ok_and(|t| t.contains("fn find_first")) {
            println!("cargo:rustc-cfg=rsass_has_find_first");
        }
    }
}

/// the `path` of the `rsass = { path = "…" }` dependency in this crate's Cargo.toml
fn rsass_path() -> Option<String> {
    let toml = fs::read_to_string("Cargo.toml").ok()?;
    let line = toml.lines().find(|l| l.trim_start().starts_with("rsass") && l.contains("path"))?;
    let rest = &line[line.find("path")?..];
    let start = rest.find('"')? + 1;
    let end = start + rest[start..].find('"')?;
    Some(rest[start..end].to_string())
}
