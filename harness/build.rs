// Generates src/ops/mod.rs-equivalent dispatch from the files present in src/ops/,
// so that adding a property's op file needs no edit to a shared file.
use std::{env, fs, path::Path};
fn main() {
    let dir = Path::new("src/ops");
    let mut names: Vec<String> = fs::read_dir(dir)
        .unwrap()
        .filter_map(|e| e.ok())
        .filter_map(|e| {
            let n = e.file_name().into_string().ok()?;
            n.strip_suffix(".rs").map(str::to_string)
        })
        .filter(|n| n != "mod")
        .collect();
    names.sort();
    let mut out = String::new();
    let base = fs::canonicalize(dir).unwrap();
    for n in &names {
        out += &format!("#[path = \"{}/{}.rs\"] pub mod {};\n", base.display(), n, n);
    }
    out += "pub fn dispatch(op: &str, f: &[&str]) -> Option<String> {\n";
    for n in &names {
        out += &format!("    if let Some(r) = {n}::run(op, f) {{ return Some(r); }}\n");
    }
    out += "    None\n}\n";
    let dest = Path::new(&env::var("OUT_DIR").unwrap()).join("ops_gen.rs");
    fs::write(dest, out).unwrap();
    println!("cargo:rerun-if-changed=src/ops");
    println!("cargo:rustc-check-cfg=cfg(kaj_rsass_verif)");
}
