//! Shared helpers for the correspondence harness: hex protocol fields, an in-memory
//! `Loader` that records every `find_file` call (and can inject faults), and one
//! function that runs a whole compilation through the public API.
#![allow(dead_code)]
use rsass::input::{Context, LoadError, Loader, SourceFile, SourceName};
use rsass::output::{Format, Style};
use std::collections::BTreeMap;
use std::io::{self, Cursor, Read};
use std::sync::{Arc, Mutex};

pub fn hex(b: &[u8]) -> String {
    let mut s = String::with_capacity(b.len() * 2);
    for x in b {
        s.push_str(&format!("{x:02x}"));
    }
    s
}

pub fn unhex(s: &str) -> Vec<u8> {
    let b = s.as_bytes();
    let mut out = Vec::with_capacity(b.len() / 2);
    let v = |c: u8| -> u8 {
        match c {
            b'0'..=b'9' => c - b'0',
            b'a'..=b'f' => c - b'a' + 10,
            b'A'..=b'F' => c - b'A' + 10,
            _ => 0,
        }
    };
    let mut i = 0;
    while i + 1 < b.len() {
        out.push(v(b[i]) * 16 + v(b[i + 1]));
        i += 2;
    }
    out
}

pub fn unhex_str(s: &str) -> String {
    String::from_utf8_lossy(&unhex(s)).into_owned()
}

pub fn parse_style(s: &str) -> Style {
    match s {
        "c" | "compressed" => Style::Compressed,
        "i" | "introspection" => Style::Introspection,
        _ => Style::Expanded,
    }
}

pub fn format(style: &str, precision: &str) -> Format {
    Format {
        style: parse_style(style),
        precision: precision.parse().unwrap_or(10),
    }
}

/// What kind of fault to inject at a given loader-call index.
#[derive(Clone, Copy, Debug, PartialEq)]
pub enum Fault {
    /// `find_file` returns `Err(LoadError::Input(..))`.
    Lookup,
    /// `find_file` succeeds but the returned reader fails on first `read`.
    Read,
}

#[derive(Debug, Default)]
pub struct LoaderLog {
    /// every url `find_file` was asked for, in order
    pub calls: Vec<String>,
    /// for each call, whether a file was returned
    pub hits: Vec<bool>,
}

#[derive(Debug, Clone)]
pub struct MemLoader {
    pub files: Arc<BTreeMap<String, Vec<u8>>>,
    /// load paths: each is a directory prefix ("" or ending in '/') tried in order,
    /// mirroring FsLoader (first entry is normally the importer's base directory).
    pub roots: Vec<String>,
    pub log: Arc<Mutex<LoaderLog>>,
    /// call index -> fault
    pub faults: Arc<BTreeMap<usize, Fault>>,
}

pub struct MemFile {
    data: Cursor<Vec<u8>>,
    fail: bool,
}
impl Read for MemFile {
    fn read(&mut self, buf: &mut [u8]) -> io::Result<usize> {
        if self.fail {
            Err(io::Error::other("injected read fault"))
        } else {
            self.data.read(buf)
        }
    }
}

impl MemLoader {
    pub fn new(files: BTreeMap<String, Vec<u8>>) -> Self {
        Self {
            files: Arc::new(files),
            roots: vec![String::new()],
            log: Default::default(),
            faults: Default::default(),
        }
    }
    pub fn with_roots(mut self, roots: Vec<String>) -> Self {
        self.roots = roots;
        self
    }
    pub fn with_faults(mut self, faults: BTreeMap<usize, Fault>) -> Self {
        self.faults = Arc::new(faults);
        self
    }
    pub fn calls(&self) -> Vec<String> {
        self.log.lock().unwrap().calls.clone()
    }
}

impl Loader for MemLoader {
    type File = MemFile;
    fn find_file(&self, url: &str) -> Result<Option<MemFile>, LoadError> {
        let idx = {
            let mut log = self.log.lock().unwrap();
            log.calls.push(url.to_string());
            log.hits.push(false);
            log.calls.len() - 1
        };
        let fault = self.faults.get(&idx).copied();
        if fault == Some(Fault::Lookup) {
            return Err(LoadError::Input(
                url.to_string(),
                io::Error::other("injected lookup fault"),
            ));
        }
        if url.is_empty() {
            return Ok(None);
        }
        for root in &self.roots {
            let full = format!("{root}{url}");
            if let Some(data) = self.files.get(&full) {
                self.log.lock().unwrap().hits[idx] = true;
                return Ok(Some(MemFile {
                    data: Cursor::new(data.clone()),
                    fail: fault == Some(Fault::Read),
                }));
            }
        }
        Ok(None)
    }

    /// Mirrors `FsLoader::find_first` (rsass commit 31d0dab): every name in one root before
    /// the next root.  Each (root, name) probe is one entry of the call log (logged as the
    /// name), so with the usual single root the log is what it was with `find_file`.
    #[cfg(rsass_has_find_first)]
    fn find_first(
        &self,
        urls: &[String],
    ) -> Result<Option<(usize, MemFile)>, LoadError> {
        for root in &self.roots {
            for (i, url) in urls.iter().enumerate() {
                if let Some(f) = self.probe(root, url)? {
                    return Ok(Some((i, f)));
                }
            }
        }
        Ok(None)
    }
}

impl MemLoader {
    /// one probe of `url` under one root; `idx` = its position in the call log
    fn probe(&self, root: &str, url: &str) -> Result<Option<MemFile>, LoadError> {
        let idx = {
            let mut log = self.log.lock().unwrap();
            log.calls.push(url.to_string());
            log.hits.push(false);
            log.calls.len() - 1
        };
        let fault = self.faults.get(&idx).copied();
        if fault == Some(Fault::Lookup) {
            return Err(LoadError::Input(
                url.to_string(),
                io::Error::other("injected lookup fault"),
            ));
        }
        if url.is_empty() {
            return Ok(None);
        }
        if let Some(data) = self.files.get(&format!("{root}{url}")) {
            self.log.lock().unwrap().hits[idx] = true;
            return Ok(Some(MemFile {
                data: Cursor::new(data.clone()),
                fail: fault == Some(Fault::Read),
            }));
        }
        Ok(None)
    }
}

/// `name:hex,name:hex` (names are plain ASCII paths without ',' or ':')
pub fn parse_files(s: &str) -> BTreeMap<String, Vec<u8>> {
    let mut m = BTreeMap::new();
    for part in s.split(',') {
        if part.is_empty() {
            continue;
        }
        if let Some((n, h)) = part.split_once(':') {
            m.insert(n.to_string(), unhex(h));
        }
    }
    m
}

pub enum Outcome {
    Ok(Vec<u8>),
    Err(String),
}

impl Outcome {
    /// canonical protocol text: `ok:<hex>` or `err:<hex of message>`
    pub fn line(&self) -> String {
        match self {
            Outcome::Ok(b) => format!("ok:{}", hex(b)),
            Outcome::Err(m) => format!("err:{}", hex(m.as_bytes())),
        }
    }
    pub fn class(&self) -> &'static str {
        match self {
            Outcome::Ok(_) => "ok",
            Outcome::Err(_) => "err",
        }
    }
}

/// Compile `src` (format "scss" or "css") named `name` with an in-memory loader.
pub fn compile_mem(
    srcfmt: &str,
    fmt: Format,
    name: &str,
    src: &[u8],
    loader: MemLoader,
) -> Outcome {
    let source = if srcfmt == "css" {
        SourceFile::css_bytes(src.to_vec(), SourceName::root(name))
    } else {
        SourceFile::scss_bytes(src.to_vec(), SourceName::root(name))
    };
    let ctx = Context::for_loader(loader).with_format(fmt);
    match ctx.transform(source) {
        Ok(b) => Outcome::Ok(b),
        Err(e) => Outcome::Err(e.to_string()),
    }
}

/// Compile a stand-alone SCSS string; no files are reachable.
pub fn compile_str(src: &str, fmt: Format) -> Outcome {
    compile_mem(
        "scss",
        fmt,
        "input.scss",
        src.as_bytes(),
        MemLoader::new(BTreeMap::new()),
    )
}

/// Evaluate one SassScript expression through a compiled declaration and return the
/// emitted value text (`a{b:<expr>}` in expanded style), or the error.
pub fn eval_expr(expr: &str, fmt: Format) -> Outcome {
    match compile_str(&format!("a{{b:{expr}}}\n"), fmt) {
        Outcome::Ok(b) => {
            let s = String::from_utf8_lossy(&b).into_owned();
            // expanded: "a {\n  b: VALUE;\n}\n"; compressed: "a{b:VALUE}\n"
            let v = if let Some(p) = s.find("b:") {
                let rest = &s[p + 2..];
                let rest = rest.strip_prefix(' ').unwrap_or(rest);
                let end = rest
                    .rfind(";\n}")
                    .or_else(|| rest.rfind('}'))
                    .unwrap_or(rest.len());
                rest[..end].to_string()
            } else {
                // declaration dropped (e.g. null value)
                String::from("\u{0}none")
            };
            Outcome::Ok(v.into_bytes())
        }
        e => e,
    }
}
