//! Line-protocol harness: one tab-separated case per stdin line, one result line per
//! case on stdout (flushed), calling the real rsass code in-process.
//!
//! A panic inside a case is caught and reported as `panic:<hex message @ location>`.
//! A stack overflow or abort kills the process; the Python supervisor attributes it
//! to the first case without an output line and restarts with `--skip`.
mod util;
mod ops {
    include!(concat!(env!("OUT_DIR"), "/ops_gen.rs"));
}

use std::io::{self, BufRead, Write};
use std::panic;
use std::sync::Mutex;

static LAST_PANIC: Mutex<String> = Mutex::new(String::new());

fn run_all(skip: usize) {
    let stdin = io::stdin();
    let stdout = io::stdout();
    let mut out = stdout.lock();
    for (i, line) in stdin.lock().lines().enumerate() {
        let Ok(line) = line else { break };
        if i < skip {
            continue;
        }
        let line = line.trim_end_matches(['\r', '\n']);
        let fields: Vec<&str> = line.split('\t').collect();
        let op = fields[0];
        let res = panic::catch_unwind(|| ops::dispatch(op, &fields[1..]));
        let text = match res {
            Ok(Some(s)) => s,
            Ok(None) => "bad-op".to_string(),
            Err(_) => {
                let m = LAST_PANIC.lock().map(|m| m.clone()).unwrap_or_default();
                format!("panic:{}", util::hex(m.as_bytes()))
            }
        };
        let _ = writeln!(out, "{text}");
        let _ = out.flush();
    }
}

fn main() {
    let mut skip = 0usize;
    let args: Vec<String> = std::env::args().collect();
    let mut i = 1;
    while i < args.len() {
        if args[i] == "--skip" && i + 1 < args.len() {
            skip = args[i + 1].parse().unwrap_or(0);
            i += 1;
        }
        i += 1;
    }
    panic::set_hook(Box::new(|info| {
        let loc = info
            .location()
            .map(|l| format!("{}:{}", l.file(), l.line()))
            .unwrap_or_default();
        let msg = if let Some(s) = info.payload().downcast_ref::<&str>() {
            (*s).to_string()
        } else if let Some(s) = info.payload().downcast_ref::<String>() {
            s.clone()
        } else {
            String::from("?")
        };
        if let Ok(mut m) = LAST_PANIC.lock() {
            *m = format!("{msg} @ {loc}");
        }
    }));
    // The property bounds (C01) are stated for an 8 MiB stack.
    let t = std::thread::Builder::new()
        .stack_size(8 * 1024 * 1024)
        .spawn(move || run_all(skip))
        .expect("spawn");
    let _ = t.join();
}
