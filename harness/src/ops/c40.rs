//! C40: what the *library* gives, in-process, for the files/format/load path of one CLI
//! invocation (the CLI binary itself is run by `props/C40.py`).
//!
//! `c40 <style e|c> <precision> <load path or -> <dir> <files name:hex,..> <inputs a,b,..> [ignored..]`
//!   `dir` must be a directory name directly under `/verif/.cache/` starting with `c40-`;
//!   it is created, filled with `files`, used and removed again.  For every input, exactly
//!   the calls of `rsass-cli/src/main.rs` `Args::run` are made:
//!   `FsContext::for_path(dir/input)`, `push_path(dir/loadpath)`, `with_format`, `transform`.
//!   -> results joined by `;`, each `ok:<hex css>` | `err:<hex of the error's Display>` | `panic`;
//!      like the loop of `Args::run`, nothing is compiled after the first failure
use crate::util::*;
use rsass::input::FsContext;
use std::path::{Path, PathBuf};

fn one(path: &Path, lp: Option<&Path>, fmt: rsass::output::Format) -> String {
    let r = (|| -> Result<Vec<u8>, rsass::Error> {
        let (mut context, source) = FsContext::for_path(path)?;
        if let Some(lp) = lp {
            context.push_path(lp);
        }
        context.with_format(fmt).transform(source)
    })();
    match r {
        Ok(b) => Outcome::Ok(b).line(),
        Err(e) => Outcome::Err(e.to_string()).line(),
    }
}

pub fn run(op: &str, f: &[&str]) -> Option<String> {
    if op != "c40" {
        return None;
    }
    if f.len() < 6 {
        return Some("bad-args".into());
    }
    let fmt = format(f[0], f[1]);
    let dname = f[3];
    if !dname.starts_with("c40-")
        || dname.contains('/')
        || dname.contains("..")
    {
        return Some("bad-args".into());
    }
    let dir = PathBuf::from("/verif/.cache").join(dname);
    // one scratch tree at a time (the same directory name may be replayed by another check)
    let lock = std::fs::File::create("/verif/.cache/c40-scratch.lock").ok();
    if let Some(l) = &lock {
        let _ = l.lock();
    }
    let mut infra = None;
    for (name, data) in parse_files(f[4]) {
        let p = dir.join(&name);
        if let Some(parent) = p.parent() {
            if let Err(e) = std::fs::create_dir_all(parent) {
                infra = Some(e.to_string());
            }
        }
        if let Err(e) = std::fs::write(&p, data) {
            infra = Some(e.to_string());
        }
    }
    let _ = std::fs::create_dir_all(&dir);
    let lp = if f[2] == "-" {
        None
    } else {
        Some(dir.join(f[2]))
    };
    let out = if let Some(e) = infra {
        format!("infra:{}", hex(e.as_bytes()))
    } else {
        // like `Args::run`: inputs in order, nothing after the first failure
        let mut results = Vec::new();
        for i in f[5].split(',').filter(|s| !s.is_empty()) {
            let path = dir.join(i);
            let lp = lp.clone();
            let r = std::panic::catch_unwind(move || {
                one(&path, lp.as_deref(), fmt)
            })
            .unwrap_or_else(|_| "panic".to_string());
            let ok = r.starts_with("ok:");
            results.push(r);
            if !ok {
                break;
            }
        }
        results.join(";")
    };
    let _ = std::fs::remove_dir_all(&dir);
    drop(lock);
    Some(out)
}
