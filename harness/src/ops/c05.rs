//! C05: histories of compilations inside ONE process.
//!
//! `history <mode> <threads> <style e|c> <model term, ignored here> <hex scss>...`
//!   mode `seq`: the sources are compiled one after the other on this thread;
//!   mode `par`: `threads` OS threads start together, each compiles ALL sources (thread t
//!               starts at source t and wraps around), so every source is compiled
//!               `threads` times while other compilations run;
//!   answer: one field per source, tab separated: `ok:<hex css>` | `err:<hex message>` |
//!           `panic` | `DIFF:<result a>|<result b>` when two compilations of the same source
//!           inside this history gave different results.
//! The Python side compares each field with the same source compiled alone in a fresh process.
use crate::util::*;
use std::panic;

fn one(src: &[u8], style: &str) -> String {
    let src = String::from_utf8_lossy(src).into_owned();
    let fmt = format(style, "10");
    match panic::catch_unwind(move || compile_str(&src, fmt).line()) {
        Ok(l) => l,
        Err(_) => "panic".to_string(),
    }
}

pub fn run(op: &str, f: &[&str]) -> Option<String> {
    match op {
        "history" => {
            let mode = *f.first()?;
            let threads: usize = f.get(1)?.parse().ok()?;
            let style = *f.get(2)?;
            let srcs: Vec<Vec<u8>> = f.iter().skip(4).map(|h| unhex(h)).collect();
            let n = srcs.len();
            if mode == "seq" || threads <= 1 || n == 0 {
                let out: Vec<String> = srcs.iter().map(|s| one(s, style)).collect();
                return Some(out.join("\t"));
            }
            let barrier = std::sync::Barrier::new(threads);
            let all: Vec<Vec<String>> = std::thread::scope(|sc| {
                let hs: Vec<_> = (0..threads)
                    .map(|t| {
                        let (srcs, barrier) = (&srcs, &barrier);
                        std::thread::Builder::new()
                            .stack_size(8 * 1024 * 1024)
                            .spawn_scoped(sc, move || {
                                let mut res = vec![String::new(); n];
                                barrier.wait();
                                for k in 0..n {
                                    let i = (t + k) % n;
                                    res[i] = one(&srcs[i], style);
                                    if (k + t) % 5 == 0 {
                                        std::thread::yield_now();
                                    }
                                }
                                res
                            })
                            .expect("spawn")
                    })
                    .collect();
                hs.into_iter()
                    .map(|h| h.join().unwrap_or_else(|_| vec!["panic".to_string(); n]))
                    .collect()
            });
            let mut out = Vec::with_capacity(n);
            for i in 0..n {
                let first = &all[0][i];
                match all.iter().find(|r| &r[i] != first) {
                    None => out.push(first.clone()),
                    Some(other) => out.push(format!("DIFF:{}|{}", first, other[i])),
                }
            }
            Some(out.join("\t"))
        }
        _ => None,
    }
}
