//! C38: the three library entry points of `rsass/src/lib.rs`, all in-process.
//!
//! `c38s <style> <precision> <hex scss>`
//!     -> `<compile_scss>\t<FsContext::for_cwd().with_format().transform(scss_bytes(.., root("-")))>\t<compile_scss_path(scratch file)>`
//!        each `ok:<hex css>` | `err:<hex message>`.  The scratch file is
//!        `/verif/.cache/c38-<pid>/in<n>.scss`; file and directory are removed again.
//! `c38v <style> <precision> <hex value> [<hex expected value text>]`
//!     -> `<compile_value(value)>\t<compile_scss("x { y: <value> }")>`
//!        (the optional 4th field is only read by the Lean model)
use crate::util::*;
use rsass::input::{FsContext, SourceFile, SourceName};
use std::path::PathBuf;
use std::sync::atomic::{AtomicUsize, Ordering};

static COUNTER: AtomicUsize = AtomicUsize::new(0);

fn res(r: Result<Vec<u8>, rsass::Error>) -> String {
    match r {
        Ok(b) => Outcome::Ok(b).line(),
        Err(e) => Outcome::Err(e.to_string()).line(),
    }
}

pub fn run(op: &str, f: &[&str]) -> Option<String> {
    match op {
        "c38s" => {
            if f.len() < 3 {
                return Some("bad-args".into());
            }
            let fmt = format(f[0], f[1]);
            let src = unhex(f[2]);
            let a = res(rsass::compile_scss(&src, fmt));
            let b = res(FsContext::for_cwd().with_format(fmt).transform(
                SourceFile::scss_bytes(src.clone(), SourceName::root("-")),
            ));
            let dir = PathBuf::from(format!(
                "/verif/.cache/c38-{}",
                std::process::id()
            ));
            let n = COUNTER.fetch_add(1, Ordering::SeqCst);
            let path = dir.join(format!("in{n}.scss"));
            let c = match std::fs::create_dir_all(&dir)
                .and_then(|()| std::fs::write(&path, &src))
            {
                Ok(()) => res(rsass::compile_scss_path(&path, fmt)),
                Err(e) => format!("infra:{}", hex(e.to_string().as_bytes())),
            };
            let _ = std::fs::remove_file(&path);
            let _ = std::fs::remove_dir(&dir);
            Some(format!("{a}\t{b}\t{c}"))
        }
        "c38v" => {
            if f.len() < 3 {
                return Some("bad-args".into());
            }
            let fmt = format(f[0], f[1]);
            let v = unhex(f[2]);
            let a = res(rsass::compile_value(&v, fmt));
            let mut src = b"x { y: ".to_vec();
            src.extend_from_slice(&v);
            src.extend_from_slice(b" }");
            let b = res(rsass::compile_scss(&src, fmt));
            Some(format!("{a}\t{b}"))
        }
        _ => None,
    }
}
