//! C14: `logic <conv> <pool term> <expr term> <hex scss>` — compiles the SassScript program
//! (last field; the term fields are for the Lean model): `ok:<hex css>` | `err:<hex message>`.
use crate::util::*;

pub fn run(op: &str, f: &[&str]) -> Option<String> {
    match op {
        "logic" => {
            let src = unhex_str(f.get(3)?);
            Some(compile_str(&src, format("e", "10")).line())
        }
        _ => None,
    }
}
