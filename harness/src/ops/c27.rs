//! C27: string escaping/quoting through compiled declarations.
//! `strlit <d|s> <hex content>`  the literal `"content"` (d) or `'content'` (s):
//!     -> `ok:<hex text of the emitted value>\t<hex text of str-length>\t<hex text of the value
//!         interpolated into a quoted string "#{…}">\t<hex text of quote(unquote(…))>\t<hex text of
//!         unquote(…)>` | `err:<hex message>`
//! Each of the five observations comes from its own declaration of one compiled rule.
use crate::util::*;

fn decl<'a>(css: &'a str, name: &str) -> Option<&'a str> {
    let key = format!("\n  {name}: ");
    let p = css.find(&key)? + key.len();
    let rest = &css[p..];
    // declarations end with ";\n" followed by the next declaration or the closing brace
    let mut end = None;
    let mut from = 0;
    while let Some(i) = rest[from..].find(";\n") {
        let at = from + i;
        let tail = &rest[at + 2..];
        if tail.starts_with("  ") || tail.starts_with('}') {
            end = Some(at);
            break;
        }
        from = at + 2;
    }
    Some(&rest[..end?])
}

pub fn run(op: &str, f: &[&str]) -> Option<String> {
    if op != "strlit" {
        return None;
    }
    if f.len() < 2 {
        return Some("bad-args".into());
    }
    let q = if f[0] == "s" { '\'' } else { '"' };
    let lit = format!("{q}{}{q}", unhex_str(f[1]));
    let src = format!(
        "a{{\n v: {lit};\n l: str-length({lit});\n i: \"#{{{lit}}}\";\n r: quote(unquote({lit}));\n u: unquote({lit});\n}}\n"
    );
    match compile_str(&src, format("e", "10")) {
        Outcome::Ok(b) => {
            let css = String::from_utf8_lossy(&b).into_owned();
            let get = |n: &str| {
                hex(decl(&css, n).unwrap_or("\u{0}none").as_bytes())
            };
            Some(format!(
                "ok:{}\t{}\t{}\t{}\t{}",
                get("v"),
                get("l"),
                get("i"),
                get("r"),
                get("u")
            ))
        }
        Outcome::Err(m) => Some(format!("err:{}", hex(m.as_bytes()))),
    }
}
