//! C35: `c35name <hex a> <hex b>` -> `<hex of Name::from(a).to_string()>:<1|0 Name::from(a) == Name::from(b)>`
//! (the public `rsass::sass::Name`, sass/name.rs).
use crate::util::*;
use rsass::sass::Name;

pub fn run(op: &str, f: &[&str]) -> Option<String> {
    if op != "c35name" {
        return None;
    }
    if f.len() < 2 {
        return Some("bad-args".into());
    }
    let a = Name::from(unhex_str(f[0]).as_str());
    let b = Name::from(unhex_str(f[1]));
    Some(format!(
        "{}:{}",
        hex(a.to_string().as_bytes()),
        if a == b { 1 } else { 0 }
    ))
}
