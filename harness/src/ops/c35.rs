//! C35: `c35pair …` (see `pair`), `c35name <hex a> <hex b>` -> `<hex of Name::from(a).to_string()>:<1|0 Name::from(a) == Name::from(b)>`
//! (the public `rsass::sass::Name`, sass/name.rs).
use crate::util::*;
use rsass::sass::Name;

/// `c35pair <style> <precision> <hex original> <hex rewritten> [<files of the rewritten source>]`
/// -> `<result of the original>\t<result of the rewritten source>` (each `ok:<hex>` | `err:<hex>` | `panic`)
fn pair(f: &[&str]) -> Option<String> {
    if f.len() < 4 {
        return Some("bad-args".into());
    }
    let fmt = format(f[0], f[1]);
    let one = |src: Vec<u8>, files: &str| {
        let loader = MemLoader::new(parse_files(files));
        std::panic::catch_unwind(move || {
            compile_mem("scss", fmt, "in.scss", &src, loader).line()
        })
        .unwrap_or_else(|_| "panic".to_string())
    };
    let a = one(unhex(f[2]), "");
    let b = one(unhex(f[3]), f.get(4).copied().unwrap_or(""));
    Some(format!("{a}\t{b}"))
}

pub fn run(op: &str, f: &[&str]) -> Option<String> {
    if op == "c35pair" {
        return pair(f);
    }
    if op != "c35name" {
        return None;
    }
    if f.len() < 2 {
        return Some("bad-args".into());
    }
    let a = Name::from(unhex_str(f[0]).as_str());
    let b = Name::from(unhex_str(f[1]));
    Some(format!(
        "{}:{}",
        hex(a.to_string().as_bytes()),
        if a == b { 1 } else { 0 }
    ))
}
