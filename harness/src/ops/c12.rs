//! C12 (and value terms shared with C13/C14).
//!
//! `veq <termA> <termB> <conv>` — builds both `css::Value`s through the public API (numbers
//!     from exact f64 bit patterns) and answers with 12 characters, the results of
//!     `Operator::{Equal,NotEqual,Lesser,Greater,LesserE,GreaterE}.eval`:
//!     eq(a,b) eq(b,a) ne(a,b) ne(b,a) eq(a,a) eq(b,b) lt(a,b) gt(a,b) le(a,b) ge(a,b) lt(b,a) gt(b,a)
//!     each `T`/`F`, `N` (`Ok(None)`: left unevaluated), `E` (error), `?` (other value).
//! `seq <termA> <termB> <conv> <hex textA> <hex textB>` — the same 12 results obtained by
//!     compiling `$a: A; $b: B; x{y: $a == $b}` … one compilation per operator.
//! `numeq <bitsA> <bitsB>` — `Number == Number` both ways and `Number::partial_cmp` both ways.
//! `c12scale <unit id from> <unit id to>` — f64 bits of the conversion factor
//!     (`Numeric::new(1, from).as_unitset(to)`), or `none`.
//!
//! Term syntax: see lean/RsassModel/Value/Term.lean.
use crate::util::*;
use rsass::css::{CallArgs, CssString, Value, ValueMap};
use rsass::sass::{Function, Name};
use rsass::value::{
    ListSeparator, Number, Numeric, Operator, Quotes, RgbFormat, Rgba, Unit,
    UnitSet,
};
use std::cmp::Ordering;

pub const BUILTIN_FNS: [&str; 6] =
    ["red", "green", "blue", "lighten", "darken", "percentage"];

pub fn unit_of(id: u32) -> UnitSet {
    let u = match id {
        0 => return UnitSet::scalar(),
        1 => Unit::Px,
        2 => Unit::In,
        3 => Unit::Cm,
        4 => Unit::Mm,
        5 => Unit::Pt,
        6 => Unit::Pc,
        7 => Unit::Q,
        8 => Unit::Deg,
        9 => Unit::Rad,
        10 => Unit::Grad,
        11 => Unit::Turn,
        12 => Unit::S,
        13 => Unit::Ms,
        14 => Unit::Hz,
        15 => Unit::Khz,
        16 => Unit::Em,
        17 => Unit::Rem,
        18 => Unit::Percent,
        19 => Unit::Dpi,
        20 => Unit::Dppx,
        n => Unit::Unknown(format!("u{n}")),
    };
    u.into()
}

fn f64_of(tok: &str) -> Option<f64> {
    Some(f64::from_bits(tok.parse::<u64>().ok()?))
}

/// Parses one term from the token stream.
pub fn parse_term<'a>(t: &mut std::slice::Iter<'a, &'a str>) -> Option<Value> {
    let head = *t.next()?;
    Some(match head {
        "null" => Value::Null,
        "true" => Value::True,
        "false" => Value::False,
        "n" => {
            let x = f64_of(t.next()?)?;
            let u: u32 = t.next()?.parse().ok()?;
            Value::Numeric(Numeric::new(x, unit_of(u)), true)
        }
        "na" => {
            let x = f64_of(t.next()?)?;
            let u: u32 = t.next()?.parse().ok()?;
            Value::Numeric(Numeric::new(x, unit_of(u)), false)
        }
        "s" => {
            let q = match *t.next()? {
                "n" => Quotes::None,
                "d" => Quotes::Double,
                "s" => Quotes::Single,
                _ => return None,
            };
            let h = *t.next()?;
            let s = if h == "-" { String::new() } else { unhex_str(h) };
            Value::Literal(CssString::new(s, q))
        }
        "c" => {
            let r = f64_of(t.next()?)?;
            let g = f64_of(t.next()?)?;
            let b = f64_of(t.next()?)?;
            let a = f64_of(t.next()?)?;
            Value::Color(Rgba::new(r, g, b, a, RgbFormat::Rgb).into(), None)
        }
        "f" => {
            let i: usize = t.next()?.parse().ok()?;
            let name = BUILTIN_FNS.get(i)?;
            Value::Function(
                name.to_string(),
                Function::get_builtin(&Name::from(*name)).cloned(),
            )
        }
        "l" => {
            let sep = match *t.next()? {
                "u" => None,
                "s" => Some(ListSeparator::Space),
                "c" => Some(ListSeparator::Comma),
                "/" => Some(ListSeparator::Slash),
                "x" => Some(ListSeparator::SlashNoSpace),
                _ => return None,
            };
            let br = *t.next()? == "1";
            let n: usize = t.next()?.parse().ok()?;
            let mut v = Vec::new();
            for _ in 0..n {
                v.push(parse_term(t)?);
            }
            Value::List(v, sep, br)
        }
        "m" => {
            let n: usize = t.next()?.parse().ok()?;
            let mut v = Vec::new();
            for _ in 0..n {
                let k = parse_term(t)?;
                let val = parse_term(t)?;
                v.push((k, val));
            }
            Value::Map(v.into_iter().collect::<ValueMap>())
        }
        "a" => {
            let n: usize = t.next()?.parse().ok()?;
            let mut v = Vec::new();
            for _ in 0..n {
                v.push(parse_term(t)?);
            }
            Value::ArgList(
                CallArgs::from_value(Value::List(
                    v,
                    Some(ListSeparator::Comma),
                    false,
                ))
                .ok()?,
            )
        }
        "N" => Value::UnaryOp(Operator::Not, Box::new(parse_term(t)?)),
        _ => return None,
    })
}

pub fn term(field: &str) -> Option<Value> {
    let toks: Vec<&str> = field.split(' ').collect();
    let mut it = toks.iter();
    let v = parse_term(&mut it)?;
    if it.next().is_some() {
        return None;
    }
    Some(v)
}

fn res_char(op: Operator, a: &Value, b: &Value) -> char {
    match op.eval(a.clone(), b.clone()) {
        Ok(Some(Value::True)) => 'T',
        Ok(Some(Value::False)) => 'F',
        Ok(Some(_)) => '?',
        Ok(None) => 'N',
        Err(_) => 'E',
    }
}

const PRELUDE: &str = "@use \"sass:math\";@use \"sass:map\";@use \"sass:meta\";@use \"sass:list\";\
@function al($x...){@return $x}\n";

fn scss_char(a: &str, b: &str, expr: &str) -> char {
    let src = format!("{PRELUDE}$a: {a};\n$b: {b};\nx{{y: {expr}}}\n");
    match compile_str(&src, format("e", "10")) {
        Outcome::Ok(out) => {
            let s = String::from_utf8_lossy(&out);
            if s.contains("y: true;") {
                'T'
            } else if s.contains("y: false;") {
                'F'
            } else {
                'N'
            }
        }
        Outcome::Err(_) => 'E',
    }
}

fn ord_char(o: Option<Ordering>) -> char {
    match o {
        Some(Ordering::Less) => '<',
        Some(Ordering::Equal) => '=',
        Some(Ordering::Greater) => '>',
        None => '?',
    }
}

pub fn run(op: &str, f: &[&str]) -> Option<String> {
    match op {
        "veq" => {
            let (Some(a), Some(b)) = (term(f.first()?), term(f.get(1)?)) else {
                return Some("bad-args".into());
            };
            use Operator::*;
            let r: String = [
                res_char(Equal, &a, &b),
                res_char(Equal, &b, &a),
                res_char(NotEqual, &a, &b),
                res_char(NotEqual, &b, &a),
                res_char(Equal, &a, &a),
                res_char(Equal, &b, &b),
                res_char(Lesser, &a, &b),
                res_char(Greater, &a, &b),
                res_char(LesserE, &a, &b),
                res_char(GreaterE, &a, &b),
                res_char(Lesser, &b, &a),
                res_char(Greater, &b, &a),
            ]
            .iter()
            .collect();
            Some(r)
        }
        "seq" | "seqi" => {
            let a = unhex_str(f.get(3)?);
            let b = unhex_str(f.get(4)?);
            let r: String = [
                "$a == $b", "$b == $a", "$a != $b", "$b != $a", "$a == $a",
                "$b == $b", "$a < $b", "$a > $b", "$a <= $b", "$a >= $b",
                "$b < $a", "$b > $a",
            ]
            .iter()
            .map(|e| scss_char(&a, &b, e))
            .collect();
            Some(r)
        }
        "seqin" => {
            // operands substituted inline (no variables: a variable read marks a number "calculated")
            let a = unhex_str(f.get(3)?);
            let b = unhex_str(f.get(4)?);
            let r: String = [
                ("a", "==", "b"), ("b", "==", "a"), ("a", "!=", "b"), ("b", "!=", "a"),
                ("a", "==", "a"), ("b", "==", "b"), ("a", "<", "b"), ("a", ">", "b"),
                ("a", "<=", "b"), ("a", ">=", "b"), ("b", "<", "a"), ("b", ">", "a"),
            ]
            .iter()
            .map(|(l, op, r)| {
                let l = if *l == "a" { &a } else { &b };
                let r = if *r == "a" { &a } else { &b };
                scss_char("0", "0", &format!("{l} {op} {r}"))
            })
            .collect();
            Some(r)
        }
        "numeq" => {
            let a = Number::from(f64_of(f.first()?)?);
            let b = Number::from(f64_of(f.get(1)?)?);
            let r: String = [
                if a == b { 'T' } else { 'F' },
                if b == a { 'T' } else { 'F' },
                ord_char(a.partial_cmp(&b)),
                ord_char(b.partial_cmp(&a)),
            ]
            .iter()
            .collect();
            Some(r)
        }
        "c12scale" => {
            let from: u32 = f.first()?.parse().ok()?;
            let to: u32 = f.get(1)?.parse().ok()?;
            let one = Numeric::new(1.0, unit_of(from));
            Some(match one.as_unitset(&unit_of(to)) {
                Some(n) => f64::from(n).to_bits().to_string(),
                None => "none".into(),
            })
        }
        _ => None,
    }
}
