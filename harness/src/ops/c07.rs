//! C07/C08/C09 (writer family):
//! `c07w <e|c> <css|scss> <hex src> [<tree term, ignored here>]` -> `ok:<hex css>` | `err:<hex msg>`
//!     one compilation of `src`; the tree term is read by the Lean model only.
//! `c08both <css|scss> <hex src> [<files>|-] [trees…]` -> `<expanded result>|<compressed result>`
//!     the same source compiled in both styles (each `ok:<hex>` | `err:<hex msg>`).
//! `c09rt <css|scss> <hex src>` -> `<first>|<reread>`: expanded output of `src`, and the
//!     expanded output of that output read back as plain CSS (`SourceFile::css_bytes`).
//! `c09str <hex utf-8 value>` -> `<hex of CssString{value, Double}.to_string()>|<ok|err>`: the Display text, and
//!     whether `a{b:<that text>}` is accepted by the plain-CSS reader.
use crate::util::*;

pub fn run(op: &str, f: &[&str]) -> Option<String> {
    match op {
        "c07w" => {
            if f.len() < 3 {
                return Some("bad-args".into());
            }
            let name = if f[1] == "css" { "in.css" } else { "in.scss" };
            let r = compile_mem(
                f[1],
                format(f[0], "10"),
                name,
                &unhex(f[2]),
                MemLoader::new(Default::default()),
            );
            Some(r.line())
        }
        "c08both" => {
            if f.len() < 2 {
                return Some("bad-args".into());
            }
            let name = if f[0] == "css" { "in.css" } else { "in.scss" };
            let files = parse_files(f.get(2).copied().filter(|s| *s != "-").unwrap_or(""));
            let mut out = Vec::new();
            for st in ["e", "c"] {
                let r = compile_mem(
                    f[0],
                    format(st, "10"),
                    name,
                    &unhex(f[1]),
                    MemLoader::new(files.clone()),
                );
                out.push(r.line());
            }
            Some(out.join("|"))
        }
        "c09rt" => {
            if f.len() < 2 {
                return Some("bad-args".into());
            }
            let name = if f[0] == "css" { "in.css" } else { "in.scss" };
            let first = compile_mem(
                f[0],
                format("e", "10"),
                name,
                &unhex(f[1]),
                MemLoader::new(Default::default()),
            );
            let second = match &first {
                Outcome::Ok(b) => compile_mem(
                    "css",
                    format("e", "10"),
                    "out.css",
                    b,
                    MemLoader::new(Default::default()),
                )
                .line(),
                Outcome::Err(_) => "skip".to_string(),
            };
            Some(format!("{}|{}", first.line(), second))
        }
        "c09id" => {
            // `c09id <f|r> <code point, decimal> <0|1 trailing space>`: the plain-CSS reader's normalisation of one
            // escaped code point at the first / a later position of an identifier -> `ok:<hex css>` | `err:..`
            let cp: u32 = f.get(1)?.parse().ok()?;
            let esc = format!("\\{:x}{}", cp, if f.get(2) == Some(&"1") { " " } else { "" });
            let src = if f.first() == Some(&"f") {
                format!("a{{b:{esc}z}}")
            } else {
                format!("a{{b:x{esc}z}}")
            };
            let r = compile_mem(
                "css",
                format("e", "10"),
                "i.css",
                src.as_bytes(),
                MemLoader::new(Default::default()),
            );
            Some(r.line())
        }
        "c09str" => {
            let v = unhex_str(f.first().copied().unwrap_or(""));
            let shown = rsass::css::CssString::new(v, rsass::value::Quotes::Double).to_string();
            let src = format!("a{{b:{shown}}}");
            let r = compile_mem(
                "css",
                format("e", "10"),
                "s.css",
                src.as_bytes(),
                MemLoader::new(Default::default()),
            );
            Some(format!("{}|{}", hex(shown.as_bytes()), r.class()))
        }
        _ => None,
    }
}
