//! `strraw <hex literal text>` — the stored form of a string literal (quote kind and raw value).
//! C13: `mapops <conv> <key pool> <value pool> <literal> <ops> <hex scss>` — compiles the
//! SassScript program (last field; the term fields are for the Lean model) and returns
//! `ok:<hex css>` | `err:<hex message>`.
use crate::util::*;

pub fn run(op: &str, f: &[&str]) -> Option<String> {
    match op {
        "mapops" => {
            let src = unhex_str(f.get(5)?);
            Some(compile_str(&src, format("e", "10")).line())
        }
        "strraw" => {
            // T1: how the literal parser stores a string literal: `<quotes n|d|s>:<hex raw value>`
            let text = unhex(f.first()?);
            let v = rsass::parse_value_data(&text).ok()?;
            let v = v
                .evaluate(rsass::ScopeRef::new_global(Default::default()))
                .ok()?;
            match v {
                rsass::css::Value::Literal(s) => {
                    let q = match s.quotes() {
                        rsass::value::Quotes::None => "n",
                        rsass::value::Quotes::Double => "d",
                        rsass::value::Quotes::Single => "s",
                    };
                    Some(format!("{q}:{}", hex(s.value().as_bytes())))
                }
                _ => Some("notstring".into()),
            }
        }
        _ => None,
    }
}
