//! C13: `mapops <conv> <key pool> <value pool> <literal> <ops> <hex scss>` — compiles the
//! SassScript program (last field; the term fields are for the Lean model) and returns
//! `ok:<hex css>` | `err:<hex message>`.
use crate::util::*;

pub fn run(op: &str, f: &[&str]) -> Option<String> {
    match op {
        "mapops" => {
            let src = unhex_str(f.get(5)?);
            Some(compile_str(&src, format("e", "10")).line())
        }
        _ => None,
    }
}
