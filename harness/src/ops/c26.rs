//! C26: string functions through a compiled declaration.
//! `strfn <fn> <q|u> <hex s> [args...]` -> `ok:<hex value text>` | `err:<hex message>`
//!   fn = length | upper | lower            (no further args)
//!      | index  <q|u> <hex substring>
//!      | insert <q|u> <hex insert> <int index>
//!      | slice  <int start> [<int end>]
//! The string arguments are written as SCSS literals (`"..."` when the flag is `q`,
//! bare when `u`); the generator only uses characters that need no escaping.
use crate::util::*;

fn lit(flag: &str, hexs: &str) -> String {
    let s = unhex_str(hexs);
    if flag == "q" {
        format!("\"{s}\"")
    } else {
        s
    }
}

pub fn run(op: &str, f: &[&str]) -> Option<String> {
    if op != "strfn" {
        return None;
    }
    if f.len() < 3 {
        return Some("bad-args".into());
    }
    let s = lit(f[1], f[2]);
    let expr = match (f[0], f.len()) {
        ("length", 3) => format!("str-length({s})"),
        ("upper", 3) => format!("to-upper-case({s})"),
        ("lower", 3) => format!("to-lower-case({s})"),
        ("index", 5) => format!("str-index({s}, {})", lit(f[3], f[4])),
        ("insert", 6) => {
            format!("str-insert({s}, {}, {})", lit(f[3], f[4]), f[5])
        }
        ("slice", 4) => format!("str-slice({s}, {})", f[3]),
        ("slice", 5) => format!("str-slice({s}, {}, {})", f[3], f[4]),
        _ => return Some("bad-args".into()),
    };
    Some(eval_expr(&expr, format("e", "10")).line())
}
