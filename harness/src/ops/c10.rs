//! C10: `numfmt <bits as decimal u64> <precision> <e|c>` -> hex of `Number::format(..)` text
//! `numdecl <bits> <precision> <e|c>` -> the same number printed through a compiled declaration
use crate::util::*;
use rsass::value::Number;

pub fn run(op: &str, f: &[&str]) -> Option<String> {
    match op {
        "numfmt" => {
            let bits: u64 = f.first()?.parse().ok()?;
            let n = Number::from(f64::from_bits(bits));
            let s = n.format(format(f.get(2)?, f.get(1)?)).to_string();
            Some(hex(s.as_bytes()))
        }
        _ => None,
    }
}
