//! C11: unit table extraction (T1) and unit arithmetic (T2).
//!
//! `c11.table`
//!     -> `name|dimension-debug|bits-to-first-unit-of-dimension;...#row;row;...` where each
//!        row is the comma separated `Unit::scale_to` result (f64 bits, `-` for `None`) of
//!        one unit to all 29, in `Unit` enum order.  Everything is computed by the running
//!        code through `rsass::value::{Unit, UnitSet}`.
//! `c11.scale <u> <v>`  -> `some:<bits>` | `none`          (`Unit::scale_to`)
//! `c11.uscale <units> <units>` -> same                     (`UnitSet::scale_to`)
//! `c11.op <add|sub|lt|le|gt|ge|eq|mul|div> <abits> <aunits> <bbits> <bunits>`
//!     -> `num:<bits>:<units>` | `true` | `false` | `kept` (operator left unevaluated) | `err`
//!     through `Operator::eval` on `css::Value::Numeric`; `div` is `&Numeric / &Numeric`,
//!     which is what `math.div` calls.
//! `c11.src <op> <alit> <aunit> <blit> <bunit> [<abits> <bbits>]`
//!     -> `ok:<hex value text>` | `err:<hex message>`: the expression compiled from SCSS
//!     source (`a{b: A op B}`; products and quotients through `meta.inspect`), precision 10.
//! In `c11.src` the literals `nan`, `inf`, `-inf` stand for `math.div(0u, 0)`, `math.div(1u, 0)`,
//! `math.div(-1u, 0)`.
//! Unit sets are written `px^1,em^-1` (`-` = unitless); a unit name `-` is `Unit::None`.
use crate::util::*;
use rsass::css::Value;
use rsass::value::{Numeric, Operator, Unit, UnitSet};

fn known() -> Vec<Unit> {
    use Unit::*;
    vec![
        Em, Ex, Ch, Rem, Vw, Vh, Vmin, Vmax, Cm, Mm, Q, In, Pt, Pc, Px, Deg, Grad,
        Rad, Turn, S, Ms, Hz, Khz, Dpi, Dpcm, Dppx, Percent, Fr, None,
    ]
}

fn unit_name(u: &Unit) -> String {
    if *u == Unit::None {
        "-".into()
    } else {
        u.to_string()
    }
}

fn unit_of(name: &str) -> Unit {
    if name == "-" || name.is_empty() {
        return Unit::None;
    }
    for u in known() {
        if unit_name(&u) == name {
            return u;
        }
    }
    Unit::Unknown(name.to_string())
}

fn unitset_of(s: &str) -> Option<UnitSet> {
    let mut r = UnitSet::scalar();
    if s == "-" || s.is_empty() {
        return Some(r);
    }
    for part in s.split(',') {
        let (n, p) = part.split_once('^')?;
        let p: i32 = p.parse().ok()?;
        let one = UnitSet::from(unit_of(n));
        for _ in 0..p.abs() {
            r = if p > 0 { &r * &one } else { &r / &one };
        }
    }
    Some(r)
}

/// `UnitSet [(Px, 1), (Unknown("foo"), -1)]` -> `px^1,foo^-1`
fn unitset_text(u: &UnitSet) -> String {
    let d = format!("{u:?}");
    let inner = d
        .trim_start_matches("UnitSet ")
        .trim_start_matches('[')
        .trim_end_matches(']');
    if inner.trim().is_empty() {
        return "-".into();
    }
    let dbg: Vec<(String, String)> = known()
        .iter()
        .map(|u| (format!("{u:?}"), unit_name(u)))
        .collect();
    let mut out = Vec::new();
    for item in inner.split("), (") {
        let item = item.trim_start_matches('(').trim_end_matches(')');
        let Some((n, p)) = item.rsplit_once(", ") else {
            return format!("?{d}");
        };
        let name = if let Some(x) = n.strip_prefix("Unknown(\"") {
            x.trim_end_matches("\")").to_string()
        } else {
            dbg.iter()
                .find(|(d, _)| d == n)
                .map(|(_, s)| s.clone())
                .unwrap_or_else(|| format!("?{n}"))
        };
        out.push(format!("{name}^{p}"));
    }
    out.join(",")
}

fn bits(x: f64) -> u64 {
    x.to_bits()
}

fn opt_bits(x: Option<f64>) -> String {
    match x {
        Some(v) => format!("some:{}", bits(v)),
        None => "none".into(),
    }
}

fn table() -> String {
    let us = known();
    let mut head = Vec::new();
    for u in &us {
        let dim = format!("{:?}", u.dimension());
        let first = us
            .iter()
            .find(|v| v.dimension() == u.dimension())
            .expect("own dimension");
        let f = u.scale_to(first).map(bits);
        head.push(format!(
            "{}|{}|{}",
            unit_name(u),
            dim,
            f.map(|b| b.to_string()).unwrap_or_else(|| "-".into())
        ));
    }
    let mut rows = Vec::new();
    for u in &us {
        let row: Vec<String> = us
            .iter()
            .map(|v| match u.scale_to(v) {
                Some(x) => bits(x).to_string(),
                None => "-".into(),
            })
            .collect();
        rows.push(row.join(","));
    }
    format!("{}#{}", head.join(";"), rows.join(";"))
}

fn num_of(b: &str, u: &str) -> Option<Numeric> {
    let b: u64 = b.parse().ok()?;
    Some(Numeric::new(f64::from_bits(b), unitset_of(u)?))
}

fn show_value(v: &Value) -> String {
    match v {
        Value::Numeric(n, _) => format!(
            "num:{}:{}",
            bits(f64::from(n.value.clone())),
            unitset_text(&n.unit)
        ),
        Value::True => "true".into(),
        Value::False => "false".into(),
        other => format!("other:{}", hex(format!("{other:?}").as_bytes())),
    }
}

fn api_op(op: &str, a: Numeric, b: Numeric) -> String {
    let oper = match op {
        "add" => Operator::Plus,
        "sub" => Operator::Minus,
        "lt" => Operator::Lesser,
        "le" => Operator::LesserE,
        "gt" => Operator::Greater,
        "ge" => Operator::GreaterE,
        "eq" => Operator::Equal,
        "ne" => Operator::NotEqual,
        "mul" => Operator::Multiply,
        "div" => {
            return show_value(&Value::from(&a / &b));
        }
        _ => return "bad-args".into(),
    };
    match oper.eval(Value::Numeric(a, true), Value::Numeric(b, true)) {
        Ok(Some(v)) => show_value(&v),
        Ok(None) => "kept".into(),
        Err(_) => "err".into(),
    }
}

/// Source text of an operand.  The magnitudes `nan`, `inf`, `-inf` have no literal; they
/// are produced by `math.div(0<unit>, 0)`, `math.div(1<unit>, 0)`, `math.div(-1<unit>, 0)`
/// (`Numeric / Numeric`: value 0/0, 1/0, -1/0 with the unit of the dividend).
fn lit(l: &str, u: &str) -> String {
    let unit = if u == "-" { "" } else { u };
    match l {
        "nan" => format!("math.div(0{unit}, 0)"),
        "inf" => format!("math.div(1{unit}, 0)"),
        "-inf" => format!("math.div(-1{unit}, 0)"),
        _ => format!("{l}{unit}"),
    }
}

fn src_op(op: &str, a: &str, b: &str) -> String {
    let e = match op {
        "add" => format!("{a} + {b}"),
        "sub" => format!("{a} - {b}"),
        "lt" => format!("{a} < {b}"),
        "le" => format!("{a} <= {b}"),
        "gt" => format!("{a} > {b}"),
        "ge" => format!("{a} >= {b}"),
        "eq" => format!("{a} == {b}"),
        "ne" => format!("{a} != {b}"),
        "mul" => format!("meta.inspect({a} * {b})"),
        "div" => format!("meta.inspect(math.div({a}, {b}))"),
        _ => return "bad-args".into(),
    };
    let src =
        format!("@use \"sass:math\";@use \"sass:meta\";a{{b:{e}}}\n");
    match compile_str(&src, format("e", "10")) {
        Outcome::Ok(out) => {
            let s = String::from_utf8_lossy(&out).into_owned();
            let v = if let Some(p) = s.find("b:") {
                let rest = &s[p + 2..];
                let rest = rest.strip_prefix(' ').unwrap_or(rest);
                let end = rest
                    .rfind(";\n}")
                    .or_else(|| rest.rfind('}'))
                    .unwrap_or(rest.len());
                rest[..end].to_string()
            } else {
                String::from("\u{0}none")
            };
            format!("ok:{}", hex(v.as_bytes()))
        }
        Outcome::Err(m) => format!("err:{}", hex(m.as_bytes())),
    }
}

pub fn run(op: &str, f: &[&str]) -> Option<String> {
    match op {
        "c11.table" => Some(table()),
        "c11.scale" => {
            if f.len() < 2 {
                return Some("bad-args".into());
            }
            Some(opt_bits(unit_of(f[0]).scale_to(&unit_of(f[1]))))
        }
        "c11.uscale" => {
            if f.len() < 2 {
                return Some("bad-args".into());
            }
            let (Some(a), Some(b)) = (unitset_of(f[0]), unitset_of(f[1]))
            else {
                return Some("bad-args".into());
            };
            Some(opt_bits(a.scale_to(&b)))
        }
        "c11.op" => {
            if f.len() < 5 {
                return Some("bad-args".into());
            }
            let (Some(a), Some(b)) = (num_of(f[1], f[2]), num_of(f[3], f[4]))
            else {
                return Some("bad-args".into());
            };
            Some(api_op(f[0], a, b))
        }
        "c11.src" => {
            if f.len() < 5 {
                return Some("bad-args".into());
            }
            Some(src_op(f[0], &lit(f[1], f[2]), &lit(f[3], f[4])))
        }
        _ => None,
    }
}
