//! Colour family (C31, C32, C33).
//!
//! Colour expressions cross the protocol as a space-separated prefix term in ONE field:
//!   E ::= hex <digits> | name <ident>
//!       | rgb|rgba|rgbs|rgbas <n> <n> <n> <a>      (…s = space/slash syntax)
//!       | hsl|hsla|hsls|hslas <n> <n> <n> <a>
//!       | hwb|hwbc <n> <n> <n> <a>                 (hwb = space/slash, hwbc = comma syntax)
//!       | rgba2 E <n>                              rgba($color, $alpha)
//!       | call <fname> <k> E (<key> <n>){k}        fname(E, [$key:] n, …)   (key `_` = positional)
//!       | mix E E <a>
//!   n ::= <f64 bits as decimal u64><n|p|d>         unit: none, %, deg
//!   a ::= n | -                                    (absent)
//! Numbers are rendered with Rust's shortest round-trip `{}` so that rsass parses back the
//! very same f64.
//!
//! `colornames <comma separated candidate names>`
//!     -> `n2v=<name>:<rrggbb>,…;v2n=<rrggbb>:<name>,…`
//!        n2v: every candidate for which `Rgba::from_name` answers (opaque, byte channels);
//!        v2n: EVERY 24-bit value for which `Rgba::from_rgb(r,g,b).name()` is `Some`.
//! `c31chan <E>`     -> `ok:<red>|<green>|<blue>|<hue>|<saturation>|<lightness>|<whiteness>|<blackness>|<alpha>` at precision 10,
//!                      followed by the same nine reports at precision 16
//! `c31rebuild <E>`  -> `ok:<t|f>|<t|f>|<t|f>`   c == rebuilt from its rgb / hsl / hwb channel reports
//! `c31eq <E> <E>`   -> `ok:<t|f>`
//! `cfmt <e|c> <precision> <E>` -> `ok:<hex of emitted text>|<the nine channel reports of the colour at precision 16>`
//! `c32 <law> <E1> <E2>` -> `ok:<t|f>|<nine channel reports of E1>|<nine channel reports of E2>` (E1 == E2; precision 10)
//! every op answers `err:<hex message>` when the compilation fails.
use crate::util::*;
use rsass::value::Rgba;

fn num(tok: &str, paren_neg: bool) -> Option<String> {
    let (bits, unit) = tok.split_at(tok.len().checked_sub(1)?);
    let x = f64::from_bits(bits.parse::<u64>().ok()?);
    let u = match unit {
        "n" => "",
        "p" => "%",
        "d" => "deg",
        _ => return None,
    };
    let s = format!("{x}{u}");
    Some(if paren_neg && x.is_sign_negative() {
        format!("({s})")
    } else {
        s
    })
}

/// renders one expression starting at `t[*i]`, advancing `*i`
fn expr(t: &[&str], i: &mut usize) -> Option<String> {
    let head = *t.get(*i)?;
    *i += 1;
    let next = |i: &mut usize| -> Option<&str> {
        let r = t.get(*i).copied();
        *i += 1;
        r
    };
    match head {
        "hex" => Some(format!("#{}", next(i)?)),
        "name" => Some(next(i)?.to_string()),
        "rgb" | "rgba" | "hsl" | "hsla" | "hwbc" => {
            let f = if head == "hwbc" { "hwb" } else { head };
            let (a, b, c) = (num(next(i)?, false)?, num(next(i)?, false)?, num(next(i)?, false)?);
            let al = next(i)?;
            if al == "-" {
                Some(format!("{f}({a}, {b}, {c})"))
            } else {
                Some(format!("{f}({a}, {b}, {c}, {})", num(al, false)?))
            }
        }
        "rgbs" | "rgbas" | "hsls" | "hslas" | "hwb" => {
            let f = match head {
                "rgbs" => "rgb",
                "rgbas" => "rgba",
                "hsls" => "hsl",
                "hslas" => "hsla",
                _ => "hwb",
            };
            let (a, b, c) = (num(next(i)?, true)?, num(next(i)?, true)?, num(next(i)?, true)?);
            let al = next(i)?;
            if al == "-" {
                Some(format!("{f}({a} {b} {c})"))
            } else {
                Some(format!("{f}({a} {b} {c} / {})", num(al, true)?))
            }
        }
        "rgba2" => {
            let c = expr(t, i)?;
            let al = num(t.get(*i)?, false)?;
            *i += 1;
            Some(format!("rgba({c}, {al})"))
        }
        "call" => {
            let f = t.get(*i)?.to_string();
            let k: usize = t.get(*i + 1)?.parse().ok()?;
            *i += 2;
            let mut args = vec![expr(t, i)?];
            for _ in 0..k {
                let key = *t.get(*i)?;
                let v = num(t.get(*i + 1)?, false)?;
                *i += 2;
                args.push(if key == "_" { v } else { format!("${key}: {v}") });
            }
            Some(format!("{f}({})", args.join(", ")))
        }
        "mix" => {
            let a = expr(t, i)?;
            let b = expr(t, i)?;
            let w = *t.get(*i)?;
            *i += 1;
            if w == "-" {
                Some(format!("mix({a}, {b})"))
            } else {
                Some(format!("mix({a}, {b}, {})", num(w, false)?))
            }
        }
        _ => None,
    }
}

fn whole(field: &str) -> Option<String> {
    let t: Vec<&str> = field.split(' ').filter(|s| !s.is_empty()).collect();
    let mut i = 0;
    let s = expr(&t, &mut i)?;
    if i == t.len() { Some(s) } else { None }
}

/// compile `src` (expanded, given precision) and return the values of the declarations of the
/// single rule, in order
fn decls(src: &str, style: &str, precision: &str) -> Result<Vec<String>, String> {
    match compile_str(src, format(style, precision)) {
        Outcome::Ok(b) => {
            let s = String::from_utf8_lossy(&b).into_owned();
            let mut out = vec![];
            for line in s.lines() {
                let line = line.trim();
                if let Some((k, v)) = line.split_once(": ")
                    && k.starts_with('x')
                {
                    out.push(v.trim_end_matches(';').to_string());
                }
            }
            Ok(out)
        }
        Outcome::Err(m) => Err(m),
    }
}

const CHANS: &str = "x1: red($c); x2: green($c); x3: blue($c); x4: hue($c); x5: saturation($c); \
                     x6: lightness($c); x7: color.whiteness($c); x8: color.blackness($c); x9: alpha($c);";

fn answer(r: Result<Vec<String>, String>, want: usize) -> String {
    match r {
        Ok(v) if v.len() == want => format!("ok:{}", v.join("|")),
        Ok(v) => format!("err:{}", hex(format!("unexpected output shape: {v:?}").as_bytes())),
        Err(m) => format!("err:{}", hex(m.as_bytes())),
    }
}

pub fn run(op: &str, f: &[&str]) -> Option<String> {
    match op {
        "colornames" => {
            let mut n2v = vec![];
            for name in f.first().copied().unwrap_or("").split(',') {
                if name.is_empty() {
                    continue;
                }
                if let Some(c) = Rgba::from_name(name) {
                    match c.try_bytes() {
                        Some((r, g, b)) => n2v.push(format!("{name}:{r:02x}{g:02x}{b:02x}")),
                        None => n2v.push(format!("{name}:nonbyte")),
                    }
                }
            }
            let mut v2n = vec![];
            for v in 0u32..(1 << 24) {
                let [_, r, g, b] = v.to_be_bytes();
                if let Some(n) = Rgba::from_rgb(r, g, b).name() {
                    v2n.push(format!("{v:06x}:{n}"));
                }
            }
            Some(format!("n2v={};v2n={}", n2v.join(","), v2n.join(",")))
        }
        "c31chan" => {
            let Some(e) = f.first().and_then(|s| whole(s)) else {
                return Some("bad-args".into());
            };
            let src = format!("@use \"sass:color\";\n$c: {e};\na {{ {CHANS} }}\n");
            // the same reports at precision 10 (correspondence) and at precision 16 (range oracle)
            match (decls(&src, "e", "10"), decls(&src, "e", "16")) {
                (Ok(mut a), Ok(b)) => {
                    a.extend(b);
                    Some(answer(Ok(a), 18))
                }
                (Err(m), _) | (_, Err(m)) => Some(answer(Err(m), 18)),
            }
        }
        "c31rebuild" => {
            let Some(e) = f.first().and_then(|s| whole(s)) else {
                return Some("bad-args".into());
            };
            let src = format!(
                "@use \"sass:color\";\n$c: {e};\na {{ \
                 x1: rgb(red($c), green($c), blue($c), alpha($c)) == $c; \
                 x2: hsl(hue($c), saturation($c), lightness($c), alpha($c)) == $c; \
                 x3: hwb(hue($c), color.whiteness($c), color.blackness($c), alpha($c)) == $c; }}\n"
            );
            Some(answer(decls(&src, "e", "10"), 3).replace("true", "t").replace("false", "f"))
        }
        "c31eq" => {
            let (Some(a), Some(b)) = (f.first().and_then(|s| whole(s)), f.get(1).and_then(|s| whole(s)))
            else {
                return Some("bad-args".into());
            };
            let src = format!("$c: {a};\n$d: {b};\na {{ x1: $c == $d; }}\n");
            Some(answer(decls(&src, "e", "10"), 1).replace("true", "t").replace("false", "f"))
        }
        "cfmt" => {
            if f.len() < 3 {
                return Some("bad-args".into());
            }
            let Some(e) = whole(f[2]) else {
                return Some("bad-args".into());
            };
            let src = format!("@use \"sass:color\";\n$c: {e};\na {{ x1: $c; }}\n");
            // the value text is taken from between `x1:` and the end of the declaration
            let text = match compile_str(&src, format(f[0], f[1])) {
                Outcome::Ok(b) => {
                    let s = String::from_utf8_lossy(&b).into_owned();
                    if let Some(p) = s.find("x1:") {
                        let rest = &s[p + 3..];
                        let rest = rest.strip_prefix(' ').unwrap_or(rest);
                        let end = rest.rfind(";\n}").or_else(|| rest.rfind('}')).unwrap_or(rest.len());
                        rest[..end].to_string()
                    } else {
                        String::from("\u{0}none")
                    }
                }
                Outcome::Err(m) => return Some(format!("err:{}", hex(m.as_bytes()))),
            };
            // the colour's own channel reports (precision 16), for the decoding oracle
            let src = format!("@use \"sass:color\";\n$c: {e};\na {{ {CHANS} }}\n");
            match decls(&src, "e", "16") {
                Ok(v) if v.len() == 9 => Some(format!("ok:{}|{}", hex(text.as_bytes()), v.join("|"))),
                Ok(v) => Some(format!("err:{}", hex(format!("unexpected output shape: {v:?}").as_bytes()))),
                Err(m) => Some(format!("err:{}", hex(m.as_bytes()))),
            }
        }
        "c32" => {
            // f[0] is the law tag (used by the Python oracle only)
            let (Some(a), Some(b)) = (f.get(1).and_then(|s| whole(s)), f.get(2).and_then(|s| whole(s)))
            else {
                return Some("bad-args".into());
            };
            let chans2 = CHANS.replace("$c", "$d").replace("x", "xb");
            let src = format!(
                "@use \"sass:color\";\n$c: {a};\n$d: {b};\na {{ x0: $c == $d; {CHANS} {chans2} }}\n"
            );
            Some(answer(decls(&src, "e", "10"), 19).replace("true", "t").replace("false", "f"))
        }
        _ => None,
    }
}
