//! C28 (list functions): `lf <fn> <structured args ...> <hex scss source>`
//!     -> `ok:<hex css>` | `err:<hex message>`
//!
//! Only the LAST field is used here: a complete SCSS source, compiled by the real
//! `Context::transform` in a scope that has two extra Rust built-ins predefined through the
//! public API (`Context::get_scope` + `Scope::define_function` + `Function::builtin`):
//!
//! * `vdump($v)` — returns an unquoted string holding an exact structural dump of the
//!   `css::Value` it receives (list elements, `Option<ListSeparator>`, bracket flag, map
//!   pairs), so that singletons, undecided separators and brackets are observable where
//!   `meta.inspect` prints the same text for different structures;
//! * `mklist($sep, $bra, $items...)` — builds `Value::List(items, sep, bra)` directly for
//!   the separator/bracket combinations that have no literal syntax (bracketed slash
//!   lists, one-element space/slash lists, empty comma lists).
//!
//! Dump grammar (no tabs, no spaces):
//!   list    `l<sep><bra>(e,e,...)`  sep: u(None) s(Space) c(Comma) /(Slash) S(SlashNoSpace); bra 0|1
//!   map     `m(k:v,k:v)`     arglist `g(e,e,...)` (items as `Value::iter_items` gives them)
//!   null    `n`              paren   `p(e)`       anything else `v<hex of introspection text>`
use crate::util::*;
use rsass::css::Value;
use rsass::input::{Context, SourceFile, SourceName};
use rsass::output::Format;
use rsass::sass::{CallError, FormalArgs, Function, Name, ResolvedArgs};
use rsass::value::ListSeparator;
use std::collections::BTreeMap;
use std::sync::Arc;

pub fn dump(v: &Value, out: &mut String) {
    match v {
        Value::List(items, sep, bra) => {
            out.push('l');
            out.push(match sep {
                None => 'u',
                Some(ListSeparator::Space) => 's',
                Some(ListSeparator::Comma) => 'c',
                Some(ListSeparator::Slash) => '/',
                Some(ListSeparator::SlashNoSpace) => 'S',
            });
            out.push(if *bra { '1' } else { '0' });
            out.push('(');
            for (i, e) in items.iter().enumerate() {
                if i > 0 {
                    out.push(',');
                }
                dump(e, out);
            }
            out.push(')');
        }
        Value::Map(m) => {
            out.push_str("m(");
            for (i, (k, v)) in m.iter().enumerate() {
                if i > 0 {
                    out.push(',');
                }
                dump(k, out);
                out.push(':');
                dump(v, out);
            }
            out.push(')');
        }
        Value::ArgList(_) => {
            out.push_str("g(");
            for (i, e) in v.clone().iter_items().iter().enumerate() {
                if i > 0 {
                    out.push(',');
                }
                dump(e, out);
            }
            out.push(')');
        }
        Value::Null => out.push('n'),
        Value::Paren(v) => {
            out.push_str("p(");
            dump(v, out);
            out.push(')');
        }
        other => {
            out.push('v');
            out.push_str(&hex(other.introspect().as_bytes()));
        }
    }
}

fn builtin(
    name: &str,
    args: FormalArgs,
    body: impl Fn(&ResolvedArgs) -> Result<Value, CallError> + Send + Sync + 'static,
) -> (Name, Function) {
    let n: Name = name.into();
    let f = Function::builtin("verif", &n, args, Arc::new(body));
    (n, f)
}

pub fn compile_with_helpers(src: &[u8], fmt: Format) -> Outcome {
    let mut ctx = Context::for_loader(MemLoader::new(BTreeMap::new())).with_format(fmt);
    let scope = ctx.get_scope();
    let (n, f) = builtin(
        "vdump",
        FormalArgs::new(vec![("v".into(), None)]),
        |s| {
            let v: Value = s.get("v".into())?;
            let mut out = String::new();
            dump(&v, &mut out);
            Ok(Value::Literal(out.into()))
        },
    );
    scope.define_function(n, f);
    let (n, f) = builtin(
        "mklist",
        FormalArgs::new_va(vec![
            ("sep".into(), None),
            ("bra".into(), None),
            ("items".into(), None),
        ]),
        |s| {
            let sep: String = s.get("sep".into())?;
            let sep = match sep.as_str() {
                "space" => Some(ListSeparator::Space),
                "comma" => Some(ListSeparator::Comma),
                "slash" => Some(ListSeparator::Slash),
                _ => None,
            };
            let bra: Value = s.get("bra".into())?;
            let items: Vec<Value> = s.get_va("items".into())?;
            Ok(Value::List(items, sep, bra.is_true()))
        },
    );
    scope.define_function(n, f);
    let source = SourceFile::scss_bytes(src.to_vec(), SourceName::root("in.scss"));
    match ctx.transform(source) {
        Ok(b) => Outcome::Ok(b),
        Err(e) => Outcome::Err(e.to_string()),
    }
}

pub fn run(op: &str, f: &[&str]) -> Option<String> {
    match op {
        "lf" => {
            let src = unhex(f.last()?);
            Some(compile_with_helpers(&src, format("e", "10")).line())
        }
        _ => None,
    }
}
