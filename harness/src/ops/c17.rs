//! C17: `c17.prog <term> <hex scss>` compiles the SCSS program (expanded, precision 10)
//! and returns the sequence of emitted declarations `p<k>: <value>;` in output order as
//! `ok:<hex of "k=value\nk=value...">`, or `err:<hex message>`.  The term (field 0) is the
//! same program for the Lean model and is ignored here.
use crate::util::*;

pub fn run(op: &str, f: &[&str]) -> Option<String> {
    match op {
        "c17.prog" => {
            if f.len() < 2 {
                return Some("bad-args".into());
            }
            let src = unhex_str(f[1]);
            match compile_str(&src, format("e", "10")) {
                Outcome::Ok(out) => {
                    let s = String::from_utf8_lossy(&out).into_owned();
                    let mut decls = Vec::new();
                    for line in s.lines() {
                        let l = line.trim();
                        if let Some(rest) = l.strip_prefix('p')
                            && let Some((k, v)) = rest.split_once(": ")
                            && k.chars().all(|c| c.is_ascii_digit())
                            && !k.is_empty()
                        {
                            let v = v.strip_suffix(';').unwrap_or(v);
                            decls.push(format!("{k}={v}"));
                        }
                    }
                    Some(format!("ok:{}", hex(decls.join("\n").as_bytes())))
                }
                Outcome::Err(m) => Some(format!("err:{}", hex(m.as_bytes()))),
            }
        }
        _ => None,
    }
}
